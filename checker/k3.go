package main

// K3: forward dataflow over go/cfg control-flow graphs with small finite
// lattices (bit masks per tracked key). Used for pairing, typestate and
// must-pass-through rules.

import (
	"go/ast"
	"go/token"
	"go/types"

	"golang.org/x/tools/go/cfg"
)

type flowState map[string]uint

func (s flowState) clone() flowState {
	n := flowState{}
	for k, v := range s {
		n[k] = v
	}
	return n
}

func (s flowState) join(o flowState) (flowState, bool) {
	changed := false
	for k, v := range o {
		if s[k]|v != s[k] {
			s[k] |= v
			changed = true
		}
	}
	return s, changed
}

type flowResult struct {
	g   *cfg.CFG
	in  map[*cfg.Block]flowState
	out map[*cfg.Block]flowState
}

// noReturnFunc decides whether a call never returns (panics), for CFG pruning.
type noReturnFunc func(*ast.CallExpr) bool

// runFlow runs a forward may-analysis. transfer is applied to each node of a
// block in order and may record findings itself (it is called again on the
// final pass with report=true).
func runFlow(body *ast.BlockStmt, noret noReturnFunc, init flowState, transfer func(n ast.Node, st flowState, report bool) flowState) *flowResult {
	g := cfg.New(body, func(c *ast.CallExpr) bool { return !noret(c) })
	if len(g.Blocks) == 0 {
		return &flowResult{g: g, in: map[*cfg.Block]flowState{}, out: map[*cfg.Block]flowState{}}
	}
	return runFlowFrom(g, g.Blocks[0], init, transfer)
}

// runFlowFrom starts the analysis at an arbitrary block (region analysis).
func runFlowFrom(g *cfg.CFG, start *cfg.Block, init flowState, transfer func(n ast.Node, st flowState, report bool) flowState) *flowResult {
	res := &flowResult{g: g, in: map[*cfg.Block]flowState{}, out: map[*cfg.Block]flowState{}}
	res.in[start] = init.clone()
	work := []*cfg.Block{start}
	inWork := map[*cfg.Block]bool{start: true}
	for len(work) > 0 {
		b := work[0]
		work = work[1:]
		inWork[b] = false
		st := res.in[b].clone()
		for _, n := range b.Nodes {
			st = transfer(n, st, false)
		}
		res.out[b] = st
		for _, s := range b.Succs {
			cur, ok := res.in[s]
			if !ok {
				res.in[s] = st.clone()
				if !inWork[s] {
					work = append(work, s)
					inWork[s] = true
				}
				continue
			}
			if _, ch := cur.join(st); ch && !inWork[s] {
				work = append(work, s)
				inWork[s] = true
			}
		}
	}
	// reporting pass over reachable blocks
	for _, b := range g.Blocks {
		in, ok := res.in[b]
		if !ok {
			continue
		}
		st := in.clone()
		for _, n := range b.Nodes {
			st = transfer(n, st, true)
		}
	}
	return res
}

// exitStates returns the out-state of every reachable block without successors
// (function exits: return statements or falling off the end; blocks ending in
// a no-return call have no successors either and are reported separately).
func (r *flowResult) exitBlocks() []*cfg.Block {
	var out []*cfg.Block
	for _, b := range r.g.Blocks {
		if _, ok := r.in[b]; ok && len(b.Succs) == 0 {
			out = append(out, b)
		}
	}
	return out
}

// blockEndsInNoReturn: the last node of the block is a call the CFG builder was told never returns.
func blockEndsInNoReturn(b *cfg.Block, noret noReturnFunc) bool {
	if len(b.Nodes) == 0 {
		return false
	}
	found := false
	ast.Inspect(b.Nodes[len(b.Nodes)-1], func(n ast.Node) bool {
		if c, ok := n.(*ast.CallExpr); ok && noret(c) {
			found = true
		}
		return true
	})
	return found
}

// noReturnSet computes, per package, the functions that never return normally:
// builtin panic, and functions whose every path ends in a no-return call.
type noRet struct {
	c    *Ctx
	info map[*types.Func]*types.Info
	decl map[*types.Func]*ast.FuncDecl
	set  map[*types.Func]bool
}

func newNoRet(c *Ctx) *noRet {
	nr := &noRet{c: c, info: map[*types.Func]*types.Info{}, decl: map[*types.Func]*ast.FuncDecl{}, set: map[*types.Func]bool{}}
	for _, p := range c.All {
		for _, f := range p.Syntax {
			for _, d := range f.Decls {
				if fd, ok := d.(*ast.FuncDecl); ok && fd.Body != nil {
					if fn, ok := p.TypesInfo.Defs[fd.Name].(*types.Func); ok {
						nr.decl[fn] = fd
						nr.info[fn] = p.TypesInfo
					}
				}
			}
		}
	}
	for changed := true; changed; {
		changed = false
		for fn, fd := range nr.decl {
			if nr.set[fn] {
				continue
			}
			info := nr.info[fn]
			g := cfg.New(fd.Body, func(c *ast.CallExpr) bool { return !nr.callNoReturn(c, info) })
			// no-return iff no reachable block is a normal exit
			reach := map[*cfg.Block]bool{}
			var dfs func(b *cfg.Block)
			dfs = func(b *cfg.Block) {
				if reach[b] {
					return
				}
				reach[b] = true
				for _, s := range b.Succs {
					dfs(s)
				}
			}
			if len(g.Blocks) == 0 {
				continue
			}
			dfs(g.Blocks[0])
			normalExit := false
			for b := range reach {
				if len(b.Succs) == 0 && !blockEndsInNoReturn(b, func(c *ast.CallExpr) bool { return nr.callNoReturn(c, info) }) {
					normalExit = true
				}
			}
			if !normalExit {
				nr.set[fn] = true
				changed = true
			}
		}
	}
	return nr
}

func (nr *noRet) callNoReturn(call *ast.CallExpr, info *types.Info) bool {
	switch f := ast.Unparen(call.Fun).(type) {
	case *ast.Ident:
		if b, ok := info.Uses[f].(*types.Builtin); ok {
			return b.Name() == "panic"
		}
		if fn, ok := info.Uses[f].(*types.Func); ok {
			return nr.set[fn]
		}
	case *ast.SelectorExpr:
		if fn, ok := info.Uses[f.Sel].(*types.Func); ok {
			if nr.set[fn] {
				return true
			}
			if fn.Pkg() != nil && noReturnStd[fn.Pkg().Name()+"."+fn.Name()] {
				return true
			}
		}
	}
	return false
}

func (nr *noRet) forInfo(info *types.Info) noReturnFunc {
	return func(c *ast.CallExpr) bool { return nr.callNoReturn(c, info) }
}

// calleeFunc resolves the static callee of a call expression.
func calleeFunc(call *ast.CallExpr, info *types.Info) *types.Func {
	switch f := ast.Unparen(call.Fun).(type) {
	case *ast.Ident:
		fn, _ := info.Uses[f].(*types.Func)
		return fn
	case *ast.SelectorExpr:
		fn, _ := info.Uses[f.Sel].(*types.Func)
		return fn
	}
	return nil
}

// recvIdent returns the identifier object a method call is made on (x.m() -> x), if it is a plain identifier.
func recvIdentObj(call *ast.CallExpr, info *types.Info) types.Object {
	se, ok := ast.Unparen(call.Fun).(*ast.SelectorExpr)
	if !ok {
		return nil
	}
	x := ast.Unparen(se.X)
	if u, ok := x.(*ast.UnaryExpr); ok {
		x = ast.Unparen(u.X)
	}
	if s, ok := x.(*ast.StarExpr); ok {
		x = ast.Unparen(s.X)
	}
	if id, ok := x.(*ast.Ident); ok {
		return info.Uses[id]
	}
	return nil
}

// recoveredRegion finds, in a recover handler, the blocks entered only when the
// recovered value is non-nil: the then-branch of `if e != nil`, or the
// continuation of `if e == nil { return }`.
func recoveredRegion(body *ast.BlockStmt, info *types.Info, noret noReturnFunc) (*cfg.CFG, []*cfg.Block) {
	g := cfg.New(body, func(c *ast.CallExpr) bool { return !noret(c) })
	// variables assigned from recover()
	rec := map[types.Object]bool{}
	ast.Inspect(body, func(x ast.Node) bool {
		if vs, ok := x.(*ast.ValueSpec); ok && len(vs.Names) == 1 && len(vs.Values) == 1 { // var e = recover()
			if call, ok := vs.Values[0].(*ast.CallExpr); ok {
				if id, ok := call.Fun.(*ast.Ident); ok && id.Name == "recover" {
					if o := info.Defs[vs.Names[0]]; o != nil {
						rec[o] = true
					}
				}
			}
			return true
		}
		as, ok := x.(*ast.AssignStmt)
		if !ok || len(as.Lhs) != 1 || len(as.Rhs) != 1 {
			return true
		}
		if call, ok := as.Rhs[0].(*ast.CallExpr); ok {
			if id, ok := call.Fun.(*ast.Ident); ok && id.Name == "recover" {
				if l, ok := as.Lhs[0].(*ast.Ident); ok {
					if o := info.Defs[l]; o != nil {
						rec[o] = true
					} else if o := info.Uses[l]; o != nil {
						rec[o] = true
					}
				}
			}
		}
		return true
	})
	nilTest := func(e ast.Expr) (neq bool, ok bool) {
		be, isB := ast.Unparen(e).(*ast.BinaryExpr)
		if !isB || (be.Op != token.NEQ && be.Op != token.EQL) {
			return false, false
		}
		x, y := ast.Unparen(be.X), ast.Unparen(be.Y)
		if id, isID := y.(*ast.Ident); !isID || id.Name != "nil" {
			x, y = y, x
		}
		if id, isID := y.(*ast.Ident); !isID || id.Name != "nil" {
			return false, false
		}
		if id, isID := x.(*ast.Ident); isID && rec[info.Uses[id]] {
			return be.Op == token.NEQ, true
		}
		return false, false
	}
	var out []*cfg.Block
	for _, b := range g.Blocks {
		ifs, ok := b.Stmt.(*ast.IfStmt)
		if !ok {
			continue
		}
		neq, ok := nilTest(ifs.Cond)
		if !ok {
			continue
		}
		if (neq && b.Kind == cfg.KindIfThen) || (!neq && (b.Kind == cfg.KindIfElse || (b.Kind == cfg.KindIfDone && ifs.Else == nil))) {
			out = append(out, b)
		}
	}
	return g, out
}
