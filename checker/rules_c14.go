package main

import (
	"fmt"
	"go/ast"
	"go/constant"
	"go/token"
	"go/types"
	"regexp"
	"sort"
	"strings"

	"golang.org/x/tools/go/ssa"
)

// freeTextFields: AST/message fields the parser fills from text or string tokens (arbitrary characters),
// with the deriving site. Identifier-class fields (names, keys of data references) are not listed.
var freeTextFields = map[string]string{
	"ast.RawTextNode.Text":     "parse.textOrTag / literal / special chars: raw template text",
	"ast.StringNode.Value":     "parse.newValueNode: unquoted string literal (also global string values via nodeFromValue)",
	"ast.StringNode.Quoted":    "parse.newValueNode: the literal as written in Soy syntax (Soy escapes, not JS escapes)",
	"ast.MapLiteralNode.Items": "parse.parseMapLiteral: keys are unquoted string literals",
	"ast.CssNode.Suffix":       "parse.parseCss: text of the {css} command",
	"ast.MsgHtmlTagNode.Text":  "parse.parseMsgRawText: html tag text inside a message",
	"soymsg.RawTextPart.Text":  "soymsg.Parts: translated message text from the catalogue",
	"ast.SoyFileNode.Name":     "parse.SoyFile: file name given by the caller",
	"ast.MsgNode.Desc":         "parse.parseMsg: description attribute",
	"ast.MsgNode.Meaning":      "parse.parseMsg: meaning attribute",
}

// jsSanitizers: the encoders whose output denotes the input inside a JavaScript string literal. strconv.Quote is
// not one (Go writes \a and \UNNNNNNNN, which JavaScript reads as the letters a and U).
var jsSanitizers = map[string]bool{"text/template.JSEscape": true, "text/template.JSEscapeString": true, "html/template.JSEscapeString": true, "encoding/json.Marshal": true}

type jsFlow struct {
	raw  bool
	pos  token.Pos
	desc string
}

type jsTaint struct {
	c       *Ctx
	fns     []*ssa.Function
	summary map[*ssa.Function]map[int]int // param index -> 0 none, 1 sanitised sink only, 2 raw sink
}

func fieldKeyOf(t types.Type, idx int) string {
	if p, ok := t.Underlying().(*types.Pointer); ok {
		t = p.Elem()
	}
	rel, tn, ok := relPkgOfType(t)
	if !ok {
		return ""
	}
	st, ok := t.Underlying().(*types.Struct)
	if !ok {
		return ""
	}
	return rel + "." + tn + "." + st.Field(idx).Name()
}

// sourceField returns the free-text field a value is loaded from, if any.
func sourceField(v ssa.Value) string {
	switch v := v.(type) {
	case *ssa.UnOp:
		if v.Op == token.MUL {
			if fa, ok := v.X.(*ssa.FieldAddr); ok {
				if k := fieldKeyOf(fa.X.Type(), fa.Field); freeTextFields[k] != "" && !strings.HasSuffix(k, ".Items") {
					return k
				}
			}
		}
	case *ssa.Field:
		if k := fieldKeyOf(v.X.Type(), v.Field); freeTextFields[k] != "" && !strings.HasSuffix(k, ".Items") {
			return k
		}
	case *ssa.Extract:
		// key of a range over MapLiteralNode.Items
		if nx, ok := v.Tuple.(*ssa.Next); ok && v.Index == 1 {
			if rg, ok := nx.Iter.(*ssa.Range); ok {
				if ld, ok := rg.X.(*ssa.UnOp); ok && ld.Op == token.MUL {
					if fa, ok := ld.X.(*ssa.FieldAddr); ok {
						if k := fieldKeyOf(fa.X.Type(), fa.Field); k == "ast.MapLiteralNode.Items" {
							return k
						}
					}
				}
			}
		}
	}
	return ""
}

// analyse runs the taint with the given sources and returns the flows into emit sinks.
func (jt *jsTaint) analyse(f *ssa.Function, source func(ssa.Value) bool) []jsFlow {
	t := taintFunction(f, taintSpec{
		source:    source,
		sanitizer: func(com *ssa.CallCommon) bool { return jsSanitizers[calleeName(com)] },
		opaque: func(com *ssa.CallCommon) bool {
			// taint does not come back out of the module's own emitters (they return nothing useful)
			if sc := com.StaticCallee(); sc != nil && isSoyFunc(sc) && sc.Signature.Results().Len() == 0 {
				return true
			}
			return false
		},
	})
	var flows []jsFlow
	for _, b := range f.Blocks {
		for _, in := range b.Instrs {
			ci, ok := in.(ssa.CallInstruction)
			if !ok {
				continue
			}
			com := ci.Common()
			name := calleeName(com)
			var args []ssa.Value
			args = append(args, com.Args...)
			tainted := func(vs []ssa.Value) bool {
				for _, v := range vs {
					if t[v] {
						return true
					}
				}
				return false
			}
			switch {
			case jsSanitizers[name]:
				if tainted(args) {
					flows = append(flows, jsFlow{false, in.Pos(), "passes " + name})
				}
			case com.IsInvoke() && isIOWriter(com.Value.Type()) && com.Method.Name() == "Write":
				if tainted(args) {
					flows = append(flows, jsFlow{true, in.Pos(), "written with Writer.Write"})
				}
			case name == "io.WriteString" || strings.HasPrefix(name, "fmt.Fprint"):
				if len(args) > 1 && tainted(args[1:]) {
					// a constant format all of whose verbs are numeric (%d %x %X %o %b) writes digits only,
					// whatever the numbers were computed from: it cannot carry free text
					if name == "fmt.Fprintf" && len(args) > 2 && !t[args[1]] {
						if k, ok := args[1].(*ssa.Const); ok && k.Value != nil && k.Value.Kind() == constant.String && numericOnlyFormat(constant.StringVal(k.Value)) {
							flows = append(flows, jsFlow{false, in.Pos(), "written as numbers by a constant numeric format"})
							continue
						}
					}
					flows = append(flows, jsFlow{true, in.Pos(), "written with " + name})
				}
			case com.IsInvoke() && com.Method.Name() == "Write" && strings.HasSuffix(com.Value.Type().String(), "JSWriter"):
				if tainted(args) {
					flows = append(flows, jsFlow{true, in.Pos(), "written with JSWriter.Write"})
				}
			default:
				sc := com.StaticCallee()
				if sc == nil || !isSoyFunc(sc) {
					continue
				}
				for i, a := range args {
					if !t[a] {
						continue
					}
					switch jt.summary[sc][i] {
					case 2:
						flows = append(flows, jsFlow{true, in.Pos(), "passed to " + sc.Name() + ", which writes it unescaped"})
					case 1:
						flows = append(flows, jsFlow{false, in.Pos(), "passed to " + sc.Name() + ", which escapes it"})
					}
				}
			}
		}
	}
	return flows
}

// R14: every free-text field written into the generated JavaScript passes the JS escaper.
func ruleR14(c *Ctx) {
	c.buildSSA()
	pkg := c.SSA["soyjs"]
	if pkg == nil {
		c.fatalf("anchor: package soyjs not loaded")
		return
	}
	jt := &jsTaint{c: c, fns: allPkgFunctions(c, pkg), summary: map[*ssa.Function]map[int]int{}}
	// parameter summaries to a fixpoint
	for changed := true; changed; {
		changed = false
		for _, f := range jt.fns {
			for i, p := range f.Params {
				pp := p
				level := 0
				for _, fl := range jt.analyse(f, func(v ssa.Value) bool { return v == pp }) {
					if fl.raw {
						level = 2
					} else if level < 1 {
						level = 1
					}
				}
				if jt.summary[f] == nil {
					jt.summary[f] = map[int]int{}
				}
				if jt.summary[f][i] < level {
					jt.summary[f][i] = level
					changed = true
				}
			}
		}
	}
	flowsPerField := map[string]int{}
	type rep struct {
		key, detail string
		pos         token.Pos
		raw         bool
	}
	var reps []rep
	for _, f := range jt.fns {
		fk := strings.ReplaceAll(f.String(), modPath+"/", "")
		c.seen(fk)
		// which fields are read in this function
		fields := map[string]bool{}
		for _, b := range f.Blocks {
			for _, in := range b.Instrs {
				if v, ok := in.(ssa.Value); ok {
					if k := sourceField(v); k != "" {
						fields[k] = true
					}
				}
			}
		}
		for _, fld := range sortedKeys(fields) {
			field := fld
			ord := 0
			for _, fl := range jt.analyse(f, func(v ssa.Value) bool { return sourceField(v) == field }) {
				ord++
				flowsPerField[field]++
				reps = append(reps, rep{fmt.Sprintf("%s %s -> output#%d", fk, field, ord), fl.desc, fl.pos, fl.raw})
			}
		}
	}
	sort.Slice(reps, func(i, j int) bool { return reps[i].key < reps[j].key })
	for _, r := range reps {
		if r.raw {
			c.bad("R14", r.key, r.pos, "free text from the template is "+r.detail+": a quote, backslash, line terminator or </script> in it breaks or changes the generated JavaScript")
		} else {
			c.ok("R14", r.key, r.pos, "reaches the output only after it "+r.detail)
		}
	}
	need := []string{"ast.RawTextNode.Text", "ast.StringNode.Value", "ast.MapLiteralNode.Items", "ast.CssNode.Suffix", "ast.MsgHtmlTagNode.Text", "soymsg.RawTextPart.Text"}
	have := 0
	for _, n := range need {
		if flowsPerField[n] > 0 {
			have++
		} else {
			c.unk("R14", n+"#emitted", token.NoPos, "no flow of this free-text field into the generated output was found: the generator's emit path for it is not recognised, so its escaping cannot be decided")
		}
	}
	c.floor("R14", "free-text source fields with at least one emit flow", 6, have)
}

// R14b: free text is escaped as a whole: it is not cut at computed byte offsets first (a multi-byte
// character could be split, producing invalid UTF-8 in the generated file).
// R14c: the generator never reads StringNode.Quoted, the literal's Soy spelling, which is a
// placeholder for nodes built from global values.
func ruleR14b(c *Ctx) {
	c.buildSSA()
	pkg := c.SSA["soyjs"]
	if pkg == nil {
		return
	}
	nfun, nslice, nquoted := 0, 0, 0
	for _, f := range allPkgFunctions(c, pkg) {
		nfun++
		fk := strings.ReplaceAll(f.String(), modPath+"/", "")
		t := taintFunction(f, taintSpec{
			source: func(v ssa.Value) bool {
				if sourceField(v) != "" {
					return true
				}
				// parameters that carry free text (byte slices / strings handed to the raw-text writer)
				if p, ok := v.(*ssa.Parameter); ok {
					if sl, ok := p.Type().Underlying().(*types.Slice); ok {
						if b, ok := sl.Elem().(*types.Basic); ok && b.Kind() == types.Byte {
							return true
						}
					}
				}
				return false
			},
		})
		for _, b := range f.Blocks {
			for _, in := range b.Instrs {
				switch in := in.(type) {
				case *ssa.Slice:
					if !t[in.X] {
						continue
					}
					if in.Low == nil && in.High == nil {
						continue // x[:] keeps the whole text
					}
					if (in.Low == nil || runeBoundary(in.Low, in.X, map[ssa.Value]bool{})) && (in.High == nil || runeBoundary(in.High, in.X, map[ssa.Value]bool{})) {
						continue // cut where a character starts: the positions come from decoding the text itself
					}
					nslice++
					c.bad("R14b", fmt.Sprintf("%s slices free text#%d", fk, nslice), in.Pos(), "free text of the template is cut at a byte offset before it is escaped and written: a multi-byte character can be split, so the generated file is not valid UTF-8 and the text is not preserved")
				case *ssa.FieldAddr:
					if fieldKeyOf(in.X.Type(), in.Field) == "ast.StringNode.Quoted" {
						read := false
						for _, r := range *in.Referrers() {
							if u, ok := r.(*ssa.UnOp); ok && u.Op == token.MUL {
								read = true
							}
						}
						if read {
							nquoted++
							c.bad("R14c", fmt.Sprintf("%s reads StringNode.Quoted#%d", fk, nquoted), in.Pos(), "the generator reads the literal's Soy spelling (Quoted); for string nodes built from global values it is a placeholder shared by all of them, so anything keyed or emitted by it confuses different strings")
						}
					}
				}
			}
		}
	}
	if nslice == 0 {
		c.ok("R14b", "soyjs#free-text-not-resliced", token.NoPos, fmt.Sprintf("no computed slicing of free text in the %d functions of soyjs", nfun))
	}
	if nquoted == 0 {
		c.ok("R14c", "soyjs#quoted-not-read", token.NoPos, "StringNode.Quoted is never read by the generator")
	}
}

// R14d: the generator never recovers a position inside a name by searching the name for one of its own
// pieces (strings.Index(name, segment) with segment taken from strings.Split(name, ...)): the search finds
// the first occurrence of the text, which is another segment whenever the text repeats (a.b.a, shop.sh),
// so the prefix declared for the namespace is the wrong one and the template's function is never defined.
func ruleR14d(c *Ctx) {
	p := c.pkg("soyjs")
	if p == nil {
		return
	}
	info := p.TypesInfo
	nsplit, nbad := 0, 0
	for _, fd := range c.allFuncDecls("soyjs") {
		ast.Inspect(fd.Body, func(x ast.Node) bool {
			rs, ok := x.(*ast.RangeStmt)
			if !ok || rs.Value == nil {
				return true
			}
			call, ok := ast.Unparen(rs.X).(*ast.CallExpr)
			if !ok || len(call.Args) < 1 {
				return true
			}
			cal := calleeFunc(call, info)
			if cal == nil || cal.Pkg() == nil || cal.Pkg().Path() != "strings" || !strings.HasPrefix(cal.Name(), "Split") && cal.Name() != "Fields" {
				return true
			}
			nsplit++
			whole := exprKey(call.Args[0])
			vid, ok := rs.Value.(*ast.Ident)
			if !ok {
				return true
			}
			piece := info.Defs[vid]
			ast.Inspect(rs.Body, func(y ast.Node) bool {
				c2, ok := y.(*ast.CallExpr)
				if !ok || len(c2.Args) != 2 {
					return true
				}
				cal2 := calleeFunc(c2, info)
				if cal2 == nil || cal2.Pkg() == nil || cal2.Pkg().Path() != "strings" || !strings.Contains(cal2.Name(), "Index") {
					return true
				}
				if id, ok := ast.Unparen(c2.Args[1]).(*ast.Ident); ok && info.Uses[id] == piece && exprKey(c2.Args[0]) == whole {
					nbad++
					c.bad("R14d", fmt.Sprintf("%s searches %s for its own piece#%d", c.declKey("soyjs", fd), whole, nbad), c2.Pos(),
						"the position of a piece of "+whole+" is recovered by searching "+whole+" for the piece's text: when the text occurs earlier in the name the wrong position is found, so the generated declarations name the wrong prefix")
				}
				return true
			})
			return true
		})
	}
	// the namespace walk itself must be present and cut the name at positions found by a forward search
	// for the separator that starts after the previous cut
	fd := c.mustFunc("soyjs", "state.visitNamespace")
	if fd == nil {
		return
	}
	cuts := 0
	ast.Inspect(fd.Body, func(x ast.Node) bool {
		if se, ok := x.(*ast.SliceExpr); ok {
			if fv := fieldOf(resolveLocalInit(se.X, fd.Body, info), info); fv != nil && fv.Name() == "Name" {
				cuts++
			}
		}
		return true
	})
	c.floor("R14d", "cuts of the namespace name in visitNamespace", 1, cuts)
	_ = nsplit
}

// R14e: the generator emits what the registry holds now. Bundle's file watcher replaces the registry's
// contents in place (*reg = *registry), and files can be added after NewGenerator, so the file node that
// Generator.WriteFile hands to Write is taken from a range over gen.registry.SoyFiles in that call, never
// from a table built earlier.
func ruleR14e(c *Ctx) {
	p := c.pkg("soyjs")
	fd := c.mustFunc("soyjs", "Generator.WriteFile")
	if p == nil || fd == nil {
		return
	}
	info := p.TypesInfo
	// range variables over <recv>.registry.SoyFiles
	rangeVars := func(body ast.Node) map[types.Object]bool {
		live := map[types.Object]bool{}
		ast.Inspect(body, func(x ast.Node) bool {
			rs, ok := x.(*ast.RangeStmt)
			if !ok || rs.Value == nil {
				return true
			}
			if fv := fieldOf(rs.X, info); fv != nil && fv.Name() == "SoyFiles" {
				if inner, ok := ast.Unparen(rs.X).(*ast.SelectorExpr); ok {
					if rf := fieldOf(inner.X, info); rf != nil && rf.Name() == "registry" {
						if id, ok := rs.Value.(*ast.Ident); ok && info.Defs[id] != nil {
							live[info.Defs[id]] = true
						}
					}
				}
			}
			return true
		})
		return live
	}
	live := rangeVars(fd.Body)
	// ... or the result of a helper that searches that list in this call (every return: nil or the range variable)
	searches := func(call *ast.CallExpr) bool {
		cal := calleeFunc(call, info)
		if cal == nil {
			return false
		}
		for _, hd := range c.allFuncDecls("soyjs") {
			if info.Defs[hd.Name] != cal || hd.Body == nil {
				continue
			}
			hl := rangeVars(hd.Body)
			good, some := true, false
			ast.Inspect(hd.Body, func(y ast.Node) bool {
				if _, ok := y.(*ast.FuncLit); ok {
					return false
				}
				rs, ok := y.(*ast.ReturnStmt)
				if !ok {
					return true
				}
				if len(rs.Results) == 0 {
					good = false
					return true
				}
				r := ast.Unparen(rs.Results[0])
				if id, ok := r.(*ast.Ident); ok {
					if id.Name == "nil" && info.Uses[id] == types.Universe.Lookup("nil") {
						return true
					}
					if hl[info.Uses[id]] {
						some = true
						return true
					}
				}
				good = false
				return true
			})
			return good && some
		}
		return false
	}
	ast.Inspect(fd.Body, func(x ast.Node) bool {
		switch s := x.(type) {
		case *ast.AssignStmt:
			if len(s.Lhs) >= 1 && len(s.Rhs) == 1 {
				if call, ok := ast.Unparen(s.Rhs[0]).(*ast.CallExpr); ok && searches(call) {
					if id, ok := s.Lhs[0].(*ast.Ident); ok && info.Defs[id] != nil {
						live[info.Defs[id]] = true
					}
				}
			}
		case *ast.ValueSpec:
			if len(s.Names) >= 1 && len(s.Values) == 1 {
				if call, ok := ast.Unparen(s.Values[0]).(*ast.CallExpr); ok && searches(call) {
					live[info.Defs[s.Names[0]]] = true
				}
			}
		}
		return true
	})
	n := 0
	ast.Inspect(fd.Body, func(x ast.Node) bool {
		call, ok := x.(*ast.CallExpr)
		if !ok {
			return true
		}
		cal := calleeFunc(call, info)
		if cal == nil || cal.Name() != "Write" || cal.Pkg() != p.Types || len(call.Args) < 2 {
			return true
		}
		n++
		id, isID := ast.Unparen(call.Args[1]).(*ast.Ident)
		c.check(isID && live[info.Uses[id]], "R14e", "soyjs.Generator.WriteFile file-node-source#"+itoa(n), call.Pos(),
			"the file node comes from the registry's current file list",
			"the file node handed to Write ("+exprKey(call.Args[1])+") does not come from a range over gen.registry.SoyFiles in this call: after the registry is updated in place the generator keeps emitting the old templates, and files added later are not found")
		return true
	})
	c.floor("R14e", "Write calls in Generator.WriteFile", 1, n)
}

var reFormatVerb = regexp.MustCompile(`%[-+# 0]*[0-9]*(?:\.[0-9]+)?([a-zA-Z%])`)

// numericOnlyFormat: every verb of the format writes digits (%d %x %X %o %b) or a literal percent sign.
func numericOnlyFormat(f string) bool {
	for _, m := range reFormatVerb.FindAllStringSubmatch(f, -1) {
		switch m[1] {
		case "d", "x", "X", "o", "b", "%":
		default:
			return false
		}
	}
	return true
}

// runeBoundary: v is a position in text at which a character starts, by provenance: 0, or a position of this
// kind advanced by the size that utf8.DecodeRune / DecodeRuneInString reported for the text from there on.
func runeBoundary(v ssa.Value, text ssa.Value, seen map[ssa.Value]bool) bool {
	if seen[v] {
		return true // a loop-carried position: decided by its other edges
	}
	seen[v] = true
	switch x := v.(type) {
	case *ssa.Const:
		return x.Value != nil && x.Value.Kind() == constant.Int && constant.Sign(x.Value) == 0
	case *ssa.Phi:
		for _, e := range x.Edges {
			if !runeBoundary(e, text, seen) {
				return false
			}
		}
		return true
	case *ssa.BinOp:
		if x.Op != token.ADD {
			return false
		}
		isSize := func(s ssa.Value) bool {
			ex, ok := s.(*ssa.Extract)
			if !ok || ex.Index != 1 {
				return false
			}
			call, ok := ex.Tuple.(*ssa.Call)
			if !ok {
				return false
			}
			n := calleeName(call.Common())
			return n == "unicode/utf8.DecodeRune" || n == "unicode/utf8.DecodeRuneInString"
		}
		return (runeBoundary(x.X, text, seen) && isSize(x.Y)) || (runeBoundary(x.Y, text, seen) && isSize(x.X))
	}
	return false
}
