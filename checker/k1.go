package main

// K1: interprocedural effect analysis on SSA. For every function reachable
// from an entry set, every write (Store, MapUpdate, append/copy/delete/sort
// on an existing backing store) is classified by the provenance of the
// object written: fresh (allocated under the same entry call), package state,
// or shared. A write is a violation when the object is shared and protected.

import (
	"fmt"
	"go/token"
	"go/types"
	"sort"
	"strings"

	"golang.org/x/tools/go/callgraph"
	"golang.org/x/tools/go/ssa"
)

type prov struct {
	fresh   bool            // every origin is an allocation in analysed code
	globals map[string]bool // package variables reached
	prot    map[string]bool // protected types/fields passed through on a non-fresh path
	why     map[string]bool // non-fresh origins, for the report
}

func newProv(fresh bool) *prov {
	return &prov{fresh: fresh, globals: map[string]bool{}, prot: map[string]bool{}, why: map[string]bool{}}
}

func (p *prov) merge(q *prov) {
	if q == nil {
		return
	}
	p.fresh = p.fresh && q.fresh
	for k := range q.globals {
		p.globals[k] = true
	}
	for k := range q.prot {
		p.prot[k] = true
	}
	for k := range q.why {
		p.why[k] = true
	}
}

func (p *prov) nonFresh(why string) *prov {
	p.fresh = false
	p.why[why] = true
	return p
}

type effects struct {
	c         *Ctx
	cg        *callgraph.Graph
	reach     map[*ssa.Function]bool
	entries   map[*ssa.Function]bool
	memo      map[ssa.Value]*prov // current approximation (grows monotonically over iterations)
	done      map[ssa.Value]bool  // computed in the current iteration
	changed   bool
	visiting  map[ssa.Value]bool
	protPkgs  map[string]bool // module-relative package paths whose struct types are protected
	pkgOnly   bool            // only package-state writes are violations (compile-side entries)
	allocStor map[*ssa.Alloc][]ssa.Value
}

func relPkgOfType(t types.Type) (string, string, bool) {
	if p, ok := t.(*types.Pointer); ok {
		t = p.Elem()
	}
	n, ok := t.(*types.Named)
	if !ok || n.Obj().Pkg() == nil {
		return "", "", false
	}
	rel, ok := relOf(n.Obj().Pkg())
	return rel, n.Obj().Name(), ok
}

// protectedType reports whether objects of type t (a struct or collection) belong to the
// compiled bundle / caller data.
func (e *effects) protectedType(t types.Type) (string, bool) {
	rel, name, ok := relPkgOfType(t)
	if !ok {
		return "", false
	}
	if e.protPkgs[rel] {
		return rel + "." + name, true
	}
	if rel == "data" && (name == "Map" || name == "List") {
		return "data." + name, true
	}
	return "", false
}

func (e *effects) funcKey(f *ssa.Function) string {
	if f == nil {
		return "?"
	}
	s := f.String()
	s = strings.ReplaceAll(s, modPath+"/", "")
	s = strings.ReplaceAll(s, modPath, "soy")
	return s
}

func isSoyFunc(f *ssa.Function) bool {
	if f == nil {
		return false
	}
	if f.Pkg != nil {
		return isSoyPkg(f.Pkg.Pkg)
	}
	if f.Parent() != nil {
		return isSoyFunc(f.Parent())
	}
	if o := f.Object(); o != nil && o.Pkg() != nil {
		return isSoyPkg(o.Pkg())
	}
	return false
}

func newEffects(c *Ctx, cg *callgraph.Graph, entries []*ssa.Function) *effects {
	e := &effects{c: c, cg: cg, reach: map[*ssa.Function]bool{}, entries: map[*ssa.Function]bool{},
		memo: map[ssa.Value]*prov{}, done: map[ssa.Value]bool{}, visiting: map[ssa.Value]bool{}, allocStor: map[*ssa.Alloc][]ssa.Value{},
		protPkgs: map[string]bool{"ast": true, "template": true, "soymsg": true, "soymsg/pomsg": true}}
	var work []*ssa.Function
	for _, f := range entries {
		e.entries[f] = true
		e.reach[f] = true
		work = append(work, f)
	}
	for len(work) > 0 {
		f := work[len(work)-1]
		work = work[:len(work)-1]
		// anonymous functions defined inside are reachable when their parent is
		for _, an := range f.AnonFuncs {
			if !e.reach[an] {
				e.reach[an] = true
				work = append(work, an)
			}
		}
		n := cg.Nodes[f]
		if n == nil {
			continue
		}
		for _, out := range n.Out {
			g := out.Callee.Func
			if g == nil || e.reach[g] || !traversable(g) {
				continue
			}
			e.reach[g] = true
			work = append(work, g)
		}
	}
	return e
}

// traversable: the analysis follows calls into the module and into the pure
// library packages soy uses (which may call back into soy through interfaces
// such as fmt.Stringer or sort.Interface). It does not follow calls into the
// objects a caller supplies (network/file writers, HTTP servers): those are
// covered by the stated assumption that they do not mutate soy objects.
var traversablePkgs = map[string]bool{
	"fmt": true, "sort": true, "strings": true, "bytes": true, "strconv": true, "encoding/json": true,
	"reflect": true, "text/template": true, "regexp": true, "regexp/syntax": true, "io": true, "io/ioutil": true,
	"errors": true, "unicode": true, "unicode/utf8": true, "math": true, "math/rand": true, "time": true,
	"log": true, "sync": true, "net/url": true, "bufio": true, "path": true, "path/filepath": true,
	"internal/fmtsort": true, "encoding": true, "encoding/base64": true, "slices": true, "maps": true,
	"github.com/robfig/gettext/po": true, "golang.org/x/text/language": true,
}

func traversable(f *ssa.Function) bool {
	if isSoyFunc(f) {
		return true
	}
	var pkg *types.Package
	if f.Pkg != nil {
		pkg = f.Pkg.Pkg
	} else if o := f.Object(); o != nil {
		pkg = o.Pkg()
	} else if f.Parent() != nil {
		return traversable(f.Parent())
	}
	if pkg == nil {
		return true // synthetic wrappers and bound-method thunks
	}
	return traversablePkgs[pkg.Path()]
}

func (e *effects) soyReachable() []*ssa.Function {
	var out []*ssa.Function
	for f := range e.reach {
		if isSoyFunc(f) && f.Blocks != nil {
			out = append(out, f)
		}
	}
	sort.Slice(out, func(i, j int) bool { return e.funcKey(out[i]) < e.funcKey(out[j]) })
	return out
}

func (e *effects) storesTo(a *ssa.Alloc) []ssa.Value {
	if v, ok := e.allocStor[a]; ok {
		return v
	}
	var vals []ssa.Value
	fn := a.Parent()
	var scan func(f *ssa.Function)
	scan = func(f *ssa.Function) {
		for _, b := range f.Blocks {
			for _, in := range b.Instrs {
				if st, ok := in.(*ssa.Store); ok && st.Addr == a {
					vals = append(vals, st.Val)
				}
			}
		}
		for _, an := range f.AnonFuncs {
			scan(an)
		}
	}
	scan(fn)
	e.allocStor[a] = vals
	return vals
}

// walk computes the provenance of the object(s) designated by v.
func (e *effects) walk(v ssa.Value) *prov {
	if e.done[v] {
		return e.memo[v]
	}
	if e.visiting[v] {
		// inside a cycle: use the approximation of the previous iteration (bottom at first);
		// the driver iterates to a fixpoint.
		if p, ok := e.memo[v]; ok {
			return p
		}
		return newProv(true)
	}
	e.visiting[v] = true
	p := e.walk1(v)
	delete(e.visiting, v)
	if old, ok := e.memo[v]; !ok || !provEqual(old, p) {
		e.changed = true
	}
	e.memo[v] = p
	e.done[v] = true
	return p
}

func provEqual(a, b *prov) bool {
	if a.fresh != b.fresh || len(a.globals) != len(b.globals) || len(a.prot) != len(b.prot) || len(a.why) != len(b.why) {
		return false
	}
	for k := range a.globals {
		if !b.globals[k] {
			return false
		}
	}
	for k := range a.prot {
		if !b.prot[k] {
			return false
		}
	}
	for k := range a.why {
		if !b.why[k] {
			return false
		}
	}
	return true
}

// fixpoint evaluates f repeatedly until no provenance changes.
func (e *effects) fixpoint(f func()) int {
	n := 0
	for {
		n++
		e.done = map[ssa.Value]bool{}
		e.changed = false
		f()
		if !e.changed || n > 50 {
			return n
		}
	}
}

func (e *effects) noteProt(p *prov, t types.Type, field string) {
	if p.fresh {
		return
	}
	if name, ok := e.protectedType(t); ok {
		if field != "" {
			name += "." + field
		}
		p.prot[name] = true
	}
}

func (e *effects) walk1(v ssa.Value) *prov {
	switch v := v.(type) {
	case *ssa.Alloc, *ssa.MakeMap, *ssa.MakeSlice, *ssa.MakeChan, *ssa.MakeClosure, *ssa.Const, *ssa.Function, *ssa.BinOp:
		return newProv(true)
	case *ssa.Global:
		p := newProv(false)
		name := v.Name()
		if v.Pkg != nil {
			if rel, ok := relOf(v.Pkg.Pkg); ok {
				if rel == "" {
					rel = "soy"
				}
				name = rel + "." + v.Name()
				p.globals[name] = true
			} else {
				name = v.Pkg.Pkg.Path() + "." + v.Name()
			}
		}
		p.why["package variable "+name] = true
		return p
	case *ssa.FieldAddr:
		p := newProv(true)
		p.merge(e.walk(v.X))
		st := v.X.Type().Underlying().(*types.Pointer).Elem()
		fname := ""
		if s, ok := st.Underlying().(*types.Struct); ok {
			fname = s.Field(v.Field).Name()
		}
		e.noteProt(p, st, fname)
		return p
	case *ssa.Field:
		p := newProv(true)
		p.merge(e.walk(v.X))
		fname := ""
		if s, ok := v.X.Type().Underlying().(*types.Struct); ok {
			fname = s.Field(v.Field).Name()
		}
		e.noteProt(p, v.X.Type(), fname)
		return p
	case *ssa.IndexAddr:
		p := newProv(true)
		p.merge(e.walk(v.X))
		e.noteProt(p, v.X.Type(), "[]")
		return p
	case *ssa.Index:
		p := newProv(true)
		p.merge(e.walk(v.X))
		e.noteProt(p, v.X.Type(), "[]")
		return p
	case *ssa.Slice:
		p := newProv(true)
		p.merge(e.walk(v.X))
		if _, ok := v.X.Type().Underlying().(*types.Basic); ok {
			return newProv(true) // slicing a string: immutable
		}
		e.noteProt(p, v.X.Type(), "[:]")
		return p
	case *ssa.Lookup:
		if _, ok := v.X.Type().Underlying().(*types.Basic); ok {
			return newProv(true) // string index
		}
		p := newProv(true)
		p.merge(e.walk(v.X))
		p.nonFresh("value read from a map")
		e.noteProt(p, v.X.Type(), "[k]")
		return p
	case *ssa.UnOp:
		if v.Op != token.MUL {
			if v.Op == token.ARROW {
				return newProv(false).nonFresh("value received from a channel")
			}
			return newProv(true)
		}
		if a, ok := v.X.(*ssa.Alloc); ok {
			// a local cell: the values stored into it
			p := newProv(true)
			vals := e.storesTo(a)
			for _, sv := range vals {
				p.merge(e.walk(sv))
			}
			return p
		}
		p := newProv(true)
		p.merge(e.walk(v.X))
		if g, ok := v.X.(*ssa.Global); ok {
			_ = g
			p.nonFresh("content of a package variable")
			for k := range p.globals {
				p.prot["package variable "+k] = true
			}
			return p
		}
		p.nonFresh("pointer loaded from memory (" + shortType(v.X.Type()) + ")")
		return p
	case *ssa.Phi:
		p := newProv(true)
		for _, ed := range v.Edges {
			p.merge(e.walk(ed))
		}
		return p
	case *ssa.ChangeType:
		return e.walk(v.X)
	case *ssa.ChangeInterface:
		return e.walk(v.X)
	case *ssa.MakeInterface:
		return e.walk(v.X)
	case *ssa.TypeAssert:
		return e.walk(v.X)
	case *ssa.SliceToArrayPointer:
		return e.walk(v.X)
	case *ssa.Convert:
		// string <-> []byte/[]rune conversions allocate; numeric conversions carry no pointer
		if _, ok := v.X.Type().Underlying().(*types.Basic); ok {
			return newProv(true)
		}
		if _, ok := v.Type().Underlying().(*types.Basic); ok {
			return newProv(true)
		}
		return e.walk(v.X)
	case *ssa.Extract:
		switch t := v.Tuple.(type) {
		case *ssa.Call:
			return e.callResult(t, v.Index)
		case *ssa.TypeAssert:
			return e.walk(t.X)
		case *ssa.Lookup:
			return e.walk(t)
		case *ssa.Next:
			if r, ok := t.Iter.(*ssa.Range); ok {
				if _, ok := r.X.Type().Underlying().(*types.Basic); ok {
					return newProv(true)
				}
				p := newProv(true)
				p.merge(e.walk(r.X))
				p.nonFresh("value read while ranging over a map")
				e.noteProt(p, r.X.Type(), "[k]")
				return p
			}
		case *ssa.UnOp:
			return e.walk(t)
		}
		return newProv(false).nonFresh("tuple component of unknown origin")
	case *ssa.Call:
		return e.callResult(v, 0)
	case *ssa.Parameter:
		return e.paramProv(v)
	case *ssa.FreeVar:
		fn := v.Parent()
		idx := -1
		for i, fv := range fn.FreeVars {
			if fv == v {
				idx = i
			}
		}
		p := newProv(true)
		found := false
		if par := fn.Parent(); par != nil && idx >= 0 {
			for _, b := range par.Blocks {
				for _, in := range b.Instrs {
					if mc, ok := in.(*ssa.MakeClosure); ok && mc.Fn == fn && idx < len(mc.Bindings) {
						p.merge(e.walk(mc.Bindings[idx]))
						found = true
					}
				}
			}
		}
		if !found {
			p.nonFresh("captured variable of unknown binding")
		}
		return p
	}
	return newProv(false).nonFresh(fmt.Sprintf("value of unhandled form %T", v))
}

func shortType(t types.Type) string {
	s := t.String()
	return strings.ReplaceAll(s, modPath+"/", "")
}

// paramProv: the provenance of a parameter is that of the actual arguments at
// every call site in the reachable set; entry parameters are caller-owned.
func (e *effects) paramProv(v *ssa.Parameter) *prov {
	fn := v.Parent()
	idx := -1
	for i, p := range fn.Params {
		if p == v {
			idx = i
		}
	}
	if e.entries[fn] || idx < 0 {
		return newProv(false).nonFresh("parameter " + v.Name() + " of entry " + e.funcKey(fn))
	}
	n := e.cg.Nodes[fn]
	p := newProv(true)
	sites := 0
	if n != nil {
		for _, in := range n.In {
			if !e.reach[in.Caller.Func] || in.Site == nil {
				continue
			}
			args := in.Site.Common().Args
			var arg ssa.Value
			if in.Site.Common().IsInvoke() {
				// invoke: receiver is Common().Value, params follow
				if idx == 0 {
					arg = in.Site.Common().Value
				} else if idx-1 < len(args) {
					arg = args[idx-1]
				}
			} else {
				off := 0
				// calling a bound method closure or method expression keeps the receiver in args[0]
				if len(args) == len(fn.Params) {
					off = 0
				} else if len(args)+1 == len(fn.Params) {
					off = 1 // receiver supplied elsewhere (bound method value)
				}
				if idx-off >= 0 && idx-off < len(args) {
					arg = args[idx-off]
				}
			}
			sites++
			if arg == nil {
				p.nonFresh("argument not identified at a call of " + e.funcKey(fn))
				continue
			}
			p.merge(e.walk(arg))
		}
	}
	if sites == 0 {
		p.nonFresh("parameter " + v.Name() + " of " + e.funcKey(fn) + " (no analysed caller)")
	}
	return p
}

// callResult: provenance of result #idx of a call.
func (e *effects) callResult(call *ssa.Call, idx int) *prov {
	com := call.Common()
	if b, ok := com.Value.(*ssa.Builtin); ok {
		switch b.Name() {
		case "append":
			// may return the first argument's backing array
			p := newProv(true)
			p.merge(e.walk(com.Args[0]))
			return p
		case "recover":
			return newProv(false).nonFresh("recovered panic value")
		}
		return newProv(true)
	}
	var callees []*ssa.Function
	if sc := com.StaticCallee(); sc != nil {
		callees = []*ssa.Function{sc}
	} else if n := e.cg.Nodes[call.Parent()]; n != nil {
		for _, out := range n.Out {
			if out.Site == call {
				callees = append(callees, out.Callee.Func)
			}
		}
	}
	if len(callees) == 0 {
		return newProv(false).nonFresh("result of an unresolved dynamic call")
	}
	p := newProv(true)
	for _, cal := range callees {
		if !isSoyFunc(cal) || cal.Blocks == nil {
			p.merge(e.externResult(call, cal))
			continue
		}
		for _, b := range cal.Blocks {
			for _, in := range b.Instrs {
				if r, ok := in.(*ssa.Return); ok && idx < len(r.Results) {
					p.merge(e.walk(r.Results[idx]))
				}
			}
		}
	}
	return p
}

// externResult: results of functions outside the module. Functions known to
// return fresh storage are listed; everything else is treated as possibly
// aliasing its pointer-like arguments.
func (e *effects) externResult(call *ssa.Call, cal *ssa.Function) *prov {
	full := cal.String()
	for _, pre := range []string{"strings.", "strconv.", "fmt.", "errors.", "unicode", "math.", "regexp.", "net/url.", "encoding/json.", "text/template.", "time.", "sort.", "path", "os.", "io/ioutil.", "bufio.", "runtime", "log."} {
		if strings.HasPrefix(full, pre) || strings.HasPrefix(full, "("+pre) || strings.HasPrefix(full, "(*"+pre) {
			return newProv(true)
		}
	}
	if strings.HasPrefix(full, "bytes.") || strings.HasPrefix(full, "(*bytes.") {
		// bytes.Buffer results alias the buffer, which is whatever the receiver is
		p := newProv(true)
		if len(call.Common().Args) > 0 {
			p.merge(e.walk(call.Common().Args[0]))
		}
		return p
	}
	p := newProv(true)
	for _, a := range call.Common().Args {
		switch a.Type().Underlying().(type) {
		case *types.Pointer, *types.Slice, *types.Map, *types.Interface, *types.Struct:
			p.merge(e.walk(a))
		}
	}
	p.nonFresh("result of " + full)
	return p
}

// write describes one write site.
type write struct {
	fn     *ssa.Function
	pos    token.Pos
	kind   string // store | mapupdate | append | copy | delete | sort
	target string // human description
	base   ssa.Value
	objT   types.Type // type of the object written (struct / collection), may be nil
	field  string
	ord    int
}

// writesOf enumerates the write sites of a function.
func (e *effects) writesOf(f *ssa.Function) []write {
	var out []write
	counts := map[string]int{}
	add := func(w write) {
		k := w.kind + ":" + w.target
		counts[k]++
		w.ord = counts[k]
		w.fn = f
		out = append(out, w)
	}
	for _, b := range f.Blocks {
		for _, in := range b.Instrs {
			switch in := in.(type) {
			case *ssa.Store:
				switch a := in.Addr.(type) {
				case *ssa.FieldAddr:
					st := a.X.Type().Underlying().(*types.Pointer).Elem()
					fname := ""
					if s, ok := st.Underlying().(*types.Struct); ok {
						fname = s.Field(a.Field).Name()
					}
					add(write{pos: in.Pos(), kind: "store", target: shortType(st) + "." + fname, base: a.X, objT: st, field: fname})
				case *ssa.IndexAddr:
					add(write{pos: in.Pos(), kind: "store", target: shortType(a.X.Type()) + "[i]", base: a.X, objT: a.X.Type()})
				case *ssa.Alloc:
					// a local cell
				case *ssa.Global:
					add(write{pos: in.Pos(), kind: "store", target: "package variable " + a.Name(), base: a})
				default:
					pt, _ := in.Addr.Type().Underlying().(*types.Pointer)
					var ot types.Type
					if pt != nil {
						ot = pt.Elem()
					}
					add(write{pos: in.Pos(), kind: "store", target: "*" + shortType(in.Addr.Type()), base: in.Addr, objT: ot})
				}
			case *ssa.MapUpdate:
				add(write{pos: in.Pos(), kind: "mapupdate", target: shortType(in.Map.Type()), base: in.Map, objT: in.Map.Type()})
			case ssa.CallInstruction:
				com := in.Common()
				if b, ok := com.Value.(*ssa.Builtin); ok {
					switch b.Name() {
					case "append":
						add(write{pos: in.Pos(), kind: "append", target: shortType(com.Args[0].Type()), base: com.Args[0], objT: com.Args[0].Type()})
					case "copy", "delete", "clear":
						add(write{pos: in.Pos(), kind: b.Name(), target: shortType(com.Args[0].Type()), base: com.Args[0], objT: com.Args[0].Type()})
					}
					continue
				}
				if sc := com.StaticCallee(); sc != nil && sc.Pkg != nil && sc.Pkg.Pkg.Path() == "sort" && len(com.Args) > 0 {
					switch sc.Name() {
					case "Strings", "Ints", "Float64s", "Slice", "SliceStable", "Sort", "Stable":
						add(write{pos: in.Pos(), kind: "sort", target: shortType(com.Args[0].Type()), base: com.Args[0], objT: com.Args[0].Type()})
					}
				}
			}
		}
	}
	return out
}

// classify decides one write. Returns status and detail.
func (e *effects) classify(w write) (string, string, bool) {
	p := e.walk(w.base)
	if g, ok := w.base.(*ssa.Global); ok {
		if g.Pkg != nil && isSoyPkg(g.Pkg.Pkg) {
			return Violated, "assigns package variable " + g.Name() + " while serving a call; every concurrent or later call observes it", false
		}
	}
	if p.fresh {
		return Discharged, "object is allocated under the same call (fresh)", true
	}
	var reasons []string
	if len(p.globals) > 0 {
		reasons = append(reasons, "reaches package state "+strings.Join(sortedKeys(p.globals), ","))
	}
	if e.pkgOnly {
		if len(p.globals) > 0 {
			return Violated, strings.Join(reasons, "; "), false
		}
		return Discharged, "not package state (compile-side entry: the tree being built belongs to this call)", true
	}
	prot := map[string]bool{}
	for k := range p.prot {
		prot[k] = true
	}
	if w.objT != nil {
		if name, ok := e.protectedType(w.objT); ok {
			if w.field != "" {
				name += "." + w.field
			}
			prot[name] = true
		}
	}
	if len(prot) > 0 {
		reasons = append(reasons, "object belongs to shared "+strings.Join(sortedKeys(prot), ","))
	}
	if len(reasons) == 0 {
		return Discharged, "object is not fresh but is renderer-private state (" + strings.Join(firstN(sortedKeys(p.why), 2), "; ") + ")", false
	}
	return Violated, strings.Join(reasons, "; ") + " [origin: " + strings.Join(firstN(sortedKeys(p.why), 3), "; ") + "]", false
}

func firstN(s []string, n int) []string {
	if len(s) > n {
		return s[:n]
	}
	return s
}

// lookupFunc finds an SSA function by package-relative path and name ("(*T).m" or "f").
func (c *Ctx) ssaFunc(rel, name string) *ssa.Function {
	c.buildSSA()
	pkg := c.SSA[rel]
	if pkg == nil {
		return nil
	}
	if strings.Contains(name, ".") {
		i := strings.LastIndex(name, ".")
		tn, mn := strings.Trim(name[:i], "(*)"), name[i+1:]
		ptr := strings.HasPrefix(name, "(*")
		t := pkg.Type(tn)
		if t == nil {
			return nil
		}
		var typ types.Type = t.Type()
		if ptr {
			typ = types.NewPointer(typ)
		}
		sel := c.Prog.MethodSets.MethodSet(typ).Lookup(pkg.Pkg, mn)
		if sel == nil {
			return nil
		}
		return c.Prog.MethodValue(sel)
	}
	return pkg.Func(name)
}

// pathTo returns one call path from an entry to f (for diagnostics).
func (e *effects) pathTo(target *ssa.Function) []string {
	prev := map[*ssa.Function]*ssa.Function{}
	var q []*ssa.Function
	for f := range e.entries {
		q = append(q, f)
		prev[f] = nil
	}
	for len(q) > 0 {
		f := q[0]
		q = q[1:]
		if f == target {
			var out []string
			for x := f; x != nil; x = prev[x] {
				out = append([]string{e.funcKey(x)}, out...)
			}
			return out
		}
		var next []*ssa.Function
		next = append(next, f.AnonFuncs...)
		if n := e.cg.Nodes[f]; n != nil {
			for _, o := range n.Out {
				next = append(next, o.Callee.Func)
			}
		}
		for _, g := range next {
			if _, ok := prev[g]; !ok && g != nil {
				prev[g] = f
				q = append(q, g)
			}
		}
	}
	return nil
}
