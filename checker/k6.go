package main

// K6: order-sensitivity of ranges over maps. Go randomises map iteration, so
// any observable effect that depends on the visiting order differs from run
// to run. A loop body is accepted only when it is a composition of
// order-insensitive idioms; everything else is reported.

import (
	"fmt"
	"go/ast"
	"go/token"
	"go/types"
	"sort"
	"strings"

	"golang.org/x/tools/go/ssa"
)

var pureCallPkgs = map[string]bool{"strings": true, "strconv": true, "unicode": true, "unicode/utf8": true, "math": true, "bytes": true, "fmt.Sprintf": true, "fmt.Sprint": true}

type mapRange struct {
	rel  string
	fd   *ast.FuncDecl
	rs   *ast.RangeStmt
	ord  int
	list []ast.Stmt // statements following the loop in its block
}

// mapRangesOf lists the ranges over maps in a function declaration.
func mapRangesOf(c *Ctx, rel string, fd *ast.FuncDecl) []mapRange {
	info := c.Pkgs[rel].TypesInfo
	var out []mapRange
	ord := 0
	var visitList func(list []ast.Stmt)
	var visitStmt func(s ast.Stmt)
	visitStmt = func(s ast.Stmt) {
		ast.Inspect(s, func(x ast.Node) bool {
			switch b := x.(type) {
			case *ast.BlockStmt:
				visitList(b.List)
				return false
			case *ast.CaseClause:
				visitList(b.Body)
				return false
			case *ast.CommClause:
				visitList(b.Body)
				return false
			}
			return true
		})
	}
	visitList = func(list []ast.Stmt) {
		for i, s := range list {
			if ls, ok := s.(*ast.LabeledStmt); ok {
				s = ls.Stmt
			}
			if rs, ok := s.(*ast.RangeStmt); ok {
				if tv, ok := info.Types[rs.X]; ok {
					if _, isMap := tv.Type.Underlying().(*types.Map); isMap {
						ord++
						out = append(out, mapRange{rel, fd, rs, ord, list[i+1:]})
					}
				}
			}
			visitStmt(s)
		}
	}
	visitList(fd.Body.List)
	return out
}

// classifyMapRange returns "" when the loop is order-insensitive, else the reason.
func classifyMapRange(c *Ctx, mr mapRange) (reason string, how string) {
	info := c.Pkgs[mr.rel].TypesInfo
	var keyObj, valObj types.Object
	if id, ok := mr.rs.Key.(*ast.Ident); ok && id.Name != "_" {
		keyObj = info.Defs[id]
		if keyObj == nil {
			keyObj = info.Uses[id]
		}
	}
	if id, ok := mr.rs.Value.(*ast.Ident); ok && id.Name != "_" {
		valObj = info.Defs[id]
		if valObj == nil {
			valObj = info.Uses[id]
		}
	}
	// variables bound by `x := rangeVar.(type)` denote the same element
	aliasOf := map[types.Object]types.Object{}
	ast.Inspect(mr.rs.Body, func(x ast.Node) bool {
		ts, ok := x.(*ast.TypeSwitchStmt)
		if !ok {
			return true
		}
		if as, ok := ts.Assign.(*ast.AssignStmt); ok && len(as.Rhs) == 1 {
			if ta, ok := as.Rhs[0].(*ast.TypeAssertExpr); ok {
				if id, ok := ast.Unparen(ta.X).(*ast.Ident); ok {
					if o := info.Uses[id]; o != nil && (o == keyObj || o == valObj) {
						for _, cs := range ts.Body.List {
							if imp := info.Implicits[cs]; imp != nil {
								aliasOf[imp] = o
							}
						}
					}
				}
			}
		}
		return true
	})
	resolve := func(o types.Object) types.Object {
		if a, ok := aliasOf[o]; ok {
			return a
		}
		return o
	}
	isRangeVar := func(e ast.Expr) bool {
		id, ok := ast.Unparen(e).(*ast.Ident)
		if !ok {
			return false
		}
		o := resolve(info.Uses[id])
		return o != nil && (o == keyObj || o == valObj)
	}
	isRangeKey := func(e ast.Expr) bool {
		id, ok := ast.Unparen(e).(*ast.Ident)
		if !ok {
			return false
		}
		o := resolve(info.Uses[id])
		return o != nil && o == keyObj
	}
	mentionsRangeVar := func(n ast.Node) bool {
		found := false
		ast.Inspect(n, func(x ast.Node) bool {
			if id, ok := x.(*ast.Ident); ok {
				if o := info.Uses[id]; o != nil && (o == keyObj || o == valObj) {
					found = true
				}
			}
			return true
		})
		return found
	}
	// impure calls inside an expression
	var impure func(e ast.Expr) string
	impure = func(e ast.Expr) string {
		why := ""
		ast.Inspect(e, func(x ast.Node) bool {
			if why != "" {
				return false
			}
			call, ok := x.(*ast.CallExpr)
			if !ok {
				return true
			}
			if tv, ok := info.Types[call.Fun]; ok && tv.IsType() {
				return true // conversion
			}
			if id, ok := call.Fun.(*ast.Ident); ok {
				if _, ok := info.Uses[id].(*types.Builtin); ok {
					switch id.Name {
					case "len", "cap", "make", "new", "append", "string", "min", "max":
						return true
					}
				}
			}
			if se, ok := call.Fun.(*ast.SelectorExpr); ok && len(call.Args) == 0 && (se.Sel.Name == "String" || se.Sel.Name == "Error") {
				return true // formatting an element: same text whichever element comes first
			}
			if cal := calleeFunc(call, info); cal != nil && cal.Pkg() != nil {
				if pureCallPkgs[cal.Pkg().Path()] || pureCallPkgs[cal.Pkg().Path()+"."+cal.Name()] {
					return true
				}
			}
			if cal := calleeFunc(call, info); cal != nil && pureModuleFunc(c, cal, 2) {
				return true // a helper of the module that only computes a value from its arguments
			}
			why = "calls " + exprKey(call.Fun) + ", which may raise, write or consume shared state: which element it runs on first depends on map order"
			return false
		})
		return why
	}
	collected := map[types.Object]bool{}
	var check func(list []ast.Stmt) string
	check = func(list []ast.Stmt) string {
		for _, s := range list {
			switch s := s.(type) {
			case *ast.AssignStmt:
				for _, r := range s.Rhs {
					if w := impure(r); w != "" {
						return w
					}
				}
				for i, l := range s.Lhs {
					switch lh := ast.Unparen(l).(type) {
					case *ast.IndexExpr:
						tv := info.Types[lh.X]
						if _, isMap := tv.Type.Underlying().(*types.Map); isMap {
							if !isRangeKey(lh.Index) {
								return "stores into " + exprKey(lh.X) + " under a key (" + exprKey(lh.Index) + ") that is not the range key itself: when two elements produce the same key, the later visit wins"
							}
							continue
						}
						// slice filled through a counter: items[i] = ...; i++  -- a collected slice, to be sorted before use
						if id, ok := ast.Unparen(lh.X).(*ast.Ident); ok {
							if o := info.Uses[id]; o != nil && !declaredWithin(o, mr.rs.Body) {
								collected[o] = true
								continue
							}
						}
						return "stores into " + exprKey(lh.X) + "[" + exprKey(lh.Index) + "]: the position of each element follows map order"
					case *ast.Ident:
						o := info.Uses[lh]
						if o == nil {
							o = info.Defs[lh]
						}
						if s.Tok == token.DEFINE || (o != nil && declaredWithin(o, mr.rs.Body)) {
							continue // loop-local
						}
						// x = append(x, ...) : collected, must be sorted afterwards
						if i < len(s.Rhs) {
							if call, ok := ast.Unparen(s.Rhs[i]).(*ast.CallExpr); ok {
								if id, ok := call.Fun.(*ast.Ident); ok && id.Name == "append" && len(call.Args) >= 1 && exprKey(call.Args[0]) == lh.Name {
									collected[o] = true
									continue
								}
							}
						}
						switch s.Tok {
						case token.ADD_ASSIGN, token.OR_ASSIGN, token.AND_ASSIGN, token.XOR_ASSIGN, token.MUL_ASSIGN:
							if b, ok := o.Type().Underlying().(*types.Basic); ok && b.Info()&types.IsString == 0 {
								continue // commutative accumulation into a number
							}
							return "concatenates onto " + lh.Name + ": the text follows map order"
						}
						if !mentionsRangeVar(s.Rhs[min(i, len(s.Rhs)-1)]) {
							continue // flag set to a value independent of the element
						}
						return "assigns " + lh.Name + " from the current element: the last one visited wins"
					case *ast.SelectorExpr:
						// per-element update: field of the element itself (distinct objects)
						if isRangeVar(lh.X) {
							continue
						}
						return "assigns " + exprKey(lh) + " in the loop: the last element visited wins"
					default:
						return "writes " + exprKey(l) + " in the loop"
					}
				}
			case *ast.IncDecStmt:
				continue
			case *ast.ExprStmt:
				call, ok := s.X.(*ast.CallExpr)
				if ok {
					if id, ok := call.Fun.(*ast.Ident); ok && id.Name == "delete" {
						continue
					}
				}
				if w := impure(s.X); w != "" {
					return w
				}
			case *ast.IfStmt:
				if s.Init != nil {
					if w := check([]ast.Stmt{s.Init}); w != "" {
						return w
					}
				}
				if w := impure(s.Cond); w != "" {
					return w
				}
				if w := check(s.Body.List); w != "" {
					return w
				}
				if s.Else != nil {
					if w := check([]ast.Stmt{s.Else}); w != "" {
						return w
					}
				}
			case *ast.BlockStmt:
				if w := check(s.List); w != "" {
					return w
				}
			case *ast.SwitchStmt:
				if s.Tag != nil {
					if w := impure(s.Tag); w != "" {
						return w
					}
				}
				for _, cs := range s.Body.List {
					if w := check(cs.(*ast.CaseClause).Body); w != "" {
						return w
					}
				}
			case *ast.TypeSwitchStmt:
				for _, cs := range s.Body.List {
					if w := check(cs.(*ast.CaseClause).Body); w != "" {
						return w
					}
				}
			case *ast.BranchStmt:
				if s.Tok == token.CONTINUE {
					continue
				}
				return "leaves the loop early (" + s.Tok.String() + "): which elements were visited before depends on map order"
			case *ast.ReturnStmt:
				for _, r := range s.Results {
					if mentionsRangeVar(r) {
						return "returns the current element from inside the loop: with several candidates the one found first depends on map order"
					}
					if w := impure(r); w != "" {
						return "returns from inside the loop with a computed value (" + w + ")"
					}
				}
				continue // returns a value independent of the element (existence test)
			case *ast.DeclStmt:
				continue
			case *ast.ForStmt, *ast.RangeStmt:
				var body *ast.BlockStmt
				if f, ok := s.(*ast.ForStmt); ok {
					body = f.Body
				} else {
					body = s.(*ast.RangeStmt).Body
				}
				if w := check(body.List); w != "" {
					return w
				}
			default:
				return fmt.Sprintf("contains a %T the rule does not classify", s)
			}
		}
		return ""
	}
	if w := check(mr.rs.Body.List); w != "" {
		return w, ""
	}
	// collected slices must be sorted before any other use
	for o := range collected {
		sorted := false
		for _, s := range mr.list {
			uses := false
			ast.Inspect(s, func(x ast.Node) bool {
				if id, ok := x.(*ast.Ident); ok && info.Uses[id] == o {
					uses = true
				}
				return true
			})
			if !uses {
				continue
			}
			if es, ok := s.(*ast.ExprStmt); ok {
				if call, ok := es.X.(*ast.CallExpr); ok {
					if cal := calleeFunc(call, info); cal != nil && cal.Pkg() != nil && (cal.Pkg().Path() == "sort" || cal.Pkg().Path() == "slices") && len(call.Args) > 0 {
						if id, ok := ast.Unparen(call.Args[0]).(*ast.Ident); ok && info.Uses[id] == o && totalOrderSort(call, cal, info) {
							sorted = true
						}
					}
				}
			}
			break // first use decides
		}
		if !sorted {
			return "collects the elements into " + o.Name() + " in map order and uses it without sorting first", ""
		}
	}
	if len(collected) > 0 {
		return "", "collects into a slice that is sorted before its first use"
	}
	return "", "body only stores under the range key, updates the element itself, counts, or tests existence"
}

func declaredWithin(o types.Object, n ast.Node) bool {
	return o.Pos() >= n.Pos() && o.Pos() <= n.End()
}

// mapRangeExceptions: loops that are order-insensitive for a reason the shape rule cannot see.
var mapRangeExceptions = map[string]string{
	"soymsg.setPlaceholderNames#range(nameToRepNodes)":     "step 3: stores the name under the representative node; nameToRepNodes holds each node under exactly one name (step 2 inserts a node once), so keys never collide",
	"soymsg.setPlaceholderNames#range(nodeToName)":         "step 4: assigns each node's own field (the nodes are distinct map keys); the default arm is an unreachable internal check, since phNodes yields only the two node kinds handled",
	"soyjs.state.nodeFromValue#range(val)":                 "stores under the range key; the only raise in the callee (undefined value) has a constant message and cannot occur for global values, which are evaluated literals",
	"parse.itemType.String#range(builtinIdents)":           "returns the first spelling found: only itemBool has two spellings (true/false) and String() is reached only from expect(), whose callers pass constant kinds none of which is itemBool, so no output depends on it",
	"parse.itemType.String#range(arithmeticItemsBySymbol)": "second table of the same lookup: every kind has one spelling in it",
}

// runMapOrder applies K6 to the declared functions reachable from the entries.
func runMapOrder(c *Ctx, rule string, entries []*ssa.Function, extraDecl func(rel string, fd *ast.FuncDecl) bool) (nfuncs, nloops int) {
	reach := reachFrom(c.VTA(), entries, false)
	type dk struct {
		rel string
		fd  *ast.FuncDecl
	}
	seen := map[*ast.FuncDecl]bool{}
	var decls []dk
	for f := range reach {
		if !isSoyFunc(f) {
			continue
		}
		g := f
		for g.Parent() != nil {
			g = g.Parent()
		}
		rel, fd := c.declOfSSA(g)
		if fd != nil && !seen[fd] {
			seen[fd] = true
			decls = append(decls, dk{rel, fd})
		}
	}
	if extraDecl != nil {
		for rel := range c.Pkgs {
			for _, fd := range c.allFuncDecls(rel) {
				if !seen[fd] && extraDecl(rel, fd) {
					seen[fd] = true
					decls = append(decls, dk{rel, fd})
				}
			}
		}
	}
	sort.Slice(decls, func(i, j int) bool {
		return c.declKey(decls[i].rel, decls[i].fd) < c.declKey(decls[j].rel, decls[j].fd)
	})
	for _, d := range decls {
		nfuncs++
		c.seen(c.declKey(d.rel, d.fd))
		dup := map[string]int{}
		for _, mr := range mapRangesOf(c, d.rel, d.fd) {
			nloops++
			// keyed by the map being ranged (not by ordinal), so that adding a loop does not rename the others
			key := fmt.Sprintf("%s#range(%s)", c.declKey(d.rel, d.fd), exprKey(mr.rs.X))
			dup[key]++
			if dup[key] > 1 {
				key += fmt.Sprintf("#%d", dup[key])
			}
			why, how := classifyMapRange(c, mr)
			switch {
			case why == "":
				c.ok(rule, key, mr.rs.Pos(), "order-insensitive: "+how)
			case mapRangeExceptions[key] != "":
				c.ok(rule, key, mr.rs.Pos(), "named exception: "+mapRangeExceptions[key])
			default:
				c.bad(rule, key, mr.rs.Pos(), "range over map "+exprKey(mr.rs.X)+" "+why+"; Go randomises map iteration, so the result differs between runs")
			}
		}
	}
	return
}

var _ = strings.Contains

// totalOrderSort: the sort leaves no ties in map order. sort.Strings/Ints/Float64s and slices.Sort
// compare whole elements; sort.Slice & co. must compare the elements themselves with < or > (a less
// function on a transformed key, e.g. strings.ToLower, ties distinct elements and keeps their map order).
func totalOrderSort(call *ast.CallExpr, cal *types.Func, info *types.Info) bool {
	switch cal.Name() {
	case "Strings", "Ints", "Float64s", "Sort":
		if cal.Pkg().Path() == "slices" || cal.Name() != "Sort" {
			return true
		}
		return false // sort.Sort with a user Less: not examined
	case "Slice", "SliceStable":
		if len(call.Args) != 2 {
			return false
		}
		fl, ok := ast.Unparen(call.Args[1]).(*ast.FuncLit)
		if !ok || len(fl.Body.List) != 1 {
			return false
		}
		ret, ok := fl.Body.List[0].(*ast.ReturnStmt)
		if !ok || len(ret.Results) != 1 {
			return false
		}
		be, ok := ast.Unparen(ret.Results[0]).(*ast.BinaryExpr)
		if !ok || (be.Op != token.LSS && be.Op != token.GTR) {
			return false
		}
		slice := exprKey(call.Args[0])
		isElem := func(e ast.Expr) bool {
			ix, ok := ast.Unparen(e).(*ast.IndexExpr)
			return ok && exprKey(ix.X) == slice
		}
		return isElem(be.X) && isElem(be.Y)
	}
	return false
}

// pureModuleFunc: fn is a function of the module whose body only computes a value from its arguments: no
// store outside its own locals, no send, go or defer, and no call other than conversions, a few builtins,
// String()/Error(), the pure library packages, or (to the given depth) other such functions.
func pureModuleFunc(c *Ctx, fn *types.Func, depth int) bool {
	if fn == nil || fn.Pkg() == nil || depth < 0 {
		return false
	}
	rel, ok := relOf(fn.Pkg())
	if !ok {
		return false
	}
	p := c.Pkgs[rel]
	if p == nil {
		return false
	}
	info := p.TypesInfo
	var fd *ast.FuncDecl
	for _, d := range c.allFuncDecls(rel) {
		if info.Defs[d.Name] == types.Object(fn) {
			fd = d
		}
	}
	if fd == nil {
		return false
	}
	pure := true
	local := func(e ast.Expr) bool {
		id := rootIdent(e)
		if id == nil {
			return false
		}
		o := info.Uses[id]
		if o == nil {
			o = info.Defs[id]
		}
		if o == nil {
			return id.Name == "_"
		}
		if _, isIdent := ast.Unparen(e).(*ast.Ident); !isIdent {
			return false // a store through a local (field, element) may reach shared memory
		}
		return o.Pos() >= fd.Pos() && o.Pos() <= fd.End()
	}
	ast.Inspect(fd.Body, func(x ast.Node) bool {
		if !pure {
			return false
		}
		switch n := x.(type) {
		case *ast.GoStmt, *ast.DeferStmt, *ast.SendStmt, *ast.FuncLit:
			pure = false
		case *ast.AssignStmt:
			for _, l := range n.Lhs {
				if !local(l) {
					pure = false
				}
			}
		case *ast.IncDecStmt:
			if !local(n.X) {
				pure = false
			}
		case *ast.CallExpr:
			if tv, ok := info.Types[n.Fun]; ok && tv.IsType() {
				return true
			}
			if id, ok := n.Fun.(*ast.Ident); ok {
				if _, ok := info.Uses[id].(*types.Builtin); ok {
					switch id.Name {
					case "len", "cap", "make", "new", "append", "string", "min", "max":
						return true
					}
					pure = false
					return false
				}
			}
			if se, ok := n.Fun.(*ast.SelectorExpr); ok && len(n.Args) == 0 && (se.Sel.Name == "String" || se.Sel.Name == "Error") {
				return true
			}
			cal := calleeFunc(n, info)
			if cal != nil && cal.Pkg() != nil && (pureCallPkgs[cal.Pkg().Path()] || pureCallPkgs[cal.Pkg().Path()+"."+cal.Name()]) {
				return true
			}
			if cal != nil && cal != fn && pureModuleFunc(c, cal, depth-1) {
				return true
			}
			pure = false
		}
		return pure
	})
	return pure
}
