package main

import (
	"fmt"
	"go/ast"
	"go/constant"
	"go/token"
	"go/types"
	"strings"
)

// internalPanics: bare panic messages that mark unreachable code after a raising call.
var internalPanics = map[string]bool{"unreachable": true, "unimplemented": true, "": true, "impossible": true, "unexpected": true}

// positionedRaiser finds the parse function that builds the positioned error:
// it calls errortypes.NewErrFilePosf inside panic(...).
func positionedRaiser(c *Ctx) (*ast.FuncDecl, *ast.CallExpr) {
	p := c.pkg("parse")
	if p == nil {
		return nil, nil
	}
	for _, fd := range c.allFuncDecls("parse") {
		var found *ast.CallExpr
		ast.Inspect(fd.Body, func(x ast.Node) bool {
			if call, ok := x.(*ast.CallExpr); ok {
				if cal := calleeFunc(call, p.TypesInfo); cal != nil && cal.Name() == "NewErrFilePosf" && cal.Pkg() != nil && strings.HasSuffix(cal.Pkg().Path(), "/errortypes") {
					found = call
				}
			}
			return true
		})
		if found != nil {
			return fd, found
		}
	}
	c.fatalf("anchor: no function of parse calls errortypes.NewErrFilePosf")
	return nil, nil
}

func ruleR19a(c *Ctx) {
	p := c.pkg("parse")
	if p == nil {
		return
	}
	info := p.TypesInfo
	treeObj := p.Types.Scope().Lookup("tree")
	if treeObj == nil {
		c.fatalf("anchor: parse.tree not found")
		return
	}
	raiser, ctor := positionedRaiser(c)
	if raiser == nil {
		return
	}
	raiserFn := info.Defs[raiser.Name].(*types.Func)
	// (1) every tree literal carries the input's name
	nlit := 0
	for _, fd := range c.allFuncDecls("parse") {
		ord := 0
		ast.Inspect(fd.Body, func(x ast.Node) bool {
			cl, ok := x.(*ast.CompositeLit)
			if !ok {
				return true
			}
			tv, ok := info.Types[cl]
			if !ok || !types.Identical(tv.Type, treeObj.Type()) {
				return true
			}
			ord++
			nlit++
			key := fmt.Sprintf("%s tree-literal#%d", c.declKey("parse", fd), ord)
			var nameVal ast.Expr
			for _, el := range cl.Elts {
				if kv, ok := el.(*ast.KeyValueExpr); ok {
					if id, ok := kv.Key.(*ast.Ident); ok && id.Name == "name" {
						nameVal = kv.Value
					}
				}
			}
			switch {
			case nameVal != nil:
				if tvv, ok := info.Types[nameVal]; ok && tvv.Value != nil {
					c.bad("R19a", key, cl.Pos(), "the parser's file name is a constant, not the name given for the input")
				} else {
					c.ok("R19a", key, cl.Pos(), "the parser is given the input's name ("+exprKey(nameVal)+"), which every positioned error carries")
				}
			case fd.Recv == nil && fd.Name.IsExported() && !hasParamNamed(fd, "name"):
				c.okTrivial("R19a", key, cl.Pos(), "standalone expression API: no file name is given for the input")
			default:
				c.bad("R19a", key, cl.Pos(), "a parser is created without the input's file name: its errors carry file \"\"")
			}
			return true
		})
	}
	c.floor("R19a", "parser (tree) literals", 3, nlit)
	// (2) user-caused failures are raised through the positioned constructor only
	handlers := recoverHandlers(c, "parse")
	for fn := range deferredRecoverFuncs(c, "parse") {
		handlers[fn] = true // what a handler re-raises is R19g's business
	}
	npanic := 0
	for _, fd := range c.allFuncDecls("parse") {
		fn := info.Defs[fd.Name].(*types.Func)
		if handlers[fn] || fn == raiserFn {
			continue
		}
		ord := 0
		inRecover := map[*ast.CallExpr]bool{}
		ast.Inspect(fd.Body, func(x ast.Node) bool {
			// panics inside a deferred recover literal re-raise runtime errors
			if d, ok := x.(*ast.DeferStmt); ok {
				ast.Inspect(d, func(y ast.Node) bool {
					if call, ok := y.(*ast.CallExpr); ok {
						inRecover[call] = true
					}
					return true
				})
			}
			return true
		})
		ast.Inspect(fd.Body, func(x ast.Node) bool {
			call, ok := x.(*ast.CallExpr)
			if !ok || inRecover[call] {
				return true
			}
			id, ok := call.Fun.(*ast.Ident)
			if !ok || id.Name != "panic" {
				return true
			}
			if _, ok := info.Uses[id].(*types.Builtin); !ok {
				return true
			}
			ord++
			npanic++
			key := fmt.Sprintf("%s panic#%d", c.declKey("parse", fd), ord)
			msg, isConst := "", false
			if tv, ok := info.Types[call.Args[0]]; ok && tv.Value != nil && tv.Value.Kind() == constant.String {
				msg, isConst = constant.StringVal(tv.Value), true
			}
			if isConst && internalPanics[msg] {
				c.okTrivial("R19a", key, call.Pos(), "internal marker after a raising call (\""+msg+"\"), not a user-facing error")
			} else {
				c.bad("R19a", key, call.Pos(), "a parse failure is raised with a bare panic: the error carries neither file nor line")
			}
			return true
		})
	}
	c.floor("R19a", "bare panics classified", 5, npanic)
	// (3) one source for message prefix and structured fields; file = the tree's name
	key := c.declKey("parse", raiser) + "#one-position-source"
	var sprintf *ast.CallExpr
	ast.Inspect(raiser.Body, func(x ast.Node) bool {
		if call, ok := x.(*ast.CallExpr); ok {
			if cal := calleeFunc(call, info); cal != nil && cal.Name() == "Sprintf" && len(call.Args) >= 4 {
				sprintf = call
			}
		}
		return true
	})
	switch {
	case len(ctor.Args) < 4:
		c.unk("R19a", key, ctor.Pos(), "NewErrFilePosf call shape not recognised")
	case sprintf == nil && len(ctor.Args) >= 7:
		// the constructor's own (constant) format carries the prefix: NewErrFilePosf(file, line, col, "template %s:%d:%d: %s", file, line, col, msg)
		ftv := info.Types[ctor.Args[3]]
		constFmt := ftv.Value != nil && ftv.Value.Kind() == constant.String && strings.Contains(constant.StringVal(ftv.Value), "%s:%d:%d")
		same := exprKey(ctor.Args[4]) == exprKey(ctor.Args[0]) && exprKey(ctor.Args[5]) == exprKey(ctor.Args[1]) && exprKey(ctor.Args[6]) == exprKey(ctor.Args[2])
		fileOK := strings.HasSuffix(exprKey(ctor.Args[0]), ".name")
		c.check(constFmt && same && fileOK, "R19a", key, ctor.Pos(),
			"file, line and column in the message prefix are the very expressions passed as the error's File/Line/Col; the file is the parser's name",
			fmt.Sprintf("message prefix (%s,%s,%s) and structured fields (%s,%s,%s) come from different expressions, or the file is not the parser's name", exprKey(ctor.Args[4]), exprKey(ctor.Args[5]), exprKey(ctor.Args[6]), exprKey(ctor.Args[0]), exprKey(ctor.Args[1]), exprKey(ctor.Args[2])))
	case sprintf == nil:
		c.bad("R19a", key, ctor.Pos(), "the message text is not prefixed with file:line:col from the same values as the structured fields")
	default:
		same := exprKey(sprintf.Args[1]) == exprKey(ctor.Args[0]) && exprKey(sprintf.Args[2]) == exprKey(ctor.Args[1]) && exprKey(sprintf.Args[3]) == exprKey(ctor.Args[2])
		fileOK := strings.HasSuffix(exprKey(ctor.Args[0]), ".name")
		c.check(same && fileOK, "R19a", key, ctor.Pos(),
			"file, line and column in the message prefix are the very expressions passed as the error's File/Line/Col; the file is the parser's name",
			fmt.Sprintf("message prefix (%s,%s,%s) and structured fields (%s,%s,%s) come from different expressions, or the file is not the parser's name", exprKey(sprintf.Args[1]), exprKey(sprintf.Args[2]), exprKey(sprintf.Args[3]), exprKey(ctor.Args[0]), exprKey(ctor.Args[1]), exprKey(ctor.Args[2])))
	}
	// line and column are computed from one position value
	lineSrc, colSrc := positionSources(raiser, info, ctor)
	c.check(lineSrc != "" && lineSrc == colSrc, "R19a", c.declKey("parse", raiser)+"#line-col-same-offset", ctor.Pos(),
		"line and column are both computed from "+lineSrc, "line ("+lineSrc+") and column ("+colSrc+") are computed from different offsets")
}

func hasParamNamed(fd *ast.FuncDecl, name string) bool {
	for _, f := range fd.Type.Params.List {
		for _, n := range f.Names {
			if n.Name == name {
				return true
			}
		}
	}
	return false
}

// positionSources resolves the argument expressions of the line/col computations feeding the constructor.
func positionSources(fd *ast.FuncDecl, info *types.Info, ctor *ast.CallExpr) (string, string) {
	resolve := func(e ast.Expr) string {
		e = ast.Unparen(e)
		if id, ok := e.(*ast.Ident); ok {
			// find its defining call in the function
			var def ast.Expr
			ast.Inspect(fd.Body, func(x ast.Node) bool {
				switch s := x.(type) {
				case *ast.AssignStmt:
					for i, l := range s.Lhs {
						if li, ok := l.(*ast.Ident); ok && (info.Defs[li] == info.Uses[id] && info.Defs[li] != nil) && i < len(s.Rhs) {
							def = s.Rhs[i]
						}
					}
				case *ast.ValueSpec:
					for i, n := range s.Names {
						if info.Defs[n] == info.Uses[id] && i < len(s.Values) {
							def = s.Values[i]
						}
					}
				}
				return true
			})
			if def != nil {
				e = def
			}
		}
		if call, ok := e.(*ast.CallExpr); ok && len(call.Args) == 1 {
			return exprKey(call.Args[0])
		}
		return ""
	}
	if len(ctor.Args) < 3 {
		return "", ""
	}
	return resolve(ctor.Args[1]), resolve(ctor.Args[2])
}

// R19b: complaints about a given token are positioned at that token.
func ruleR19b(c *Ctx) {
	p := c.pkg("parse")
	if p == nil {
		return
	}
	info := p.TypesInfo
	raiser, _ := positionedRaiser(c)
	un := c.mustFunc("parse", "tree.unexpected")
	ex := c.mustFunc("parse", "tree.expect")
	if raiser == nil || un == nil || ex == nil {
		return
	}
	raiserFn := info.Defs[raiser.Name].(*types.Func)
	unFn := info.Defs[un.Name].(*types.Func)
	// the raiser must take the position as a parameter
	posParam := -1
	i := 0
	for _, f := range raiser.Type.Params.List {
		for range f.Names {
			if tv, ok := info.Types[f.Type]; ok {
				if _, tn, ok := relPkgOfType(tv.Type); ok && tn == "Pos" && posParam < 0 {
					posParam = i
				}
			}
			i++
		}
	}
	// token parameter of unexpected
	var tokObj types.Object
	for _, f := range un.Type.Params.List {
		for _, n := range f.Names {
			if nt := namedOf(info.Defs[n].Type()); nt != nil && nt.Obj().Name() == "item" {
				tokObj = info.Defs[n]
			}
		}
	}
	if tokObj == nil {
		c.fatalf("anchor: unexpected() has no token parameter")
		return
	}
	nr := newNoRet(c)
	raises, good := 0, 0
	var badDetail string
	ast.Inspect(un.Body, func(x ast.Node) bool {
		call, ok := x.(*ast.CallExpr)
		if !ok || !nr.callNoReturn(call, info) {
			return true
		}
		raises++
		cal := calleeFunc(call, info)
		if cal == raiserFn && posParam >= 0 && posParam < len(call.Args) {
			if se, ok := ast.Unparen(call.Args[posParam]).(*ast.SelectorExpr); ok {
				if id, ok := se.X.(*ast.Ident); ok && info.Uses[id] == tokObj && se.Sel.Name == "pos" {
					good++
					return true
				}
			}
			badDetail = "position argument is " + exprKey(call.Args[posParam]) + ", not the token's"
			return true
		}
		badDetail = "raises through " + exprKey(call.Fun) + ", which positions the error at the parser's current look-ahead token, not at the token being complained about"
		return true
	})
	c.seen("parse.tree.unexpected")
	c.check(raises > 0 && good == raises, "R19b", "parse.tree.unexpected#position-from-token", un.Pos(),
		fmt.Sprintf("all %d raises are positioned at the offending token's own offset", raises),
		"unexpected(token, ...) "+badDetail+": after a backup or a closed stream the reported line is wrong")
	// expect complains about the token it just read
	okExpect := false
	var readVar types.Object
	ast.Inspect(ex.Body, func(x ast.Node) bool {
		if as, ok := x.(*ast.AssignStmt); ok && len(as.Lhs) == 1 && len(as.Rhs) == 1 {
			if _, ok := as.Rhs[0].(*ast.CallExpr); ok {
				if id, ok := as.Lhs[0].(*ast.Ident); ok {
					readVar = info.Defs[id]
				}
			}
		}
		if call, ok := x.(*ast.CallExpr); ok && calleeFunc(call, info) == unFn && len(call.Args) > 0 {
			if id, ok := ast.Unparen(call.Args[0]).(*ast.Ident); ok && readVar != nil && info.Uses[id] == readVar {
				okExpect = true
			}
		}
		return true
	})
	c.check(okExpect, "R19b", "parse.tree.expect#complains-about-read-token", ex.Pos(), "expect passes the token it read to unexpected", "expect does not pass the token it read to unexpected")
}

// R19c: render errors are positioned by the entry state's template and current node.
func ruleR19c(c *Ctx) {
	p := c.pkg("soyhtml")
	if p == nil {
		return
	}
	info := p.TypesInfo
	efn := c.mustFunc("soyhtml", "state.errFromNode")
	rec := c.mustFunc("soyhtml", "state.errRecover")
	call := c.mustFunc("soyhtml", "state.evalCall")
	if efn == nil || rec == nil || call == nil {
		return
	}
	// errFromNode: Filename/LineNumber/ColNumber get the same template name; line/col the same node
	var nameArgs, nodeArgs []string
	nodeIsMark := true
	markFld := currentNodeField(c)
	ast.Inspect(efn.Body, func(x ast.Node) bool {
		if ce, ok := x.(*ast.CallExpr); ok {
			if cal := calleeFunc(ce, info); cal != nil && cal.Pkg() != nil && strings.HasSuffix(cal.Pkg().Path(), "/template") {
				switch cal.Name() {
				case "Filename", "LineNumber", "ColNumber":
					nameArgs = append(nameArgs, exprKey(ce.Args[0]))
					if len(ce.Args) > 1 {
						nodeArgs = append(nodeArgs, exprKey(ce.Args[1]))
						if markFld == nil || fieldOf(ce.Args[1], info) != markFld {
							nodeIsMark = false
						}
					}
				}
			}
		}
		return true
	})
	same := func(s []string) bool {
		for _, x := range s {
			if x != s[0] {
				return false
			}
		}
		return len(s) > 0
	}
	c.check(len(nameArgs) == 3 && same(nameArgs) && len(nodeArgs) == 2 && same(nodeArgs) && nodeIsMark, "R19c", "soyhtml.state.errFromNode#one-template-one-node", efn.Pos(),
		"file, line and column are looked up with one template name and the state's current node",
		fmt.Sprintf("file/line/column are looked up with different names %v or nodes %v", nameArgs, nodeArgs))
	// errRecover: every assignment through errp is built by errFromNode
	efnObj := info.Defs[efn.Name]
	n, okN := 0, 0
	ast.Inspect(rec.Body, func(x ast.Node) bool {
		if as, ok := x.(*ast.AssignStmt); ok && len(as.Lhs) == 1 {
			if _, ok := as.Lhs[0].(*ast.StarExpr); ok {
				n++
				if ce, ok := as.Rhs[0].(*ast.CallExpr); ok && calleeFunc(ce, info) == efnObj {
					okN++
				}
			}
		}
		return true
	})
	c.check(n > 0 && n == okN, "R19c", "soyhtml.state.errRecover#positioned-errors", rec.Pos(),
		fmt.Sprintf("all %d error assignments are positioned errors built from the entry state", n),
		"a recovered failure is turned into an error without file and line")
	// evalCall re-raises a callee's failure into the caller (so the outermost command is reported)
	reraises := false
	ast.Inspect(call.Body, func(x ast.Node) bool {
		if d, ok := x.(*ast.DeferStmt); ok {
			hasRecover, hasPanic := false, false
			ast.Inspect(d, func(y ast.Node) bool {
				if ce, ok := y.(*ast.CallExpr); ok {
					if id, ok := ce.Fun.(*ast.Ident); ok {
						if id.Name == "recover" {
							hasRecover = true
						}
						if id.Name == "panic" {
							hasPanic = true
						}
					}
				}
				return true
			})
			if hasRecover && hasPanic {
				reraises = true
			}
		}
		return true
	})
	// without any deferred recover the panic propagates unchanged, which is equally fine
	swallow := false
	ast.Inspect(call.Body, func(x ast.Node) bool {
		if d, ok := x.(*ast.DeferStmt); ok {
			hasRecover, hasPanic := false, false
			ast.Inspect(d, func(y ast.Node) bool {
				if ce, ok := y.(*ast.CallExpr); ok {
					if id, ok := ce.Fun.(*ast.Ident); ok {
						hasRecover = hasRecover || id.Name == "recover"
						hasPanic = hasPanic || id.Name == "panic" || strings.HasSuffix(exprKey(ce.Fun), "errorf")
					}
				}
				return true
			})
			if hasRecover && !hasPanic {
				swallow = true
			}
		}
		return true
	})
	c.check(!swallow, "R19c", "soyhtml.state.evalCall#callee-failure-propagates", call.Pos(),
		fmt.Sprintf("a failure inside a called template reaches the caller's state (re-raised=%v), so the entry template's current command is reported", reraises),
		"evalCall recovers a callee's failure without re-raising it: the render continues and no error is positioned")
}

// R19d: a nested parse must place its nodes at file offsets.
func ruleR19d(c *Ctx) {
	p := c.pkg("parse")
	if p == nil {
		return
	}
	info := p.TypesInfo
	ll := getLexLife(c)
	if ll == nil {
		return
	}
	n := 0
	for _, fd := range c.allFuncDecls("parse") {
		if fd.Recv == nil {
			continue
		}
		ast.Inspect(fd.Body, func(x ast.Node) bool {
			call, ok := x.(*ast.CallExpr)
			if !ok {
				return true
			}
			cal := calleeFunc(call, info)
			if cal == nil || !ll.acquire[cal] {
				return true
			}
			n++
			key := c.declKey("parse", fd) + "#sub-parse-position-base"
			// a base offset: any argument of position type, or an input that is the outer text
			hasBase := false
			for _, a := range call.Args {
				if tv, ok := info.Types[a]; ok {
					if _, tn, ok := relPkgOfType(tv.Type); ok && tn == "Pos" {
						hasBase = true
					}
				}
				if strings.HasSuffix(exprKey(a), ".text") {
					hasBase = true
				}
			}
			c.check(hasBase, "R19d", key, call.Pos(), "the nested scanner is told where its text lies in the file",
				"the nested scanner numbers its tokens from 0: nodes parsed from a quoted attribute carry offsets relative to the attribute, so a render error inside it is reported on the wrong line")
			return true
		})
	}
	c.floor("R19d", "nested parses", 1, n)
}

// R19e: a helper that walks a subtree on the same state for a command and hands a value back
// (eval, renderBlock) leaves the current-node mark where it found it, so that a failure after it -
// e.g. in the template a {call} goes on to invoke - is reported at the command, not inside an operand.
func ruleR19e(c *Ctx) {
	p := c.pkg("soyhtml")
	if p == nil {
		return
	}
	info := p.TypesInfo
	stObj := p.Types.Scope().Lookup("state")
	wfd := c.mustFunc("soyhtml", "state.walk")
	if stObj == nil || wfd == nil {
		return
	}
	nodeFld := currentNodeField(c)
	if nodeFld == nil {
		c.fatalf("anchor: the current-node field of soyhtml.state (its one field of type ast.Node) not found")
		return
	}
	// the setter of the mark, if the walker uses one: a method of state whose whole body assigns the field
	var atfd *ast.FuncDecl
	for _, d := range c.allFuncDecls("soyhtml") {
		if d.Recv != nil && len(d.Body.List) == 1 {
			if as, ok := d.Body.List[0].(*ast.AssignStmt); ok && len(as.Lhs) == 1 && fieldOfExpr(as.Lhs[0], info) == nodeFld {
				atfd = d
			}
		}
	}
	walkFn := info.Defs[wfd.Name]
	var atFn types.Object
	if atfd != nil {
		atFn = info.Defs[atfd.Name]
	}
	nr := newNoRet(c)
	n := 0
	for _, fd := range c.allFuncDecls("soyhtml") {
		if fd == wfd || fd == atfd || fd.Recv == nil || recvTypeName(fd.Recv.List[0].Type) != "state" {
			continue
		}
		if fd.Type.Results == nil || fd.Type.Results.NumFields() == 0 {
			continue // commands themselves; only value-returning helpers are operands of a command
		}
		var recvObj types.Object
		if len(fd.Recv.List[0].Names) == 1 {
			recvObj = info.Defs[fd.Recv.List[0].Names[0]]
		}
		marks := false
		ast.Inspect(fd.Body, func(x ast.Node) bool {
			if call, ok := x.(*ast.CallExpr); ok {
				if cal := calleeFunc(call, info); (types.Object(cal) == walkFn || (atFn != nil && types.Object(cal) == atFn)) && recvIdentObj(call, info) == recvObj {
					marks = true
				}
			}
			return true
		})
		if !marks {
			continue
		}
		n++
		const dirty = 1
		bad := false
		var badPos token.Pos
		res := runFlow(fd.Body, nr.forInfo(info), flowState{}, func(nd ast.Node, stt flowState, report bool) flowState {
			// restoration: s.node = <something>
			if as, ok := nd.(*ast.AssignStmt); ok {
				for _, l := range as.Lhs {
					if fieldOfExpr(l, info) == nodeFld {
						stt["m"] = 0
						return stt
					}
				}
			}
			ast.Inspect(nd, func(x ast.Node) bool {
				if call, ok := x.(*ast.CallExpr); ok {
					if cal := calleeFunc(call, info); (types.Object(cal) == walkFn || (atFn != nil && types.Object(cal) == atFn)) && recvIdentObj(call, info) == recvObj {
						stt["m"] = dirty
					}
				}
				return true
			})
			return stt
		})
		for _, b := range res.exitBlocks() {
			if blockEndsInNoReturn(b, nr.forInfo(info)) {
				continue
			}
			if res.out[b]["m"]&dirty != 0 {
				bad = true
				if len(b.Nodes) > 0 {
					badPos = b.Nodes[len(b.Nodes)-1].Pos()
				}
			}
		}
		key := c.declKey("soyhtml", fd) + "#restores-node-mark"
		c.seen(c.declKey("soyhtml", fd))
		if bad {
			c.bad("R19e", key, badPos, "a path returns with the current-node mark left inside the subtree it walked: a later failure of the same command (for instance inside the template a {call} invokes after its params were evaluated) is reported at the operand's line instead of the command's")
		} else {
			c.ok("R19e", key, fd.Pos(), "every returning path puts the current-node mark back after walking the operand")
		}
	}
	c.floor("R19e", "value-returning helpers that walk on the same state", 2, n)
}

// R19f: the scanner's error item carries the current scan position, unconditionally.
func ruleR19f(c *Ctx) {
	pf := getParseFacts(c)
	if pf == nil {
		return
	}
	n := 0
	for fn, fd := range pf.funcs {
		_ = fn
		if fd.Recv == nil {
			continue
		}
		// the error emitter: contains a send of an item literal whose kind is itemError
		var sends []*ast.SendStmt
		ast.Inspect(fd.Body, func(x ast.Node) bool {
			if s, ok := x.(*ast.SendStmt); ok {
				if cl, ok := ast.Unparen(s.Value).(*ast.CompositeLit); ok && len(cl.Elts) >= 2 {
					if k := constObj(pf.info, cl.Elts[0]); k != nil && k.Name() == "itemError" {
						sends = append(sends, s)
					}
				}
			}
			return true
		})
		if len(sends) == 0 {
			continue
		}
		n++
		key := c.declKey("parse", fd) + "#error-item-position"
		ok := len(sends) == 1
		detail := ""
		if ok {
			cl := ast.Unparen(sends[0].Value).(*ast.CompositeLit)
			pos := exprKey(cl.Elts[1])
			if !strings.Contains(pos, ".pos") || strings.Contains(pos, ".start") {
				ok = false
				detail = "its position is " + pos
			}
			// unconditional: the send is a top-level statement of the function
			top := false
			for _, s := range fd.Body.List {
				if s == ast.Stmt(sends[0]) {
					top = true
				}
			}
			if !top {
				ok = false
				detail = "the position depends on a condition"
			}
		} else {
			detail = fmt.Sprintf("%d different error items are built", len(sends))
		}
		c.check(ok, "R19f", key, fd.Pos(), "the error item is positioned at the current scan offset, like every other item",
			"the scanner's error item is not simply positioned at the current scan offset ("+detail+"): lexical errors are reported on the wrong line for some inputs")
	}
	c.floor("R19f", "scanner error emitters", 1, n)
}

// R19g: inside the parser's recover handlers (deferred literals and handler functions) a recovered value is
// re-panicked only as a runtime error (under an assertion to runtime.Error): anything else is a user-caused
// failure and must leave through the positioned constructor of the parser that handles it, not be passed
// on with whatever position (or none) it carried.
func ruleR19g(c *Ctx) {
	p := c.pkg("parse")
	if p == nil {
		return
	}
	info := p.TypesInfo
	handlers := recoverHandlers(c, "parse")
	for fn := range deferredRecoverFuncs(c, "parse") {
		handlers[fn] = true
	}
	n := 0
	for _, fd := range c.allFuncDecls("parse") {
		fn, _ := info.Defs[fd.Name].(*types.Func)
		var regions []ast.Node
		if fn != nil && handlers[fn] {
			regions = append(regions, fd.Body)
		}
		ast.Inspect(fd.Body, func(x ast.Node) bool {
			if d, ok := x.(*ast.DeferStmt); ok {
				if fl, ok := d.Call.Fun.(*ast.FuncLit); ok {
					callsRecover := false
					ast.Inspect(fl.Body, func(y ast.Node) bool {
						if call, ok := y.(*ast.CallExpr); ok {
							if id, ok := call.Fun.(*ast.Ident); ok && id.Name == "recover" {
								if _, isB := info.Uses[id].(*types.Builtin); isB {
									callsRecover = true
								}
							}
						}
						return true
					})
					if callsRecover {
						regions = append(regions, fl.Body)
					}
				}
			}
			return true
		})
		ord := 0
		for _, rg := range regions {
			var stack []ast.Node
			ast.Inspect(rg, func(x ast.Node) bool {
				if x == nil {
					stack = stack[:len(stack)-1]
					return true
				}
				stack = append(stack, x)
				call, ok := x.(*ast.CallExpr)
				if !ok {
					return true
				}
				id, ok := call.Fun.(*ast.Ident)
				if !ok || id.Name != "panic" {
					return true
				}
				if _, isB := info.Uses[id].(*types.Builtin); !isB {
					return true
				}
				n++
				ord++
				// innermost enclosing if: its init/cond asserts the recovered value to runtime.Error
				guarded := false
				for i := len(stack) - 2; i >= 0 && !guarded; i-- {
					ifs, ok := stack[i].(*ast.IfStmt)
					if !ok {
						continue
					}
					inThen := false
					ast.Inspect(ifs.Body, func(y ast.Node) bool {
						if y == ast.Node(call) {
							inThen = true
						}
						return true
					})
					if !inThen {
						break
					}
					check := func(nd ast.Node) {
						if nd == nil {
							return
						}
						ast.Inspect(nd, func(y ast.Node) bool {
							if ta, ok := y.(*ast.TypeAssertExpr); ok && ta.Type != nil {
								if tv, ok := info.Types[ta.Type]; ok {
									if pth, tn, ok := pkgAndName(tv.Type); ok && pth == "runtime" && tn == "runtime.Error" {
										guarded = true
									}
								}
							}
							return true
						})
					}
					check(ifs.Init)
					check(ifs.Cond)
					break
				}
				c.check(guarded, "R19g", fmt.Sprintf("%s re-panic#%d", c.declKey("parse", fd), ord), call.Pos(),
					"only a runtime error is passed on unchanged", "a recovered failure that is not a runtime error is passed on unchanged: it keeps the position (line 1 of a nested expression, or none) it was raised with instead of being positioned by this parser")
				return true
			})
		}
	}
	c.floor("R19g", "re-panics inside the parser's recover handlers", 2, n)
}

// R19h: file names do not identify files (AddTemplateString documents the name as optional; two files may
// share one), so nothing in the registry selects a file, or its text, by comparing names: no == or != in
// package template has a SoyFileNode's Name as an operand, and no map there is indexed by one. Positions
// are looked up by template name, which Registry.Add keeps unique (R06c).
func ruleR19h(c *Ctx) {
	p := c.pkg("template")
	if p == nil {
		return
	}
	info := p.TypesInfo
	isFileName := func(e ast.Expr) bool {
		se, ok := ast.Unparen(e).(*ast.SelectorExpr)
		if !ok || se.Sel.Name != "Name" {
			return false
		}
		tv, ok := info.Types[se.X]
		if !ok {
			return false
		}
		_, tn, ok := relPkgOfType(tv.Type)
		return ok && tn == "SoyFileNode"
	}
	nfun, nbad := 0, 0
	for _, fd := range c.allFuncDecls("template") {
		nfun++
		ast.Inspect(fd.Body, func(x ast.Node) bool {
			switch e := x.(type) {
			case *ast.BinaryExpr:
				if (e.Op == token.EQL || e.Op == token.NEQ) && (isFileName(e.X) || isFileName(e.Y)) {
					nbad++
					c.bad("R19h", fmt.Sprintf("%s selects-by-file-name#%d", c.declKey("template", fd), nbad), e.Pos(),
						"a file is selected by comparing its name ("+exprKey(e)+"): names are optional and may repeat, so a template can be given another file's text, and its error positions then count lines in the wrong text (or exceed it)")
				}
			case *ast.IndexExpr:
				if tv, ok := info.Types[e.X]; ok {
					if _, isMap := tv.Type.Underlying().(*types.Map); isMap && isFileName(e.Index) {
						nbad++
						c.bad("R19h", fmt.Sprintf("%s selects-by-file-name#%d", c.declKey("template", fd), nbad), e.Pos(),
							"a table is keyed by a file's name ("+exprKey(e)+"): names are optional and may repeat, so entries of different files overwrite each other")
					}
				}
			}
			return true
		})
	}
	c.floor("R19h", "functions of package template examined", 5, nfun)
}

// R19i: positions are offsets into the text the caller gave. In parse.SoyFile the text parameter itself is
// what the scanner is started on and what the tree records (tree.text / SoyFileNode.Text): nothing is
// trimmed, decoded or rewritten on the way, or every offset — and every reported line — shifts.
// R19j: a render error is positioned at the command whose output failed, so the renderer writes straight to
// the caller's writer: the state built by Renderer.Execute gets the wr parameter itself, not a wrapper that
// holds output back (a failure would then surface at the flush, at whatever node was walked last).
func ruleR19i(c *Ctx) {
	p := c.pkg("parse")
	fd := c.mustFunc("parse", "SoyFile")
	if p == nil || fd == nil {
		return
	}
	info := p.TypesInfo
	var text types.Object
	for _, fl := range fd.Type.Params.List {
		for _, nm := range fl.Names {
			if nm.Name == "text" || nm.Name == "input" {
				text = info.Defs[nm]
			}
		}
	}
	if text == nil {
		// the second string parameter
		i := 0
		for _, fl := range fd.Type.Params.List {
			for _, nm := range fl.Names {
				if i == 1 {
					text = info.Defs[nm]
				}
				i++
			}
		}
	}
	if text == nil {
		c.fatalf("anchor: parse.SoyFile's text parameter not found")
		return
	}
	isParam := func(e ast.Expr) bool {
		id, ok := ast.Unparen(e).(*ast.Ident)
		return ok && info.Uses[id] == text
	}
	n := 0
	// every assignment to the parameter is a rewrite
	ast.Inspect(fd.Body, func(x ast.Node) bool {
		if as, ok := x.(*ast.AssignStmt); ok {
			for _, l := range as.Lhs {
				if isParam(l) {
					n++
					c.bad("R19i", "parse.SoyFile rewrites-input#"+itoa(n), as.Pos(), "the input text is replaced by "+exprKey(as.Rhs[0])+" before scanning: every offset, and so every reported line and column, refers to the changed text")
				}
			}
		}
		return true
	})
	// the scanner and the recorded text get the parameter itself
	uses := 0
	ast.Inspect(fd.Body, func(x ast.Node) bool {
		switch e := x.(type) {
		case *ast.CallExpr:
			cal := calleeFunc(e, info)
			if cal != nil && cal.Pkg() == p.Types && (cal.Name() == "lex" || cal.Name() == "lexExprAt" || cal.Name() == "lexExpr") {
				uses++
				good := len(e.Args) >= 2 && isParam(e.Args[1])
				c.check(good, "R19i", "parse.SoyFile scanner-input", e.Pos(), "the scanner is started on the text as given", "the scanner is started on "+exprKey(e.Args[len(e.Args)-1])+", not on the text parameter itself")
			}
		case *ast.KeyValueExpr:
			if id, ok := e.Key.(*ast.Ident); ok && (id.Name == "text" || id.Name == "Text") {
				if _, isSel := ast.Unparen(e.Value).(*ast.SelectorExpr); isSel {
					return true // t.text, itself set from the parameter (checked at its own site)
				}
				uses++
				c.check(isParam(e.Value), "R19i", "parse.SoyFile recorded-text "+id.Name, e.Pos(), "the text recorded for positions is the text as given", "the text recorded for computing positions is "+exprKey(e.Value)+", not the text parameter itself")
			}
		}
		return true
	})
	c.floor("R19i", "places where SoyFile hands the text on", 2, uses)
}

func ruleR19j(c *Ctx) {
	p := c.pkg("soyhtml")
	fd := c.mustFunc("soyhtml", "Renderer.Execute")
	if p == nil || fd == nil {
		return
	}
	info := p.TypesInfo
	var wr types.Object
	for _, fl := range fd.Type.Params.List {
		for _, nm := range fl.Names {
			if o := info.Defs[nm]; o != nil && isIOWriter(o.Type()) {
				wr = o
			}
		}
	}
	if wr == nil {
		c.fatalf("anchor: Renderer.Execute has no io.Writer parameter")
		return
	}
	n := 0
	// the entry state's literal: in Execute itself, or in a helper Execute hands its writer to
	holder, cl := entryStateLit(c)
	expect := wr // the object the literal's wr field must name
	if holder != nil && holder != fd {
		expect = nil
		hfn, _ := info.Defs[holder.Name].(*types.Func)
		ast.Inspect(fd.Body, func(x ast.Node) bool {
			call, ok := x.(*ast.CallExpr)
			if !ok || calleeFunc(call, info) != hfn {
				return true
			}
			k := 0
			for _, fl := range holder.Type.Params.List {
				for _, nm := range fl.Names {
					if k < len(call.Args) {
						if aid, ok := ast.Unparen(call.Args[k]).(*ast.Ident); ok && info.Uses[aid] == wr {
							expect = info.Defs[nm]
						}
					}
					k++
				}
			}
			return true
		})
		// the helper must not rewrap its parameter either
		if expect != nil {
			ast.Inspect(holder.Body, func(x ast.Node) bool {
				if as, ok := x.(*ast.AssignStmt); ok {
					for _, l := range as.Lhs {
						if id, ok := ast.Unparen(l).(*ast.Ident); ok && info.Uses[id] == expect {
							n++
							c.bad("R19j", "soyhtml.Renderer.Execute rewraps-writer", as.Pos(), "the caller's writer is replaced by "+exprKey(as.Rhs[0])+" before rendering")
						}
					}
				}
				return true
			})
		}
	}
	if cl != nil {
		for _, el := range cl.Elts {
			kv, ok := el.(*ast.KeyValueExpr)
			if !ok {
				continue
			}
			id, ok := kv.Key.(*ast.Ident)
			if !ok || id.Name != "wr" {
				continue
			}
			n++
			vid, isID := ast.Unparen(kv.Value).(*ast.Ident)
			c.check(isID && expect != nil && info.Uses[vid] == expect, "R19j", "soyhtml.Renderer.Execute state-writer", kv.Pos(), "the renderer writes to the caller's writer directly",
				"the entry state's writer is "+exprKey(kv.Value)+", not the caller's writer itself: output held back by a wrapper fails when it is flushed, and the error is positioned at the last command walked instead of the one whose output failed")
		}
	}
	// and the parameter is not reassigned
	ast.Inspect(fd.Body, func(x ast.Node) bool {
		if as, ok := x.(*ast.AssignStmt); ok {
			for _, l := range as.Lhs {
				if id, ok := ast.Unparen(l).(*ast.Ident); ok && info.Uses[id] == wr {
					n++
					c.bad("R19j", "soyhtml.Renderer.Execute rewraps-writer", as.Pos(), "the caller's writer is replaced by "+exprKey(as.Rhs[0])+" before rendering")
				}
			}
		}
		return true
	})
	c.floor("R19j", "writer of the entry state", 1, n)
}

// currentNodeField: the field of the renderer's state that marks the node being executed — the one field of
// soyhtml.state whose type is the ast.Node interface itself (found by its role, whatever it is called).
func currentNodeField(c *Ctx) *types.Var {
	p, ap := c.pkg("soyhtml"), c.pkg("ast")
	if p == nil || ap == nil {
		return nil
	}
	stObj := p.Types.Scope().Lookup("state")
	nodeT := ap.Types.Scope().Lookup("Node")
	if stObj == nil || nodeT == nil {
		return nil
	}
	st, ok := stObj.Type().Underlying().(*types.Struct)
	if !ok {
		return nil
	}
	var found *types.Var
	for i := 0; i < st.NumFields(); i++ {
		if types.Identical(st.Field(i).Type(), nodeT.Type()) {
			if found != nil {
				return nil // ambiguous
			}
			found = st.Field(i)
		}
	}
	return found
}

// R19k: text that comes from the caller (the file name, token text, template text) never becomes part of a
// format string. In parse, soyhtml and errortypes every call of a printf-like function (last parameters
// `format string, args ...interface{}`) gets as its format a constant, or the enclosing function's own
// format parameter forwarded unchanged. A format assembled from a name (fmt.Sprintf("template %s…", name)
// used as format) turns a '%' in the file name into a mangled message.
func ruleR19k(c *Ctx) {
	ruleFormatArgs(c, "R19k", []string{"parse", "soyhtml", "errortypes", "parsepasses", "template"}, 20,
		"text from the caller that ends up in it (a file name with a '%') is interpreted as formatting verbs, and the message no longer shows the name as given")
}

// ruleFormatArgs: no printf-like call in the given packages gets a format assembled at run time.
func ruleFormatArgs(c *Ctx, rule string, rels []string, floor int, consequence string) {
	n := 0
	for _, rel := range rels {
		p := c.Pkgs[rel]
		if p == nil {
			c.fatalf("anchor: package %s not loaded", rel)
			continue
		}
		info := p.TypesInfo
		for _, fd := range c.allFuncDecls(rel) {
			if strings.HasSuffix(c.Fset.Position(fd.Pos()).Filename, "_test.go") {
				continue
			}
			// the function's own format parameter (second to last, string, followed by a variadic)
			var ownFormat types.Object
			if fl := fd.Type.Params.List; len(fl) >= 2 {
				if _, variadic := fl[len(fl)-1].Type.(*ast.Ellipsis); variadic {
					prev := fl[len(fl)-2]
					if len(prev.Names) > 0 {
						o := info.Defs[prev.Names[len(prev.Names)-1]]
						if b, ok := o.Type().Underlying().(*types.Basic); ok && b.Info()&types.IsString != 0 {
							ownFormat = o
						}
					}
				}
			}
			reassigned := false
			if ownFormat != nil {
				ast.Inspect(fd.Body, func(x ast.Node) bool {
					if as, ok := x.(*ast.AssignStmt); ok {
						for _, l := range as.Lhs {
							if id, ok := l.(*ast.Ident); ok && info.Uses[id] == ownFormat {
								reassigned = true
							}
						}
					}
					return true
				})
			}
			ord := 0
			ast.Inspect(fd.Body, func(x ast.Node) bool {
				call, ok := x.(*ast.CallExpr)
				if !ok {
					return true
				}
				var sig *types.Signature
				if tv, ok := info.Types[call.Fun]; ok {
					sig, _ = tv.Type.Underlying().(*types.Signature)
				}
				if sig == nil || !sig.Variadic() || sig.Params().Len() < 2 {
					return true
				}
				fi := sig.Params().Len() - 2
				fp := sig.Params().At(fi)
				if b, ok := fp.Type().Underlying().(*types.Basic); !ok || b.Info()&types.IsString == 0 {
					return true
				}
				if sl, ok := sig.Params().At(fi + 1).Type().(*types.Slice); !ok || !types.IsInterface(sl.Elem()) {
					return true
				}
				if !strings.Contains(strings.ToLower(fp.Name()), "format") && fp.Name() != "msg" {
					return true
				}
				if fi >= len(call.Args) {
					return true
				}
				n++
				ord++
				fa := call.Args[fi]
				good := false
				if tv, ok := info.Types[fa]; ok && tv.Value != nil {
					good = true
				}
				if id, ok := ast.Unparen(fa).(*ast.Ident); ok && ownFormat != nil && info.Uses[id] == ownFormat && !reassigned {
					good = true
				}
				if why, ok := formatExceptions[fmt.Sprintf("%s format-argument#%d", c.declKey(rel, fd), ord)]; ok && !good {
					c.okTrivial(rule, fmt.Sprintf("%s format-argument#%d", c.declKey(rel, fd), ord), call.Pos(), "named exception: "+why)
					return true
				}
				c.check(good, rule, fmt.Sprintf("%s format-argument#%d", c.declKey(rel, fd), ord), call.Pos(),
					"the format is a constant or the function's own format parameter",
					"the format handed to "+exprKey(call.Fun)+" is "+exprKey(fa)+", assembled at run time: "+consequence)
				return true
			})
		}
	}
	c.floor(rule, "printf-like calls examined", floor, n)
}

// formatExceptions: formats assembled at run time from text that cannot hold a '%'.
var formatExceptions = map[string]string{
	"soyhtml.state.errorf format-argument#2": "the only text spliced into the format is callAnnotation(): the executing template's name (an identifier: the scanner's identifier characters exclude '%') and a line number",
}

// R19l: the parser and the renderer count lines the same way, and a line ends at "\n" only: both
// lexer.lineNumber and Registry.LineNumber return 1 + strings.Count(<text before the position>, "\n").
// (Counting "\r" as well makes every CRLF line count twice: the reported line runs ahead of the construct and
// past the end of the input; and the two sides would disagree about the same file.)
func ruleR19l(c *Ctx) {
	sites := []struct{ rel, fn string }{{"parse", "lexer.lineNumber"}, {"template", "Registry.LineNumber"}}
	n := 0
	for _, st := range sites {
		p := c.pkg(st.rel)
		fd := c.mustFunc(st.rel, st.fn)
		if p == nil || fd == nil {
			continue
		}
		info := p.TypesInfo
		good := false
		// the last return: 1 + strings.Count(X, "\n")
		var last *ast.ReturnStmt
		ast.Inspect(fd.Body, func(x ast.Node) bool {
			if r, ok := x.(*ast.ReturnStmt); ok {
				last = r
			}
			return true
		})
		if last != nil && len(last.Results) == 1 {
			if be, ok := ast.Unparen(last.Results[0]).(*ast.BinaryExpr); ok && be.Op == token.ADD {
				one, cnt := be.X, be.Y
				if exprKey(cnt) == "1" {
					one, cnt = cnt, one
				}
				if call, ok := ast.Unparen(cnt).(*ast.CallExpr); ok && exprKey(one) == "1" && len(call.Args) == 2 {
					if cal := calleeFunc(call, info); cal != nil && cal.FullName() == "strings.Count" {
						if tv := info.Types[call.Args[1]]; tv.Value != nil && tv.Value.Kind() == constant.String && constant.StringVal(tv.Value) == "\n" {
							good = true
						}
					}
				}
			}
		}
		n++
		c.check(good, "R19l", c.declKey(st.rel, fd)+" counts-newlines", fd.Pos(), "the line is 1 + the number of \"\\n\" before the position",
			"the line number is not computed as 1 + strings.Count(text before the position, \"\\n\"): lines are counted differently from the other side (parser / renderer) and from what an editor shows — with CRLF input every line may count twice")
	}
	c.floor("R19l", "line counters", 2, n)
}
