package main

import "strings"

func init() {
	register(&propSpec{
		ID:    "C05",
		Rules: []func(*Ctx){ruleR05a, ruleR05b, ruleR05f, ruleR05g, ruleR05h, ruleR05i, ruleR05j, ruleR05k, ruleR05l, ruleR15h, func(c *Ctx) { ruleLockPairing(c, "R09e") }},
		Explain: "R05a: every scanner loop that reads input is evaluated with each rune read yielding eof (the source predicates are evaluated on that one constant) and must leave within a bounded unrolling;  R05g: for each read site in turn, when that read yields eof no manual rewind of the scanner position follows before another read; R05h: every manual rewind is by the recorded width, a constant, or inside the start guard (anything else is undecided). R05l: the parser's loops that read no input are counted loops or recognised bounded idioms. R15h: the line joiner cannot outgrow its buffer by re-encoding." +
			"R05b: every parser loop that reads tokens is evaluated with reads yielding the closed-channel item / EOF / error item and must leave (return, break, or a raising call); " +
			"R05f: the scanner's end-of-input state transition graph is acyclic and ends in nil. R05i: a computed slice bound (e+K) on the string parameter of the parser's string helpers is dominated by a test of that very bound against the length. R05h also: a backward scan of the position stops at the token start; R05j: a constant-position read of an input string or token list is dominated by a test that the position exists; R05k: a table indexed by a rune excludes the negative end-of-input sentinel. R09e: every mutex locked in the module is unlocked on every returning path. R05i also covers constant bounds.",
		NotDecided: "the linear time bound, and the absence of runtime-error panics (index/nil faults), which parse's recover deliberately re-panics.",
		Assumes:    []string{"go/types resolution of callees", "the standard library predicates met (unicode.Is*, strings.IndexRune) behave as tabulated for the constant eof"},
	})
}

func init() {
	register(&propSpec{
		ID:         "C08",
		Rules:      []func(*Ctx){ruleR08a, ruleR08b, ruleR08d, ruleR02a},
		Explain:    "R08a/R08c: interprocedural effect analysis over SSA and the VTA call graph (CHA in the thorough tier): every Store, MapUpdate, append/copy/delete/sort reachable from Renderer.Execute, Tofu.Render, EvalExpr, soyjs.Write and Generator.WriteFile is classified by the provenance of the object written; a write into a non-fresh object of a type declared in ast/template/soymsg/pomsg, into data.Map/data.List, or into a package variable is a violation. R08d: no method of a stateful library type (pool, once, builder) is called on a package variable of the module while rendering. R08d also covers sync.Map, sync.Pool and sync.Once kept in a field of a module object (Tofu, registry, renderer).",
		NotDecided: "determinism of functions that are random by specification (randomInt); behaviour of caller-supplied writers, bundles and callbacks.",
		Assumes:    []string{"call graph (VTA; CHA in thorough) covers every dynamic call", "no reflection or unsafe writes in reachable code (asserted on every run)", "standard-library functions listed as allocating return fresh storage"},
	})
}

func init() {
	register(&propSpec{
		ID:         "C02",
		Rules:      []func(*Ctx){ruleR02a, ruleR02b, ruleR02c, ruleR02d, ruleR02e, ruleR02g, ruleR02h, ruleR02i, ruleR02j, ruleR02k, ruleR02m, ruleR02n, ruleR01g, ruleR07e, ruleR20f, ruleR15f, ruleR15h, func(c *Ctx) { ruleR07j(c, "R02l", []string{"soyhtml"}, 15) }},
		Explain:    "R02a: push/pop pairing of the renderer's scope in every soyhtml function (go/cfg dataflow over relative depth, raising paths exempt); R02b: every AST field the parser fills from a command body (derived from parse, not listed) is walked inside its own frame, or the *ast.ListNode case brackets its elements; R02c: scope-frame typestate (set only on renderer-allocated frames, new states only get entered scopes, capped data=\"all\" view); R02d: the loop helper functions look up exactly the key suffixes the loop sets. R02e/R02f: a called template is walked on a newly built state and every {param} kind binds its key on every non-raising path; R02g: a command-body field is only handed to the tree walker or compared with nil, never taken apart by hand; R02h: every state built for a template sets the fields the entry state sets. R02i: the alias table is read with the part of the name before its first dot; R02j: scope.lookup returns a binding exactly when the frame has the key (comma-ok) and inspects the last frame first; R02k: with a component present every completing path of the {css} arm evaluates the dash (finite-domain evaluation); R02l: every arm of the recursive walker that handles a node type by hand mentions each node-holding field of that type. R02m: the renderer's writer is redirected only to a buffer declared fresh in that function, or restored; R01g: sizes handed to make cannot be negative (range()). R02n: nothing is bound in a callee's scope after its explicit params; R07e: the checker brings a {let} into scope after its own definition. R20f: {switch} and == compare numbers numerically across int and float. R15f/R15h: raw text: the line joiner's character classifiers accept one-byte characters only, and it never re-encodes a character it decoded.",
		NotDecided: "the rendered text of each command; call-name resolution through namespace/alias; header-param folding.",
		Assumes:    []string{"go/cfg control flow; no-return functions inferred from the source (panic closure)"},
	})
}

func init() {
	register(&propSpec{
		ID:         "C09",
		Rules:      []func(*Ctx){ruleR09a, ruleR08b, ruleR08d, ruleR09b, ruleR09c, ruleR09d, ruleR09f, ruleR13h, ruleR19n, func(c *Ctx) { ruleLockPairing(c, "R09e") }},
		Explain:    "R09a: the C08 effect analysis over every concurrent entry (render, JS generation; for parse/compile entries: package-state writes only) - no shared-memory write means no race among them; R08b: scope-frame freshness typestate; R09b: lexer fields written by the scanner goroutine and touched by the parser are disjoint except the channel; R09c: run closes the channel on every exit; R09d: no goroutine is started on the render path. R08d as under C08. R09e: every mutex locked is unlocked on every returning path. R09f: the methods of every soymsg.Bundle implementation write no shared memory. R19n: no goroutine literal in a loop reads the loop's variables. R13h: no goroutine literal of the root package assigns a captured variable.",
		NotDecided: "schedules as such are not explored; third-party writers, bundles and callbacks; Bundle.recompiler (WatchFiles), which upstream documents as not goroutine-safe.",
		Assumes:    []string{"absence of shared writes is the sufficient condition for race freedom used here", "VTA call graph (CHA in thorough)", "channel operations synchronise"},
	})
}

func init() {
	register(&propSpec{
		ID:         "C12",
		Rules:      []func(*Ctx){ruleR12, ruleR06a, ruleR06b, ruleR19c, ruleR08d, ruleR02e, ruleR02m},
		Explain:    "R12: error discipline on SSA: every call reachable from Renderer.Execute that writes to an io.Writer-typed operand (Write, io.WriteString, fmt.Fprint*) must have its error tested with the failing branch raising (errorf/panic) or returning it to callers that do; in-memory buffers (*bytes.Buffer by construction) are exempt. R06a: the entry converts the raise into its returned error. Since every failed write raises and emission is sequential, the accepted bytes are a prefix and nil is returned only if every write succeeded. Handling is path-complete: from the write no return is reachable without a branch on the error value. R08d: no buffer pool or other stateful library object in a package variable is used while rendering (leftover bytes of a failed render would precede the next one's output). R02e: a called template runs on its own state (the recover handler positions the error with the entry state's template). R02m: the writer is redirected only to a fresh in-memory buffer, never to a wrapper around the caller's writer (whose flush error could be lost). R06b: the recover handler's call tree is guarded against faults (a fault there loses the write error).",
		NotDecided: "writers that violate the io.Writer contract (short write without error).",
		Assumes:    []string{"io.Writer contract", "VTA call graph for reachability"},
	})
}

func init() {
	register(&propSpec{
		ID:         "C18",
		Rules:      []func(*Ctx){ruleR18a, ruleR18b, func(c *Ctx) { ruleRunCloses(c, "R18b") }, ruleR05a, ruleR09b, ruleR18c},
		Explain:    "R18a: acquire/release on go/cfg: every function that starts a scanner (calls a function containing the go statement) is covered on every returning path by a deferred drain, or by a draining recover handler plus a call that reads the stream through itemEOF; R18b: the scanner returns its nil state right after an error item or EOF and run closes the channel on every exit; R05a: scanner loops end once input is exhausted, so a drained scanner exits. R09b: the drain decision reads no field the scanner goroutine writes. R18c: every return after a goroutine literal was started in the root package is preceded by WaitGroup.Wait.",
		NotDecided: "paths that leave by re-panicking a runtime error (they do not return; outside the property).",
		Assumes:    []string{"go/cfg control flow", "a receive loop over the item channel until close (drain) lets every pending send complete"},
	})
}

func init() {
	register(&propSpec{
		ID:         "C03",
		Rules:      []func(*Ctx){ruleR03a, ruleR03b, ruleR03c, ruleR03d, ruleR03e, ruleR03f, ruleR03g, ruleR03i, ruleR03j, ruleR04r, ruleR10f, ruleR02e},
		Explain:    "R03a: evalPrint is evaluated (finite-domain, AST) for every autoescape mode x cancel-flag value: unless the mode is off or a directive cancels, every completing path writes through the escaper and none writes raw; R03b: every cancelling PrintDirectives entry is in the language's list, and the HTML-producing / re-encoding ones return only data that passed their escaper (SSA taint from the value parameter to every return); R03c: the escaper's table covers the five characters with references that decode back and contain none of them; R03d: parseAutoescape yields the off mode only for \"false\". R03e: the autoescape mode of a live state is assigned only by the template-level attribute case of the walker; R02e: a called template runs on its own state. R03f: a template is registered with the namespace node of its own file; R03g: every write of the escaper's input is the scan loop's own or guarded by a character-set test naming every escaped character; R03h: the module's escaper wrapper returns exactly what the escaper writes; R10f: message placeholders are merged only on equal complete printed text. R03g also: the escaper's scan advances one byte at a time and examines each; R03i: raw text nodes are built by the parser only. R03j: every returning path of renderBlock has handed the block to the walker. R04r: the generated JavaScript gives markup-adding runtime functions the escaped value.",
		NotDecided: "index arithmetic inside the escaper loop (which byte ranges are copied); user-registered directives; contextual (attribute/JS/URI-aware) escaping, which this implementation does not provide.",
		Assumes:    []string{"text/template.HTMLEscapeString, net/url.QueryEscape, text/template.JSEscapeString and encoding/json.Marshal are correct encoders"},
	})
}

func init() {
	register(&propSpec{
		ID:         "C06",
		Rules:      []func(*Ctx){ruleR06a, ruleR06b, ruleR06c, ruleR06d, ruleR06e, ruleR06f, ruleR02e, ruleR05i, ruleR05k, ruleR19h, ruleR06g, ruleR06i, ruleR06j, func(c *Ctx) { ruleConstIndexGuards(c, "R06h", "", 0) }},
		Explain:    "R06a: every exported soyhtml entry that can reach the tree walker defers the recover handler (with its named error) first, and the handler assigns the error on every recovered path; R06b: the handler's own call tree (errRecover, errorf, errFromNode, callAnnotation, Registry.Filename/LineNumber/ColNumber, NewErrFilePosf) contains no unguarded nil dereference of a field, slice bound, index or single-value type assertion; R06c: Registry.Add rejects an already-registered template name before recording it; R06d: every non-range loop reachable from a render entry is a counted loop with a fixed-sign step or a sign guard; R06e: code that runs before/outside the recover contains no explicit raise except named exceptions; R06f: user callbacks (Func.Apply, PrintDirective.Apply) are invoked only under a recover. R02e/R02f (shared with C02): callee state and unconditional param binding, on which the termination of recursive templates with inherited data rests. R05i: the string helper cuts a unicode escape only after testing the bound. R06c covers every table of the registry that its look-up functions read. R05k: the scanner's character predicates do not fault on the end-of-input sentinel; R19h: no position look-up selects a file by name. R06g: no static call cycle among the methods of the scalar value types; R06h: constant-position reads in the root package (the globals reader) are guarded. R06i: the tree walker is never handed a node variable that may still be unset (forward may-analysis on the CFG). R06j: a Tofu keeps no collection of its own besides the registry it views.",
		NotDecided: "data-bounded recursion (excluded by the property); faults inside user callbacks beyond the recover wrapper; exhaustion of memory by legitimately large data.",
		Assumes:    []string{"fmt recovers panics raised by String()/Error() methods it calls", "positions stored in parse-tree nodes are non-negative"},
	})
}

func init() {
	register(&propSpec{
		ID:         "C19",
		Rules:      []func(*Ctx){ruleR19a, ruleR19b, ruleR19c, ruleR19d, ruleR19e, ruleR19f, ruleR19g, ruleR19h, ruleR19i, ruleR19j, ruleR19k, ruleR19l, ruleR19m, ruleR19n, ruleR06c, ruleR02e},
		Explain:    "R19a: every parser is created with the input's name; parse failures are raised only through the positioned constructor (bare panics are internal markers); message prefix and File/Line/Col come from the same expressions and line/column from one offset; R19b: unexpected(token) positions every raise at that token's own offset and expect passes the token it read; R19c: errFromNode looks up file, line and column with one template name and the state's current node, errRecover only produces such errors, and a callee's failure propagates to the caller's state; R19d: a nested parse is given its position base. R19e: value-returning helpers that walk an operand on the same state (eval, renderBlock) restore the current-node mark on every returning path; R19f: the scanner's error item is positioned at the current scan offset, unconditionally. R19g: the parser's recover handlers re-panic only runtime errors unchanged, everything else leaves through the positioned constructor; R06c: the position tables are stored under keys just found absent, so a template's file and text are never another file's. R19h: nothing in the registry selects a file by its name (names may repeat); R19i: the scanner runs on, and the tree records, the text exactly as given; R19j: the entry state writes to the caller's writer itself. R19k: no printf-like call gets a format assembled at run time (a '%' in a file name would be read as a verb); R19l: parser and renderer count lines as 1 + the number of newline characters; R02e: a called template runs on its own state. R19m: the template of a state is set in state literals only; R19n: no goroutine literal in a loop reads the loop's variables (a file parsed under another file's name).",
		NotDecided: "the arithmetic of lineNumber/columnNumber (that the numbers are right for a given offset).",
		Assumes:    []string{"token offsets recorded by the scanner are offsets of the construct concerned"},
	})
}

func init() {
	register(&propSpec{
		ID: "C13",
		Rules: []func(*Ctx){ruleR13a, ruleR13b, func(c *Ctx) { runEffects(c, "R13c", compileEntries, true, nil) },
			func(c *Ctx) {
				runEffects(c, "R13d", renderEntries, false, map[string]string{"(soyhtml.scope).set mapupdate": "scope-frame typestate (R08b)"})
			}, ruleR10g, ruleR08d, ruleR19h, ruleR13f, ruleR13g, ruleR13h, ruleR13i, ruleR06j, ruleR19n},
		Explain:    "R13a: every range over a map in the functions reachable from compile, JS generation and render entries (plus every String() of ast/data/parse) is order-insensitive: it only stores under the range key, updates the element itself, counts, tests existence, or collects into a slice that is sorted before use; R13b: no reachable read of clock, environment or random source (randomInt excepted by specification); R13c: no package-state write on the compile side (so one compile cannot influence the next); R13d: generating JavaScript or rendering does not modify the compiled bundle (C08's effect analysis), so a second generation from the same registry emits the same bytes. Sorting counts only when it is a total order on the elements (sort.Strings/Ints/Float64s, slices.Sort, or sort.Slice comparing the elements themselves). R10g: the id computation has no input but the message node. R08d: no pooled or otherwise shared library object is used while rendering; R19h: the registry selects nothing by (non-unique) file name, so results do not depend on the order files were added. R13f: no value whose elements are pointers without a String method is formatted into a message; R13g: the bundle builder adopts no collection of its caller. R13h: no goroutine literal of the root package assigns a captured variable (first-error-wins races). R19n: no goroutine literal in a loop reads the loop's variables. R13i: a Bundle holds sources, not parsed trees; R06j: a Tofu keeps no per-template objects.",
		NotDecided: "insertion-order semantics (which of two files defining a name wins, which of several independent errors is reported first).",
		Assumes:    []string{"library functions listed as pure do not depend on map order", "VTA call graph for reachability"},
	})
}

func init() {
	register(&propSpec{
		ID: "C10",
		Rules: []func(*Ctx){ruleR10a, ruleR10b, ruleR10c, ruleR10d, ruleR10f, ruleR10g, ruleR10i, ruleR10j, ruleR10k, ruleR10l, ruleR17a, ruleR15h, func(c *Ctx) {
			ruleR07iFor(c, func(k string) bool { return strings.Contains(k, "Msgs") || strings.HasPrefix(k, "soymsg") }, 2, 2)
		}, func(c *Ctx) { ruleR07j(c, "R07j", []string{"parsepasses", "soymsg"}, 5) }},
		Explain:    "R10a: no range over a map on the id / placeholder-name path is order-sensitive (K6); R10b: of ast.MsgNode the id computation reads only Body and Meaning, reads no source position, and reads only package variables that are never written after init (SSA field-read sets over the reachable functions); R10c: ids and placeholder names are assigned only in soymsg, which is called only from the compile pass and the extractor. R10d: the suffix-collision test consults the base-name table; R10e: all plural bodies are fingerprinted with braced placeholders. R10f: two placeholders share a name only when their complete printed text is equal; R10g: calcID, setPlaceholderNames and SetPlaceholdersAndID take the message node and nothing else; R10i: the hash's block loop and tail switch partition the input (a case for every residual length); R07i/R07j: the message pass prunes no parent node and, where it descends by hand, mentions every node-holding field. R10j: underscore runs in placeholder names are collapsed by a whole-run pattern, not by a fixed-width replace. R10k: each arm of parseDataRef builds access nodes of one kind; R17a: operator printers parenthesise operator operands (printed text is what placeholders are compared by). R10l: the parser keeps no table of nodes (every occurrence gets its own node). R15h: message text is copied byte for byte.",
		NotDecided: "numeric agreement of fingerprint/hash32 with the official algorithm; the exact placeholder names the official algorithm would choose.",
		Assumes:    []string{"VTA call graph for reachability"},
	})
}

func init() {
	register(&propSpec{
		ID: "C14",
		Rules: []func(*Ctx){ruleR14, ruleR14b, ruleR14d, ruleR14e, ruleR14g, ruleR14h, func(c *Ctx) {
			ruleFormatArgs(c, "R14i", []string{"soyjs"}, 5, "text already generated (an escaped key with a '%' in it) is read as formatting verbs, so the generated script is malformed or names another key")
		}, ruleR08d, ruleR15f, ruleR15h, func(c *Ctx) {
			runEffects(c, "R14f", renderEntries, false, map[string]string{"(soyhtml.scope).set mapupdate": "scope-frame typestate (R08b)"})
		}},
		Explain:    "R14: SSA taint over every function of soyjs with parameter summaries to a fixpoint: values loaded from the free-text fields (raw text, string literal values, map-literal keys, css suffix, message html tags, catalogue text, file name) must reach the output (Writer.Write, fmt.Fprint*, JSWriter.Write, the generator's own js/jsln) only through text/template.JSEscape / JSEscapeString. R14b: free text is not cut at byte offsets before it is escaped; R14c: the generator never reads StringNode.Quoted. strconv.Quote is not accepted as a JavaScript escaper. R14d: no position inside a name is recovered by searching the name for one of its own pieces. R14e: Generator.WriteFile takes the file node from the registry's current file list on every call. R14f: generating JavaScript writes into no shared tree node or data (the effect analysis of C08 over the generator's entries). R14g: the Generator stores nothing between calls; R08d: no pool or other shared state in the generator; R15f/R15h: raw text reaches the generator byte for byte. R14h: the library's JavaScript escaper is called only inside the function that encodes unprintable characters beyond U+FFFF itself; R14i: no printf-like call of the generator gets generated text as its format.",
		NotDecided: "syntactic validity of the whole generated file; one function per template under its qualified name; identifier-class fields (template, parameter and variable names), which the scanner restricts to letters, digits and underscore.",
		Assumes:    []string{"text/template.JSEscape is a correct JavaScript string escaper for characters up to U+FFFF and for printable ones beyond (it escapes quotes, backslash, <, >, &, = and every non-printable rune including U+2028/9); it is not for unprintable characters beyond U+FFFF, which the generator encodes itself (R14h)"},
	})
}

func init() {
	register(&propSpec{
		ID: "C07",
		Rules: []func(*Ctx){ruleR07a, func(c *Ctx) { ruleR07bFor(c, true, false) }, ruleR07c, ruleR07d, ruleR07e, ruleR07f, ruleR07g, ruleR07k, ruleR07l, ruleR07m, ruleR07n, ruleR07o, ruleR07p, func(c *Ctx) {
			ruleR07iFor(c, func(k string) bool { return strings.HasPrefix(k, "parsepasses.templateChecker") }, 1, 4)
		}, func(c *Ctx) { ruleR07j(c, "R07j", []string{"parsepasses"}, 3, "parsepasses.templateChecker") }, func(c *Ctx) { ruleBlocks(c, "R07c-blocks", "soyhtml", 8) }},
		Explain:    "R07a: on every success path Compile has parsed and registered every file and run CheckDataRefs, SetGlobals and ProcessMessages, and honours each error (go/cfg must-pass + SSA error discipline); R07b: the node kinds that bind a name agree between the compile-time checker, the Go renderer and the JavaScript generator, and data references are checked; R07c: every node-typed field of every AST node type is returned by its Children(), so no reference escapes the tree passes; the interpreter ends a {let} at least as early as the checker assumes (block frames); R07d: the one-declaration-mechanism test precedes recording a template. R07e: the checker brings a binder into scope exactly where the language does (a {let} after its own definition, a loop variable for the loop body only). R07f: at scope exit the checker's stacks are read only from the mark taken at scope entry (helpers included); R07g: names passed under data=all come from the declared params; R07i: the checker prunes no parent node; R07j: arms that descend by hand mention every node-holding field; R07k: a reference is recorded as a param use only after the locals in scope were searched; R07l: a constant flag set under a condition inside a loop and recorded in the item built there is not declared outside the loop; R07m: a template's soydoc is the node just before it or a fresh one. R07n: parseTernary returns the node holding the condition and both branches on every path (nothing is folded away before the checker runs). R07c also: list fields are returned element for element by Children(); R07o: both forms of {let} are tested against the name ij. R07p: the accounting of one template starts empty (fresh checker per template, or every collection field reassigned).",
		NotDecided: "that acceptance is exact for every program: of the checker's own algorithm the scoping and accounting discipline is decided (R07e-R07m); the reconciliation of required and passed params and the comparison of names are value-level and not decided.",
		Assumes:    []string{"go/cfg control flow", "the tree passes visit exactly what Children() returns"},
	})
}

func init() {
	register(&propSpec{
		ID:         "C01",
		Rules:      []func(*Ctx){ruleR01a, ruleR01b, ruleR01c, ruleR01d, ruleR01e, ruleR01f, ruleR01g, ruleR01h, ruleR01i, ruleR01j, ruleR01k, ruleR01l, ruleR01m, ruleR07c, ruleR20f, func(c *Ctx) { ruleR07iFor(c, func(k string) bool { return strings.Contains(k, "Globals") }, 1, 0) }},
		Explain:    "R01a: every token that can start an expression (evaluated over all token kinds) starts an implicit print; R01b: lexNegative evaluated for every token kind that can precede '-' agrees with the language partition (subtraction exactly after a complete operand); R01c: each operator's pipeline (scanner symbol, operator class, precedence entry, node constructor, Go and JS cases) is complete, the relative precedence order of all operator pairs equals the language table and binary operators are left-associative; R01d: every node type the parser builds has an evaluator case or a named parent; R01e: each operator case of the Go evaluator applies the language's operator to (Arg1, Arg2) in order, the ternary and ?: select as defined; R01f: built-in functions exist with the language's arities; R07c: Children() completeness (so globals are set on every GlobalNode). R20f: Int and Float are compared as float64 in both directions. R01g: every size handed to make in the renderer is non-negative by construction or guarded; R07i: the globals pass prunes no node type that has children. R01h: the value-node constructor, evaluated on each number spelling the scanner accepts (decimal, hexadecimal, plain and exponent floats; strconv folded on the constant text), returns a node on some path; R01i: map-literal keys are unescaped strings (a parsed string's Value or unquoteString); R01j: an undefined expression value fails the print before any directive is applied. R01k: hexadecimal escapes are decoded with a bit size admitting 0xFFFF; R01l: a null-safe access on a missing value returns null for the whole reference. R01m: a line of a globals file is cut only where its '=' was found.",
		NotDecided: "every value-level clause: integer/float arithmetic results, string/number formatting, truthiness and equality values, literal decoding, function results, 'undefined is an error'.",
		Assumes:    []string{"the frozen language tables in the checker (operator levels, operand-ending tokens, function arities) transcribe the Soy language reference"},
	})
}

func init() {
	register(&propSpec{
		ID:         "C04",
		Rules:      []func(*Ctx){ruleR04a, ruleR04b, ruleR04c, ruleR04d, func(c *Ctx) { ruleBlockUse(c, "R04d-use", "soyjs") }, ruleR04f, ruleR04g, ruleR03c, ruleR03g, ruleR02k, ruleR04j, ruleR04k, ruleR04l, ruleR04n, ruleR04o, ruleR04p, ruleR04q, ruleR04r, ruleR04s, ruleR20f, ruleR14g, ruleR01l, func(c *Ctx) { ruleR07j(c, "R04i", []string{"soyjs"}, 5) }, ruleR11a, ruleR11d, ruleR11f, ruleR02h, func(c *Ctx) { ruleR07bFor(c, false, true) }, ruleR04m},
		Explain:    "Sibling cross-check of the two backends: R04a node-kind case sets agree (named exceptions); R04b function tables (names, argument counts), loop functions and print-directive tables (names, CancelAutoescape) agree; R04d the generator's scope push/pop is paired and every command body gets its own frame; R04c every expression emitter (walk cases and function-table emitters) is linearised by evaluating its emit calls path by path, parsed as a JavaScript expression template in which child slots are atoms, and for each operand slot every type-compatible child emitter must bind at least as tightly as the slot requires (and must not start with '-' directly after a '-'); R04f each operator node emits the JavaScript operator the language maps it to, operands in order; R04g visitPrint (evaluated over mode x cancel flag) wraps the value in escapeHtml exactly when the Go renderer escapes; R11a message parts are handled by both backends; R07b binder kinds agree. R04d-use: command-body fields are only handed to the generator's walker; R11d/R11e/R02h: catalogue loading and translated-text handling agree between the backends. R04i: generator arms mention every node-holding field; R03c/R03g/R04j: the escape tables of the renderer and of the JavaScript runtime (soyjs/lib/soyutils.js, read on every run) agree; R04k: directives apply first to last in both backends with the implicit escapeHtml outermost; R04l: loop counters are recorded and looked up under the loop variable's name; R04m: scope methods that add a binding update the same fields; R02k: the {css} dash; R11f: placeholder nodes are looked up in the message being rendered. R04n: the generator binds a loop variable around the loop body only (list expression, range arguments and ifempty belong to the enclosing scope); R04o: generated null tests are loose (== null), never strict. R04p: truncate makes room for the ellipsis under the same threshold as the JavaScript runtime; R04q: the message bundle is kept and handed on as the caller gave it; R01l: the null-safe short circuit ends the whole reference, as the generated guard does. R04r: directives that add markup (insertWordBreaks, changeNewlineToBr) are given the escaped value in the generated JavaScript, as the Go directives escape inside; R04s: the Go word-break loop, evaluated over probe texts with character references, breaks exactly where the runtime's state machine does (a reference counts as one character and is never split). R20f: numeric equality across int and float (the generated == is numeric). R14g: the Generator keeps nothing between calls, so it follows a registry changed in place as the renderer does.",
		NotDecided: "anything inside soyutils.js; number formatting; mixed-type equality; statement-level structure of the generated file.",
		Assumes:    []string{"the frozen operator mapping Soy -> JavaScript in the checker"},
	})
}

func init() {
	register(&propSpec{
		ID: "C11",
		Rules: []func(*Ctx){ruleR11a, ruleR11b, ruleR11c, ruleR11d, ruleR11f, ruleR11g, ruleR11h, ruleR11i, ruleR10f, ruleR02h, ruleR10c, ruleR10i, func(c *Ctx) {
			ruleR07iFor(c, func(k string) bool { return strings.Contains(k, "Msgs") || strings.HasPrefix(k, "soymsg") }, 2, 2)
		}},
		Explain:    "R11a: every kind of soymsg.Part that the module constructs has a non-empty case in both backends' part renderers; R11b: the reference keys the extractor writes (id=, var=) are exactly those the catalogue loader reads, the loader skips exactly the tested prefix, and the msgid writer's { } placeholder syntax matches the reader's pattern; R11c: placeholders and plural variables are looked up and printed by the very fields the naming pass assigns (Name, VarName); R10c: those fields are assigned only by the naming pass. R11d: the loader's per-entry variables are declared inside the loop over catalogue entries; R11e: translated text is written raw, as source raw text is; R02h: a called template's state carries the message bundle. R11f: the node rendered for a placeholder is the direct result of the Placeholder look-up on the message being rendered, in both backends. R11g: the bundle keeps the catalogue's own plural rule and applies it to the number itself; R10f: placeholders merge only on equal complete printed text. R11h: the functions rendering a message's source form never read the bundle; the message pass prunes no node type that has children (R07i). R11i: the extractor gives every catalogue entry exactly one id= reference. R10i: the fingerprint covers the whole text.",
		NotDecided: "the round-trip equality of rendered text, plural selection per locale, fallback to source text (all quantify over catalogue contents and data); that distinct placeholders print distinct source text (C17).",
		Assumes:    []string{"the gettext/po library splits references at whitespace"},
	})
}

func init() {
	register(&propSpec{
		ID:         "C15",
		Rules:      []func(*Ctx){ruleR15a, ruleR15b, ruleR15c, ruleR15d, ruleR15e, ruleR15f, ruleR15g, ruleR15h, ruleR14b},
		Explain:    "R15a: the special-character commands, composed scanner table -> text table, emit exactly the language's characters, and every special-character token has a text entry handled where a tag begins; R15b: the RawTextNode built for {literal} takes its text verbatim from the token and the one for special characters from the table, while every other RawTextNode's text passes the line-joining normaliser (or is a slice of normalised text). R15c: Registry.Add takes exactly the collected header params out of a template body; R14b: the JavaScript writer never cuts raw text at a byte offset. R15d: a template file's text is the bytes read from it; R15e: the compile passes write into no byte slice they did not create. R15f: the character classifiers used where characters are counted and bytes copied accept one-byte characters only; R15g: a search for a line end looks for the carriage return too; R15h: no decoded character is re-encoded.",
		NotDecided: "the line-joining rule itself (the bulk of the property): it is a seven-flag state machine over arbitrary strings inside rawtext(); a change inside that loop, or in the scanner's comment recognition, is NOT detected by this check.",
		Assumes:    []string{"the language table of special-character commands in the checker"},
	})
	register(&propSpec{
		ID:         "C20",
		Rules:      []func(*Ctx){ruleR20a, ruleR20b, ruleR20c, ruleR20d, ruleR20f, ruleR20g, ruleR20h, ruleR20i, ruleR08d},
		Explain:    "R20a: no comparison against math.NaN(); R20b: the pairs of value kinds that Equals can accept form a symmetric relation that includes Int~Float; R20c: the reflect-kind switch of the conversion covers every kind the statement lists, unwraps pointers/interfaces, returns on nil before use, recognises time.Time before structs and nil slices before indexing; R20d: each Truthy is a single expression over the receiver and, evaluated on sample constants, follows the language table (null, false, 0, 0.0, NaN, \"\" falsy). R20f: the cross-kind arms of Int.Equals and Float.Equals compare both values as float64. R20g: strings in package data are cut only at rune boundaries known by provenance (0, len, size of a decoded rune); R20h: no function of package data depends on map iteration order. R08d: no cache in a package variable or a synchronised container is consulted during conversion. R20i: the scalar arms of the converter use Go conversions only (no round trip through text).",
		NotDecided: "scalar fidelity of the conversion, idempotence, lowerCamel field names, equality of values (only the acceptance relation is decided), printing.",
		Assumes:    []string{"the language's truthiness table in the checker"},
	})
}

func init() {
	register(&propSpec{
		ID: "C17",
		Rules: []func(*Ctx){ruleR17a, ruleR17b, ruleR17c, ruleR17d, ruleR17f, ruleR17g, ruleR01b, ruleR01a, ruleR17i, ruleR17j, func(c *Ctx) {
			ruleFormatArgs(c, "R17k", []string{"ast"}, 5, "a '%' in the text of an operand (the modulo operator, a string literal) is read as a formatting verb, and the printed source no longer parses to the same expression")
		}},
		Explain:    "R17a: every operand slot of every operator printer (the node kinds the parser's operator constructors build, derived on each run) is printed through a wrapper whose parenthesising type list covers all operator kinds, so no operand can re-associate with its context; R17b: map-literal keys are printed through a function that escapes backslash and quote; R17c: no printing or Children() method depends on map iteration order; R17d/R17e: the unary minus is printed apart from its operand and integral floats keep a decimal point. R17f: the printer's string quoting and the parser's unquoting are inverse tables (each escape reads back, other characters written as themselves, no unbounded unicode escape); R01b: the scanner reads a minus after every operand-ending token as subtraction. R17g: the scanner's exponent accepts both signs the float printer writes; R01a: every token that can start an expression starts an implicit print (the printed form of a print command). R17i: a data reference prints each access through that node's own String(). R17j: a literal becomes a node only if strconv converted it without error; R17k: no printer of package ast hands operand text to a printf-like function as the format.",
		NotDecided: "the formatting of numeric literals beyond the decimal point rule (exponents, precision); that separators inside the non-operator printers (function arguments, list items, directive arguments) cannot be confused, which holds by their bracket/comma structure but is not computed here.",
		Assumes:    []string{"an expression in parentheses parses to the same tree as the expression"},
	})
}
