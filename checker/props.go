package main

func init() {
	register(&propSpec{
		ID:    "C05",
		Rules: []func(*Ctx){ruleR05a, ruleR05b, ruleR05f},
		Explain: "R05a: every scanner loop that reads input is evaluated with each rune read yielding eof (the source predicates are evaluated on that one constant) and must leave within a bounded unrolling; " +
			"R05b: every parser loop that reads tokens is evaluated with reads yielding the closed-channel item / EOF / error item and must leave (return, break, or a raising call); " +
			"R05f: the scanner's end-of-input state transition graph is acyclic and ends in nil.",
		NotDecided: "the linear time bound, and the absence of runtime-error panics (index/nil faults), which parse's recover deliberately re-panics.",
		Assumes:    []string{"go/types resolution of callees", "the standard library predicates met (unicode.Is*, strings.IndexRune) behave as tabulated for the constant eof"},
	})
}
