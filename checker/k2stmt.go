package main

import (
	"go/ast"
	"go/constant"
	"go/token"
	"go/types"
)

func (ev *evaluator) execBlock(list []ast.Stmt, st state, info *types.Info) []completion {
	cur := []state{st}
	var done []completion
	for _, s := range list {
		var next []state
		for _, c := range cur {
			for _, cp := range ev.execStmt(s, c, info) {
				if cp.kind == cNormal {
					next = append(next, cp.st)
				} else {
					done = append(done, cp)
				}
			}
		}
		next = dedupeStates(next)
		if len(next) > maxFork {
			ev.note("fork cap reached in block")
			next = next[:maxFork]
		}
		cur = next
		if len(cur) == 0 {
			break
		}
	}
	for _, c := range cur {
		done = append(done, completion{kind: cNormal, st: c})
	}
	return done
}

func dedupeStates(ss []state) []state {
	if len(ss) < 2 {
		return ss
	}
	seen := map[string]bool{}
	var out []state
	for _, s := range ss {
		k := s.env.key()
		if s.tr != nil {
			// different traces are kept apart only when events are watched
			k += "|" + traceKey(s.tr)
		}
		if seen[k] {
			continue
		}
		seen[k] = true
		out = append(out, s)
	}
	return out
}

func traceKey(t *trace) string {
	s := ""
	for ; t != nil; t = t.prev {
		s += t.ev.name + "@" + itoa(int(t.ev.pos)) + ","
	}
	return s
}

// evalToStates evaluates an expression for effects and returns the live
// states together with dead (noreturn/spin) completions.
func (ev *evaluator) evalLive(e ast.Expr, st state, info *types.Info) (live []eres, dead []completion) {
	for _, r := range ev.evalExpr(e, st, info) {
		switch {
		case r.noret:
			dead = append(dead, completion{kind: cNoReturn, st: r.st})
		case r.spin:
			dead = append(dead, completion{kind: cSpin, st: r.st})
		default:
			live = append(live, r)
		}
	}
	return
}

func (ev *evaluator) assign(lhs ast.Expr, v aval, st state, info *types.Info, define bool) state {
	id, ok := ast.Unparen(lhs).(*ast.Ident)
	if !ok {
		// field/index store: if it is tok.field on a tracked struct, update it; else ignore
		if se, ok := lhs.(*ast.SelectorExpr); ok {
			if x, ok := ast.Unparen(se.X).(*ast.Ident); ok {
				if obj := info.Uses[x]; obj != nil {
					if cur, ok := st.env[obj]; ok && cur.k == avStruct {
						n := aval{k: avStruct, fields: map[string]aval{}}
						for k, f := range cur.fields {
							n.fields[k] = f
						}
						n.fields[se.Sel.Name] = v
						e := st.env.clone()
						e[obj] = n
						return state{env: e, tr: st.tr}
					}
				}
			}
		}
		return st
	}
	if id.Name == "_" {
		return st
	}
	obj := info.Defs[id]
	if obj == nil {
		obj = info.Uses[id]
	}
	if obj == nil {
		return st
	}
	e := st.env.clone()
	e[obj] = v
	return state{env: e, tr: st.tr}
}

func (ev *evaluator) execStmt(s ast.Stmt, st state, info *types.Info) []completion {
	ev.steps++
	if ev.steps > ev.budget {
		ev.note("budget exhausted")
		return []completion{{kind: cNormal, st: st}}
	}
	if ev.stmtHook != nil && s != nil {
		if e := ev.stmtHook(s, st, info); e != nil {
			st.tr = &trace{ev: *e, prev: st.tr}
		}
	}
	switch s := s.(type) {
	case nil:
		return []completion{{kind: cNormal, st: st}}
	case *ast.BlockStmt:
		return ev.execBlock(s.List, st, info)
	case *ast.EmptyStmt:
		return []completion{{kind: cNormal, st: st}}
	case *ast.ExprStmt:
		live, dead := ev.evalLive(s.X, st, info)
		for _, r := range live {
			dead = append(dead, completion{kind: cNormal, st: r.st})
		}
		return dead
	case *ast.DeclStmt:
		gd, ok := s.Decl.(*ast.GenDecl)
		if !ok || gd.Tok != token.VAR {
			return []completion{{kind: cNormal, st: st}}
		}
		cur := []state{st}
		var dead []completion
		for _, sp := range gd.Specs {
			vs := sp.(*ast.ValueSpec)
			var next []state
			for _, c := range cur {
				ns, d := ev.execAssign(identExprs(vs.Names), vs.Values, c, info, true, vs.Values == nil)
				next = append(next, ns...)
				dead = append(dead, d...)
			}
			cur = next
		}
		for _, c := range cur {
			dead = append(dead, completion{kind: cNormal, st: c})
		}
		return dead
	case *ast.AssignStmt:
		if s.Tok != token.ASSIGN && s.Tok != token.DEFINE {
			// op-assign: constants fold (x += "lit", n -= 1); anything else makes the target unknown
			live, dead := ev.evalLive(s.Rhs[0], st, info)
			for _, r := range live {
				nv := unknown
				var op token.Token
				switch s.Tok {
				case token.ADD_ASSIGN:
					op = token.ADD
				case token.SUB_ASSIGN:
					op = token.SUB
				case token.MUL_ASSIGN:
					op = token.MUL
				}
				if op != 0 {
					for _, cur := range ev.evalExpr(s.Lhs[0], r.st, info) {
						if !cur.noret && !cur.spin {
							nv = binop(op, cur.v, r.v)
						}
					}
				}
				dead = append(dead, completion{kind: cNormal, st: ev.assign(s.Lhs[0], nv, r.st, info, false)})
			}
			return dead
		}
		ns, dead := ev.execAssign(s.Lhs, s.Rhs, st, info, s.Tok == token.DEFINE, false)
		for _, c := range ns {
			dead = append(dead, completion{kind: cNormal, st: c})
		}
		return dead
	case *ast.IncDecStmt:
		nv := unknown
		for _, cur := range ev.evalExpr(s.X, st, info) {
			if !cur.noret && !cur.spin && cur.v.k == avConst && cur.v.c.Kind() == constant.Int {
				op := token.ADD
				if s.Tok == token.DEC {
					op = token.SUB
				}
				nv = binop(op, cur.v, constVal(constant.MakeInt64(1)))
			}
		}
		return []completion{{kind: cNormal, st: ev.assign(s.X, nv, st, info, false)}}
	case *ast.ReturnStmt:
		cur := []struct {
			vals []aval
			st   state
		}{{st: st}}
		var dead []completion
		for _, r := range s.Results {
			var next []struct {
				vals []aval
				st   state
			}
			for _, c := range cur {
				live, d := ev.evalLive(r, c.st, info)
				dead = append(dead, d...)
				for _, l := range live {
					next = append(next, struct {
						vals []aval
						st   state
					}{append(append([]aval{}, c.vals...), l.v), l.st})
				}
			}
			cur = next
		}
		for _, c := range cur {
			vals := c.vals
			// a single call returning a tuple
			if len(vals) == 1 && vals[0].k == avStruct {
				if _, ok := vals[0].fields["#0"]; ok {
					var t []aval
					for i := 0; ; i++ {
						f, ok := vals[0].fields["#"+itoa(i)]
						if !ok {
							break
						}
						t = append(t, f)
					}
					vals = t
				}
			}
			dead = append(dead, completion{kind: cReturn, vals: vals, st: c.st})
		}
		return dead
	case *ast.BranchStmt:
		lbl := ""
		if s.Label != nil {
			lbl = s.Label.Name
		}
		switch s.Tok {
		case token.BREAK:
			return []completion{{kind: cBreak, label: lbl, st: st}}
		case token.CONTINUE:
			return []completion{{kind: cContinue, label: lbl, st: st}}
		case token.FALLTHROUGH:
			return []completion{{kind: cFallthrough, st: st}}
		default:
			ev.note("goto")
			return []completion{{kind: cNormal, st: st}}
		}
	case *ast.LabeledStmt:
		comps := ev.execStmtLabeled(s.Stmt, s.Label.Name, st, info)
		return comps
	case *ast.IfStmt:
		return ev.execIf(s, st, info)
	case *ast.SwitchStmt:
		return ev.execSwitch(s, "", st, info)
	case *ast.TypeSwitchStmt:
		return ev.execTypeSwitch(s, "", st, info)
	case *ast.ForStmt:
		return ev.execFor(s, "", st, info)
	case *ast.RangeStmt:
		return ev.execRange(s, "", st, info)
	case *ast.DeferStmt, *ast.GoStmt:
		return []completion{{kind: cNormal, st: st}}
	case *ast.SendStmt:
		live, dead := ev.evalLive(s.Value, st, info)
		for _, r := range live {
			dead = append(dead, completion{kind: cNormal, st: r.st})
		}
		return dead
	case *ast.SelectStmt:
		ev.note("select")
		return []completion{{kind: cNormal, st: st}}
	}
	ev.note("unhandled statement")
	return []completion{{kind: cNormal, st: st}}
}

func itoa(i int) string {
	if i == 0 {
		return "0"
	}
	s := ""
	for i > 0 {
		s = string(rune('0'+i%10)) + s
		i /= 10
	}
	return s
}

func identExprs(ids []*ast.Ident) []ast.Expr {
	var out []ast.Expr
	for _, i := range ids {
		out = append(out, i)
	}
	return out
}

func (ev *evaluator) execStmtLabeled(s ast.Stmt, label string, st state, info *types.Info) []completion {
	switch s := s.(type) {
	case *ast.ForStmt:
		return ev.execFor(s, label, st, info)
	case *ast.RangeStmt:
		return ev.execRange(s, label, st, info)
	case *ast.SwitchStmt:
		return ev.execSwitch(s, label, st, info)
	case *ast.TypeSwitchStmt:
		return ev.execTypeSwitch(s, label, st, info)
	}
	return ev.execStmt(s, st, info)
}

func (ev *evaluator) execAssign(lhs, rhs []ast.Expr, st state, info *types.Info, define, zero bool) (live []state, dead []completion) {
	if zero {
		cur := st
		for _, l := range lhs {
			cur = ev.assign(l, unknown, cur, info, define)
		}
		return []state{cur}, nil
	}
	if len(rhs) == 1 && len(lhs) > 1 {
		rs, d := ev.evalLive(rhs[0], st, info)
		dead = d
		if ix, ok := ast.Unparen(rhs[0]).(*ast.IndexExpr); ok && len(lhs) == 2 {
			if trs, ok := ev.tableLookup(ix, st, info); ok {
				rs, dead = trs, nil
			}
		}
		for _, r := range rs {
			cur := r.st
			for i, l := range lhs {
				v := unknown
				if r.v.k == avStruct {
					if f, ok := r.v.fields["#"+itoa(i)]; ok {
						v = f
					}
				}
				cur = ev.assign(l, v, cur, info, define)
			}
			live = append(live, cur)
		}
		return
	}
	type part struct {
		vals []aval
		st   state
	}
	cur := []part{{st: st}}
	for _, r := range rhs {
		var next []part
		for _, c := range cur {
			rs, d := ev.evalLive(r, c.st, info)
			dead = append(dead, d...)
			for _, x := range rs {
				next = append(next, part{append(append([]aval{}, c.vals...), x.v), x.st})
			}
		}
		cur = next
	}
	for _, c := range cur {
		s := c.st
		for i, l := range lhs {
			if i < len(c.vals) {
				s = ev.assign(l, c.vals[i], s, info, define)
			}
		}
		live = append(live, s)
	}
	return
}

func (ev *evaluator) execIf(s *ast.IfStmt, st state, info *types.Info) []completion {
	var out []completion
	inits := []state{st}
	if s.Init != nil {
		inits = nil
		for _, cp := range ev.execStmt(s.Init, st, info) {
			if cp.kind == cNormal {
				inits = append(inits, cp.st)
			} else {
				out = append(out, cp)
			}
		}
	}
	for _, is := range inits {
		live, dead := ev.evalLive(s.Cond, is, info)
		out = append(out, dead...)
		for _, r := range live {
			if !r.v.isFalse() {
				out = append(out, ev.execBlock(s.Body.List, r.st, info)...)
			}
			if !r.v.isTrue() {
				if s.Else != nil {
					out = append(out, ev.execStmt(s.Else, r.st, info)...)
				} else {
					out = append(out, completion{kind: cNormal, st: r.st})
				}
			}
		}
	}
	return out
}

func (ev *evaluator) execSwitch(s *ast.SwitchStmt, label string, st state, info *types.Info) []completion {
	var out []completion
	inits := []state{st}
	if s.Init != nil {
		inits = nil
		for _, cp := range ev.execStmt(s.Init, st, info) {
			if cp.kind == cNormal {
				inits = append(inits, cp.st)
			} else {
				out = append(out, cp)
			}
		}
	}
	type tagged struct {
		tag aval
		st  state
	}
	var tags []tagged
	for _, is := range inits {
		if s.Tag == nil {
			tags = append(tags, tagged{boolVal(true), is})
			continue
		}
		live, dead := ev.evalLive(s.Tag, is, info)
		out = append(out, dead...)
		for _, r := range live {
			tags = append(tags, tagged{r.v, r.st})
		}
	}
	clauses := s.Body.List
	for _, tg := range tags {
		// states that have not matched any earlier clause
		pending := []state{tg.st}
		defIdx := -1
		for ci, cs := range clauses {
			cc := cs.(*ast.CaseClause)
			if cc.List == nil {
				defIdx = ci
				continue
			}
			for _, ce := range cc.List {
				var still []state
				for _, ps := range pending {
					live, dead := ev.evalLive(ce, ps, info)
					out = append(out, dead...)
					for _, r := range live {
						var m aval
						if s.Tag == nil {
							m = r.v
						} else {
							m = binop(token.EQL, tg.tag, r.v)
						}
						if !m.isFalse() {
							out = append(out, ev.runClauses(clauses, ci, r.st, info)...)
						}
						if !m.isTrue() {
							still = append(still, r.st)
						}
					}
				}
				pending = dedupeStates(still)
			}
		}
		for _, ps := range pending {
			if defIdx >= 0 {
				out = append(out, ev.runClauses(clauses, defIdx, ps, info)...)
			} else {
				out = append(out, completion{kind: cNormal, st: ps})
			}
		}
	}
	// breaks targeting this switch become normal
	for i := range out {
		if out[i].kind == cBreak && (out[i].label == "" || out[i].label == label) {
			out[i].kind = cNormal
			out[i].label = ""
		}
	}
	return out
}

func (ev *evaluator) runClauses(clauses []ast.Stmt, idx int, st state, info *types.Info) []completion {
	var out []completion
	cc := clauses[idx].(*ast.CaseClause)
	for _, cp := range ev.execBlock(cc.Body, st, info) {
		if cp.kind == cFallthrough && idx+1 < len(clauses) {
			out = append(out, ev.runClauses(clauses, idx+1, cp.st, info)...)
		} else {
			out = append(out, cp)
		}
	}
	return out
}

func (ev *evaluator) execTypeSwitch(s *ast.TypeSwitchStmt, label string, st state, info *types.Info) []completion {
	var out []completion
	inits := []state{st}
	if s.Init != nil {
		inits = nil
		for _, cp := range ev.execStmt(s.Init, st, info) {
			if cp.kind == cNormal {
				inits = append(inits, cp.st)
			} else {
				out = append(out, cp)
			}
		}
	}
	// evaluate the asserted expression for effects
	var x ast.Expr
	switch a := s.Assign.(type) {
	case *ast.ExprStmt:
		x = a.X.(*ast.TypeAssertExpr).X
	case *ast.AssignStmt:
		x = a.Rhs[0].(*ast.TypeAssertExpr).X
	}
	for _, is := range inits {
		live, dead := ev.evalLive(x, is, info)
		out = append(out, dead...)
		for _, r := range live {
			hasDefault := false
			for _, cs := range s.Body.List {
				cc := cs.(*ast.CaseClause)
				if cc.List == nil {
					hasDefault = true
				}
				out = append(out, ev.execBlock(cc.Body, r.st, info)...)
			}
			if !hasDefault {
				out = append(out, completion{kind: cNormal, st: r.st})
			}
		}
	}
	for i := range out {
		if out[i].kind == cBreak && (out[i].label == "" || out[i].label == label) {
			out[i].kind = cNormal
			out[i].label = ""
		}
	}
	return out
}

// assignedIn collects the local objects assigned anywhere inside n.
func assignedIn(n ast.Node, info *types.Info) []types.Object {
	var out []types.Object
	add := func(e ast.Expr) {
		if id, ok := ast.Unparen(e).(*ast.Ident); ok {
			if o := info.Uses[id]; o != nil {
				out = append(out, o)
			} else if o := info.Defs[id]; o != nil {
				out = append(out, o)
			}
		}
		if se, ok := e.(*ast.SelectorExpr); ok {
			if id, ok := ast.Unparen(se.X).(*ast.Ident); ok {
				if o := info.Uses[id]; o != nil {
					out = append(out, o)
				}
			}
		}
	}
	ast.Inspect(n, func(n ast.Node) bool {
		switch s := n.(type) {
		case *ast.AssignStmt:
			for _, l := range s.Lhs {
				add(l)
			}
		case *ast.IncDecStmt:
			add(s.X)
		case *ast.RangeStmt:
			if s.Key != nil {
				add(s.Key)
			}
			if s.Value != nil {
				add(s.Value)
			}
		}
		return true
	})
	return out
}

func havoc(st state, objs []types.Object) state {
	if len(objs) == 0 {
		return st
	}
	e := st.env.clone()
	for _, o := range objs {
		delete(e, o)
	}
	return state{env: e, tr: st.tr}
}

func (ev *evaluator) execRange(s *ast.RangeStmt, label string, st state, info *types.Info) []completion {
	var out []completion
	live, dead := ev.evalLive(s.X, st, info)
	out = append(out, dead...)
	objs := assignedIn(s, info)
	var keyObj types.Object
	var rangeVars []types.Object
	for i, e := range []ast.Expr{s.Key, s.Value} {
		if id, ok := e.(*ast.Ident); ok && id.Name != "_" {
			o := info.Defs[id]
			if o == nil {
				o = info.Uses[id]
			}
			if o != nil {
				rangeVars = append(rangeVars, o)
				if i == 0 {
					keyObj = o
				}
			}
		}
	}
	// over a slice, array or string the key is the iteration number
	indexed := false
	if tv, ok := info.Types[s.X]; ok {
		switch tv.Type.Underlying().(type) {
		case *types.Slice, *types.Array, *types.Pointer:
			indexed = true
		}
	}
	type item struct {
		st   state
		iter int
	}
	for _, r := range live {
		// abstract fixpoint over the states reachable after 0, 1, 2, ... iterations
		seen := map[string]bool{}
		visits := map[string]int{}
		work := []item{{r.st, 0}}
		overflow := false
		for len(work) > 0 {
			cur := work[len(work)-1]
			work = work[:len(work)-1]
			base := havoc(cur.st, rangeVars)
			k := base.env.key()
			if cur.st.tr != nil {
				// with events recorded, the same abstract state reached with a longer trace is a new path,
				// but only for the first few visits (0, 1, 2 iterations show the emitted shape)
				if visits[k] >= 3 {
					continue
				}
				visits[k]++
				k += "|" + traceKey(cur.st.tr)
			}
			if cur.iter <= 2 && indexed {
				k += "|#" + itoa(cur.iter)
			}
			if seen[k] {
				continue
			}
			seen[k] = true
			if len(seen) > 32 {
				overflow = true
				break
			}
			// leaving the loop after this many iterations
			out = append(out, completion{kind: cNormal, st: base})
			if cur.st.tr != nil && cur.iter >= 3 {
				continue // shape enumeration: three iterations show every emitted pattern
			}
			body := base
			if indexed && keyObj != nil && cur.iter <= 2 {
				e := body.env.clone()
				e[keyObj] = constVal(constant.MakeInt64(int64(cur.iter)))
				body = state{env: e, tr: body.tr}
			}
			for _, cp := range ev.execBlock(s.Body.List, body, info) {
				mine := cp.label == "" || cp.label == label
				switch {
				case cp.kind == cNormal, cp.kind == cContinue && mine:
					work = append(work, item{cp.st, cur.iter + 1})
				case cp.kind == cBreak && mine:
					out = append(out, completion{kind: cNormal, st: havoc(cp.st, rangeVars)})
				default:
					out = append(out, cp)
				}
			}
		}
		if overflow {
			ev.note("range fixpoint overflow; assigned variables forgotten")
			out = append(out, completion{kind: cNormal, st: havoc(r.st, objs)})
		}
	}
	return out
}

// loopReads reports whether the for statement contains a read primitive call
// (directly or in a callee that is itself classified as reading).
func (ev *evaluator) loopReads(s ast.Node, info *types.Info) bool {
	if v, ok := ev.readsIn[s]; ok {
		return v
	}
	found := false
	ast.Inspect(s, func(n ast.Node) bool {
		if found {
			return false
		}
		if _, ok := n.(*ast.FuncLit); ok {
			return false
		}
		if call, ok := n.(*ast.CallExpr); ok {
			if fn := ev.calleeOf(call, info); fn != nil && ev.h.isRead(fn) {
				found = true
			}
		}
		return true
	})
	ev.readsIn[s] = found
	return found
}

const unroll = 4

// loopResult describes how paths through a loop end under the hypothesis.
type loopResult struct {
	exits []completion // completions that leave the loop (normal after loop, return, noreturn, outer break/continue)
	spins []state      // head states from which the loop can repeat without change
}

func (ev *evaluator) runLoop(s *ast.ForStmt, label string, heads []state, info *types.Info) loopResult {
	var res loopResult
	type headState struct {
		st   state
		seen map[string]bool
		n    int
	}
	var work []headState
	for _, h := range heads {
		work = append(work, headState{st: h, seen: map[string]bool{}})
	}
	for len(work) > 0 {
		h := work[len(work)-1]
		work = work[:len(work)-1]
		k := h.st.env.key()
		if h.seen[k] || h.n >= unroll {
			res.spins = append(res.spins, h.st)
			continue
		}
		seen := map[string]bool{k: true}
		for x := range h.seen {
			seen[x] = true
		}
		// condition
		bodyStates := []state{h.st}
		if s.Cond != nil {
			bodyStates = nil
			live, dead := ev.evalLive(s.Cond, h.st, info)
			res.exits = append(res.exits, dead...)
			for _, r := range live {
				if !r.v.isTrue() {
					res.exits = append(res.exits, completion{kind: cNormal, st: r.st})
				}
				if !r.v.isFalse() {
					bodyStates = append(bodyStates, r.st)
				}
			}
		}
		for _, bs := range bodyStates {
			for _, cp := range ev.execBlock(s.Body.List, bs, info) {
				mine := cp.label == "" || cp.label == label
				switch {
				case cp.kind == cBreak && mine:
					res.exits = append(res.exits, completion{kind: cNormal, st: cp.st})
				case cp.kind == cNormal || (cp.kind == cContinue && mine):
					posts := []state{cp.st}
					if s.Post != nil {
						posts = nil
						for _, pc := range ev.execStmt(s.Post, cp.st, info) {
							if pc.kind == cNormal {
								posts = append(posts, pc.st)
							} else {
								res.exits = append(res.exits, pc)
							}
						}
					}
					for _, p := range posts {
						work = append(work, headState{st: p, seen: seen, n: h.n + 1})
					}
				default:
					res.exits = append(res.exits, cp)
				}
			}
		}
		if len(work) > 4*maxFork {
			ev.note("loop work cap")
			break
		}
	}
	return res
}

func (ev *evaluator) execFor(s *ast.ForStmt, label string, st state, info *types.Info) []completion {
	var out []completion
	inits := []state{st}
	if s.Init != nil {
		inits = nil
		for _, cp := range ev.execStmt(s.Init, st, info) {
			if cp.kind == cNormal {
				inits = append(inits, cp.st)
			} else {
				out = append(out, cp)
			}
		}
	}
	if !ev.loopReads(s, info) {
		// a loop that does not read input: not this kit's concern; havoc what it
		// assigns, run the body once for its effects and assume it ends.
		objs := assignedIn(s, info)
		for _, is := range inits {
			// a condition that is constant false at the head: the loop is not entered
			if s.Cond != nil {
				if rs := ev.evalExpr(s.Cond, is, info); len(rs) == 1 && rs[0].v.k == avConst && rs[0].v.c.Kind() == constant.Bool && !constant.BoolVal(rs[0].v.c) {
					out = append(out, completion{kind: cNormal, st: rs[0].st})
					continue
				}
			}
			h := havoc(is, objs)
			if s.Cond != nil {
				out = append(out, completion{kind: cNormal, st: h})
			}
			for _, cp := range ev.execBlock(s.Body.List, h, info) {
				mine := cp.label == "" || cp.label == label
				switch {
				case cp.kind == cNormal, cp.kind == cContinue && mine:
					if s.Cond != nil {
						out = append(out, completion{kind: cNormal, st: havoc(cp.st, objs)})
					}
					// `for {}` without a condition only leaves through break/return
				case cp.kind == cBreak && mine:
					out = append(out, completion{kind: cNormal, st: havoc(cp.st, objs)})
				default:
					out = append(out, cp)
				}
			}
		}
		return out
	}
	res := ev.runLoop(s, label, inits, info)
	out = append(out, res.exits...)
	for _, sp := range res.spins {
		out = append(out, completion{kind: cSpin, st: sp})
	}
	return out
}
