package main

import (
	"fmt"
	"go/ast"
	"go/constant"
	"go/types"
	"os"
	"path/filepath"
	"regexp"
	"sort"
	"strconv"
	"strings"
)

// jsUnescape decodes the escapes used in soyutils.js string and regexp-class literals.
func jsUnescape(s string) string {
	var out []rune
	rs := []rune(s)
	for i := 0; i < len(rs); i++ {
		if rs[i] != '\\' || i+1 >= len(rs) {
			out = append(out, rs[i])
			continue
		}
		i++
		switch rs[i] {
		case 'x':
			if i+3 <= len(rs) {
				if v, err := strconv.ParseUint(string(rs[i+1:i+3]), 16, 32); err == nil {
					out = append(out, rune(v))
					i += 2
					continue
				}
			}
			out = append(out, 'x')
		case 'u':
			if i+5 <= len(rs) {
				if v, err := strconv.ParseUint(string(rs[i+1:i+5]), 16, 32); err == nil {
					out = append(out, rune(v))
					i += 4
					continue
				}
			}
			out = append(out, 'u')
		case 'n':
			out = append(out, '\n')
		case 'r':
			out = append(out, '\r')
		case 't':
			out = append(out, '\t')
		default:
			out = append(out, rs[i])
		}
	}
	return string(out)
}

var (
	reEscHTMLMatcher = regexp.MustCompile(`\$\$MATCHER_FOR_ESCAPE_HTML_\s*=\s*/\[((?:\\.|[^\]\\])*)\]/g`)
	reEscHTMLMap     = regexp.MustCompile(`(?s)\$\$ESCAPE_MAP_FOR_ESCAPE_HTML__[A-Z_]*\s*=\s*\{(.*?)\n\};`)
	reMapEntry       = regexp.MustCompile(`'((?:\\.|[^'\\])*)'\s*:\s*'((?:\\.|[^'\\])*)'`)
)

// R04j: the two backends escape the same characters with the same references. The Go side is the
// renderer's escaper switch (R03c); the JavaScript side is soy.$$escapeHtml's matcher and map in the
// runtime library shipped in the repository (soyjs/lib/soyutils.js), read from the tree on every run.
func ruleR04j(c *Ctx) {
	p := c.pkg("soyhtml")
	fd, sw := findEscaper(c)
	if p == nil || fd == nil {
		return
	}
	_ = p.TypesInfo
	goTab := map[rune]string{}
	for ch, ent := range sw.entries {
		repl := ent.repl
		if !ent.found {
			repl = "?"
		}
		goTab[ch] = repl
	}
	path := filepath.Join(c.Repo, "soyjs", "lib", "soyutils.js")
	src, err := os.ReadFile(path)
	if err != nil {
		c.fatalf("anchor: %s not readable: %v", path, err)
		return
	}
	mm := reEscHTMLMatcher.FindSubmatch(src)
	mp := reEscHTMLMap.FindSubmatch(src)
	if mm == nil || mp == nil {
		c.fatalf("anchor: soy.esc.$$MATCHER_FOR_ESCAPE_HTML_ / $$ESCAPE_MAP_FOR_ESCAPE_HTML__ not found in soyutils.js")
		return
	}
	jsMap := map[rune]string{}
	for _, e := range reMapEntry.FindAllSubmatch(mp[1], -1) {
		k := []rune(jsUnescape(string(e[1])))
		if len(k) == 1 {
			jsMap[k[0]] = jsUnescape(string(e[2]))
		}
	}
	jsTab := map[rune]string{}
	for _, ch := range jsUnescape(string(mm[1])) {
		jsTab[ch] = jsMap[ch]
	}
	all := map[rune]bool{}
	for ch := range goTab {
		all[ch] = true
	}
	for ch := range jsTab {
		all[ch] = true
	}
	var chars []int
	for ch := range all {
		chars = append(chars, int(ch))
	}
	sort.Ints(chars)
	for _, ci := range chars {
		ch := rune(ci)
		g, gok := goTab[ch]
		j, jok := jsTab[ch]
		key := fmt.Sprintf("escape-table U+%04X", ci)
		switch {
		case gok && jok && g == j:
			c.ok("R04j", key, sw.Pos(), fmt.Sprintf("both backends write %q", g))
		case gok && jok:
			c.bad("R04j", key, sw.Pos(), fmt.Sprintf("the Go renderer writes %q for %q, the JavaScript runtime %q: the same template prints different text", g, string(ch), j))
		case gok:
			c.bad("R04j", key, sw.Pos(), fmt.Sprintf("the Go renderer replaces %q by %q, the JavaScript runtime's escapeHtml leaves it", string(ch), g))
		default:
			c.bad("R04j", key, sw.Pos(), fmt.Sprintf("the JavaScript runtime's escapeHtml replaces %q by %q, the Go renderer writes it unchanged", string(ch), j))
		}
	}
	c.floor("R04j", "characters in either escape table", 5, len(chars))
}

var reTruncRoom = regexp.MustCompile(`(?s)soy\.\$\$truncate\s*=\s*function.*?if\s*\(\s*maxLen\s*(>=|>)\s*(\d+)\s*\)\s*\{\s*maxLen\s*-=\s*(\d+)`)

// R04p: the two truncate implementations make room for the ellipsis under the same condition and by the same
// amount. JavaScript (soy.$$truncate in the runtime library of the tree): `if (maxLen > K) maxLen -= D`.
// Go (directiveTruncate): the branch that shortens the limit, with its condition normalised (constants and
// len of constants folded). A different threshold changes the output at exactly that limit.
func ruleR04p(c *Ctx) {
	p := c.pkg("soyhtml")
	fd := c.mustFunc("soyhtml", "directiveTruncate")
	if p == nil || fd == nil {
		return
	}
	info := p.TypesInfo
	src, err := os.ReadFile(filepath.Join(c.Repo, "soyjs", "lib", "soyutils.js"))
	if err != nil {
		c.fatalf("anchor: soyutils.js not readable: %v", err)
		return
	}
	m := reTruncRoom.FindSubmatch(src)
	if m == nil {
		c.fatalf("anchor: the ellipsis-room test of soy.$$truncate not found in soyutils.js")
		return
	}
	jsOp := string(m[1])
	jsK, _ := strconv.ParseInt(string(m[2]), 10, 64)
	jsD, _ := strconv.ParseInt(string(m[3]), 10, 64)
	jsMin := jsK + 1 // smallest limit that is shortened
	if jsOp == ">=" {
		jsMin = jsK
	}
	// Go: the directive is evaluated (K2) for every limit L from 0 to a few past the threshold, with a value
	// longer than any of them and the default ellipsis argument: the bound at which the text is cut and
	// whether "..." is appended are read off each completing path, however the tests are arranged.
	type outcome struct {
		cut      int64
		ellipsis bool
	}
	var mismatch []string
	decided, undecided := 0, 0
	for L := int64(0); L <= jsK+4; L++ {
		ev := newEvaluator(c, truncHypo{L: L, info: info})
		ev.watchLit = "..."
		ev.watchSlice = true
		comps := ev.execBlock(fd.Body.List, state{env: env{}}, info)
		seen := map[outcome]bool{}
		for _, cp := range comps {
			if cp.kind != cReturn {
				continue
			}
			o, cuts := outcome{}, 0
			for _, e := range cp.st.tr.list() {
				switch {
				case strings.HasPrefix(e.name, "slice-high:"):
					o.cut, _ = strconv.ParseInt(strings.TrimPrefix(e.name, "slice-high:"), 10, 64)
					cuts++
				case strings.HasPrefix(e.name, "lit:"):
					o.ellipsis = true
				}
			}
			if cuts == 1 {
				seen[o] = true
			}
		}
		want := outcome{cut: L}
		if L >= jsMin {
			want = outcome{cut: L - jsD, ellipsis: true}
		}
		switch {
		case len(seen) == 0:
			undecided++
		case len(seen) == 1 && seen[want]:
			decided++
		default:
			decided++
			for o := range seen {
				if o != want {
					mismatch = append(mismatch, fmt.Sprintf("limit %d: Go cuts at %d (ellipsis %v), JavaScript at %d (ellipsis %v)", L, o.cut, o.ellipsis, want.cut, want.ellipsis))
				}
			}
		}
	}
	sort.Strings(mismatch)
	key := "soyhtml.directiveTruncate ellipsis-room"
	switch {
	case undecided > 0:
		c.unk("R04p", key, fd.Pos(), fmt.Sprintf("for %d of %d limits no path of the directive cuts its text at a bound the evaluator could fold", undecided, jsK+5))
	case len(mismatch) > 0:
		c.bad("R04p", key, fd.Pos(), "the two backends make room for the ellipsis differently: "+strings.Join(mismatch, "; "))
	default:
		c.ok("R04p", key, fd.Pos(), fmt.Sprintf("for every limit 0..%d both backends cut at the same bound (shortened by %d from a limit of %d on) and append the ellipsis alike", jsK+4, jsD, jsMin))
	}
	c.floor("R04p", "limits evaluated through directiveTruncate", int(jsK+5), decided+undecided)
}

// truncHypo: the truncate directive called with an integer limit L, no second argument, and a value longer
// than any limit tried, all of whose bytes start a character.
type truncHypo struct {
	L    int64
	info *types.Info
}

func (h truncHypo) expr(ev *evaluator, e ast.Expr, info *types.Info) (aval, bool) {
	call, ok := e.(*ast.CallExpr)
	if !ok || len(call.Args) != 1 {
		return unknown, false
	}
	if tv, ok := info.Types[call.Fun]; ok && tv.IsType() {
		if b, ok := tv.Type.Underlying().(*types.Basic); ok && b.Info()&types.IsInteger != 0 {
			if atv, ok := info.Types[call.Args[0]]; ok && atv.Value == nil {
				return constVal(constant.MakeInt64(h.L)), true
			}
		}
		return unknown, false
	}
	if id, ok := call.Fun.(*ast.Ident); ok {
		if bi, ok := info.Uses[id].(*types.Builtin); ok && bi.Name() == "len" {
			if atv, ok := info.Types[call.Args[0]]; ok && atv.Value == nil {
				switch u := atv.Type.Underlying().(type) {
				case *types.Basic:
					if u.Info()&types.IsString != 0 {
						return constVal(constant.MakeInt64(1000)), true
					}
				case *types.Slice:
					return constVal(constant.MakeInt64(1)), true
				}
			}
		}
	}
	return unknown, false
}
func (h truncHypo) prim(ev *evaluator, fn *types.Func, call *ast.CallExpr, st state) (aval, bool) {
	if fn != nil && fn.Pkg() != nil && fn.Pkg().Path() == "unicode/utf8" && fn.Name() == "RuneStart" {
		return boolVal(true), true
	}
	return unknown, false
}
func (h truncHypo) isRead(fn *types.Func) bool { return false }
