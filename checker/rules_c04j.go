package main

import (
	"fmt"
	"go/ast"
	"go/constant"
	"go/token"
	"os"
	"path/filepath"
	"regexp"
	"sort"
	"strconv"
)

// jsUnescape decodes the escapes used in soyutils.js string and regexp-class literals.
func jsUnescape(s string) string {
	var out []rune
	rs := []rune(s)
	for i := 0; i < len(rs); i++ {
		if rs[i] != '\\' || i+1 >= len(rs) {
			out = append(out, rs[i])
			continue
		}
		i++
		switch rs[i] {
		case 'x':
			if i+3 <= len(rs) {
				if v, err := strconv.ParseUint(string(rs[i+1:i+3]), 16, 32); err == nil {
					out = append(out, rune(v))
					i += 2
					continue
				}
			}
			out = append(out, 'x')
		case 'u':
			if i+5 <= len(rs) {
				if v, err := strconv.ParseUint(string(rs[i+1:i+5]), 16, 32); err == nil {
					out = append(out, rune(v))
					i += 4
					continue
				}
			}
			out = append(out, 'u')
		case 'n':
			out = append(out, '\n')
		case 'r':
			out = append(out, '\r')
		case 't':
			out = append(out, '\t')
		default:
			out = append(out, rs[i])
		}
	}
	return string(out)
}

var (
	reEscHTMLMatcher = regexp.MustCompile(`\$\$MATCHER_FOR_ESCAPE_HTML_\s*=\s*/\[((?:\\.|[^\]\\])*)\]/g`)
	reEscHTMLMap     = regexp.MustCompile(`(?s)\$\$ESCAPE_MAP_FOR_ESCAPE_HTML__[A-Z_]*\s*=\s*\{(.*?)\n\};`)
	reMapEntry       = regexp.MustCompile(`'((?:\\.|[^'\\])*)'\s*:\s*'((?:\\.|[^'\\])*)'`)
)

// R04j: the two backends escape the same characters with the same references. The Go side is the
// renderer's escaper switch (R03c); the JavaScript side is soy.$$escapeHtml's matcher and map in the
// runtime library shipped in the repository (soyjs/lib/soyutils.js), read from the tree on every run.
func ruleR04j(c *Ctx) {
	p := c.pkg("soyhtml")
	fd, sw := findEscaper(c)
	if p == nil || fd == nil {
		return
	}
	info := p.TypesInfo
	goTab := map[rune]string{}
	for _, cs := range sw.Body.List {
		cc := cs.(*ast.CaseClause)
		for _, e := range cc.List {
			tv := info.Types[e]
			if tv.Value == nil {
				continue
			}
			v, _ := constant.Int64Val(tv.Value)
			repl, found := "", false
			for _, s := range cc.Body {
				if as, ok := s.(*ast.AssignStmt); ok && len(as.Rhs) == 1 {
					repl, found = constBytes(c, info, as.Rhs[0])
				}
			}
			if !found {
				repl = "?"
			}
			goTab[rune(v)] = repl
		}
	}
	path := filepath.Join(c.Repo, "soyjs", "lib", "soyutils.js")
	src, err := os.ReadFile(path)
	if err != nil {
		c.fatalf("anchor: %s not readable: %v", path, err)
		return
	}
	mm := reEscHTMLMatcher.FindSubmatch(src)
	mp := reEscHTMLMap.FindSubmatch(src)
	if mm == nil || mp == nil {
		c.fatalf("anchor: soy.esc.$$MATCHER_FOR_ESCAPE_HTML_ / $$ESCAPE_MAP_FOR_ESCAPE_HTML__ not found in soyutils.js")
		return
	}
	jsMap := map[rune]string{}
	for _, e := range reMapEntry.FindAllSubmatch(mp[1], -1) {
		k := []rune(jsUnescape(string(e[1])))
		if len(k) == 1 {
			jsMap[k[0]] = jsUnescape(string(e[2]))
		}
	}
	jsTab := map[rune]string{}
	for _, ch := range jsUnescape(string(mm[1])) {
		jsTab[ch] = jsMap[ch]
	}
	all := map[rune]bool{}
	for ch := range goTab {
		all[ch] = true
	}
	for ch := range jsTab {
		all[ch] = true
	}
	var chars []int
	for ch := range all {
		chars = append(chars, int(ch))
	}
	sort.Ints(chars)
	for _, ci := range chars {
		ch := rune(ci)
		g, gok := goTab[ch]
		j, jok := jsTab[ch]
		key := fmt.Sprintf("escape-table U+%04X", ci)
		switch {
		case gok && jok && g == j:
			c.ok("R04j", key, sw.Pos(), fmt.Sprintf("both backends write %q", g))
		case gok && jok:
			c.bad("R04j", key, sw.Pos(), fmt.Sprintf("the Go renderer writes %q for %q, the JavaScript runtime %q: the same template prints different text", g, string(ch), j))
		case gok:
			c.bad("R04j", key, sw.Pos(), fmt.Sprintf("the Go renderer replaces %q by %q, the JavaScript runtime's escapeHtml leaves it", string(ch), g))
		default:
			c.bad("R04j", key, sw.Pos(), fmt.Sprintf("the JavaScript runtime's escapeHtml replaces %q by %q, the Go renderer writes it unchanged", string(ch), j))
		}
	}
	c.floor("R04j", "characters in either escape table", 5, len(chars))
}

var reTruncRoom = regexp.MustCompile(`(?s)soy\.\$\$truncate\s*=\s*function.*?if\s*\(\s*maxLen\s*(>=|>)\s*(\d+)\s*\)\s*\{\s*maxLen\s*-=\s*(\d+)`)

// R04p: the two truncate implementations make room for the ellipsis under the same condition and by the same
// amount. JavaScript (soy.$$truncate in the runtime library of the tree): `if (maxLen > K) maxLen -= D`.
// Go (directiveTruncate): the branch that shortens the limit, with its condition normalised (constants and
// len of constants folded). A different threshold changes the output at exactly that limit.
func ruleR04p(c *Ctx) {
	p := c.pkg("soyhtml")
	fd := c.mustFunc("soyhtml", "directiveTruncate")
	if p == nil || fd == nil {
		return
	}
	info := p.TypesInfo
	src, err := os.ReadFile(filepath.Join(c.Repo, "soyjs", "lib", "soyutils.js"))
	if err != nil {
		c.fatalf("anchor: soyutils.js not readable: %v", err)
		return
	}
	m := reTruncRoom.FindSubmatch(src)
	if m == nil {
		c.fatalf("anchor: the ellipsis-room test of soy.$$truncate not found in soyutils.js")
		return
	}
	jsOp := string(m[1])
	jsK, _ := strconv.ParseInt(string(m[2]), 10, 64)
	jsD, _ := strconv.ParseInt(string(m[3]), 10, 64)
	jsMin := jsK + 1 // smallest limit that is shortened
	if jsOp == ">=" {
		jsMin = jsK
	}
	// Go: the if statement one branch of which subtracts a constant from the limit variable
	val := func(e ast.Expr) (int64, bool) {
		if tv, ok := info.Types[e]; ok && tv.Value != nil && tv.Value.Kind() == constant.Int {
			v, exact := constant.Int64Val(tv.Value)
			return v, exact
		}
		return 0, false
	}
	found := 0
	ast.Inspect(fd.Body, func(x ast.Node) bool {
		ifs, ok := x.(*ast.IfStmt)
		if !ok {
			return true
		}
		subIn := func(b ast.Stmt) (string, int64, bool) {
			var name string
			var d int64
			okk := false
			if b == nil {
				return "", 0, false
			}
			ast.Inspect(b, func(y ast.Node) bool {
				if inner, isIf := y.(*ast.IfStmt); isIf && inner != ifs {
					return false
				}
				if as, ok := y.(*ast.AssignStmt); ok && as.Tok == token.SUB_ASSIGN && len(as.Lhs) == 1 {
					if v, ok := val(as.Rhs[0]); ok {
						name, d, okk = exprKey(as.Lhs[0]), v, true
					}
				}
				return true
			})
			return name, d, okk
		}
		thenVar, thenD, inThen := subIn(ifs.Body)
		elseVar, elseD, inElse := subIn(ifs.Else)
		if inThen == inElse {
			return true
		}
		be, ok := ast.Unparen(ifs.Cond).(*ast.BinaryExpr)
		if !ok {
			return true
		}
		limit, d := thenVar, thenD
		if inElse {
			limit, d = elseVar, elseD
		}
		// normalise the condition to "limit OP K"
		var op token.Token
		var k int64
		if exprKey(be.X) == limit {
			if v, ok := val(be.Y); ok {
				op, k = be.Op, v
			} else {
				return true
			}
		} else if exprKey(be.Y) == limit {
			if v, ok := val(be.X); ok {
				k = v
				switch be.Op { // K OP limit  ==  limit OP' K
				case token.LSS:
					op = token.GTR
				case token.LEQ:
					op = token.GEQ
				case token.GTR:
					op = token.LSS
				case token.GEQ:
					op = token.LEQ
				default:
					return true
				}
			} else {
				return true
			}
		} else {
			return true
		}
		// smallest limit for which the subtraction happens
		var goMin int64
		switch {
		case inThen && op == token.GTR:
			goMin = k + 1
		case inThen && op == token.GEQ:
			goMin = k
		case inElse && op == token.LSS: // shortened when !(limit < K)
			goMin = k
		case inElse && op == token.LEQ:
			goMin = k + 1
		default:
			return true
		}
		found++
		c.check(goMin == jsMin && d == jsD, "R04p", "soyhtml.directiveTruncate ellipsis-room", ifs.Pos(),
			fmt.Sprintf("both backends shorten the limit by %d from a limit of %d on", jsD, jsMin),
			fmt.Sprintf("the Go directive shortens the limit by %d from a limit of %d on, the JavaScript runtime by %d from %d on: at the limits in between the two backends print different text", d, goMin, jsD, jsMin))
		return true
	})
	c.floor("R04p", "ellipsis-room tests in directiveTruncate", 1, found)
}
