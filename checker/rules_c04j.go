package main

import (
	"fmt"
	"go/ast"
	"go/constant"
	"os"
	"path/filepath"
	"regexp"
	"sort"
	"strconv"
)

// jsUnescape decodes the escapes used in soyutils.js string and regexp-class literals.
func jsUnescape(s string) string {
	var out []rune
	rs := []rune(s)
	for i := 0; i < len(rs); i++ {
		if rs[i] != '\\' || i+1 >= len(rs) {
			out = append(out, rs[i])
			continue
		}
		i++
		switch rs[i] {
		case 'x':
			if i+3 <= len(rs) {
				if v, err := strconv.ParseUint(string(rs[i+1:i+3]), 16, 32); err == nil {
					out = append(out, rune(v))
					i += 2
					continue
				}
			}
			out = append(out, 'x')
		case 'u':
			if i+5 <= len(rs) {
				if v, err := strconv.ParseUint(string(rs[i+1:i+5]), 16, 32); err == nil {
					out = append(out, rune(v))
					i += 4
					continue
				}
			}
			out = append(out, 'u')
		case 'n':
			out = append(out, '\n')
		case 'r':
			out = append(out, '\r')
		case 't':
			out = append(out, '\t')
		default:
			out = append(out, rs[i])
		}
	}
	return string(out)
}

var (
	reEscHTMLMatcher = regexp.MustCompile(`\$\$MATCHER_FOR_ESCAPE_HTML_\s*=\s*/\[((?:\\.|[^\]\\])*)\]/g`)
	reEscHTMLMap     = regexp.MustCompile(`(?s)\$\$ESCAPE_MAP_FOR_ESCAPE_HTML__[A-Z_]*\s*=\s*\{(.*?)\n\};`)
	reMapEntry       = regexp.MustCompile(`'((?:\\.|[^'\\])*)'\s*:\s*'((?:\\.|[^'\\])*)'`)
)

// R04j: the two backends escape the same characters with the same references. The Go side is the
// renderer's escaper switch (R03c); the JavaScript side is soy.$$escapeHtml's matcher and map in the
// runtime library shipped in the repository (soyjs/lib/soyutils.js), read from the tree on every run.
func ruleR04j(c *Ctx) {
	p := c.pkg("soyhtml")
	fd, sw := findEscaper(c)
	if p == nil || fd == nil {
		return
	}
	info := p.TypesInfo
	goTab := map[rune]string{}
	for _, cs := range sw.Body.List {
		cc := cs.(*ast.CaseClause)
		for _, e := range cc.List {
			tv := info.Types[e]
			if tv.Value == nil {
				continue
			}
			v, _ := constant.Int64Val(tv.Value)
			repl, found := "", false
			for _, s := range cc.Body {
				if as, ok := s.(*ast.AssignStmt); ok && len(as.Rhs) == 1 {
					repl, found = constBytes(c, info, as.Rhs[0])
				}
			}
			if !found {
				repl = "?"
			}
			goTab[rune(v)] = repl
		}
	}
	path := filepath.Join(c.Repo, "soyjs", "lib", "soyutils.js")
	src, err := os.ReadFile(path)
	if err != nil {
		c.fatalf("anchor: %s not readable: %v", path, err)
		return
	}
	mm := reEscHTMLMatcher.FindSubmatch(src)
	mp := reEscHTMLMap.FindSubmatch(src)
	if mm == nil || mp == nil {
		c.fatalf("anchor: soy.esc.$$MATCHER_FOR_ESCAPE_HTML_ / $$ESCAPE_MAP_FOR_ESCAPE_HTML__ not found in soyutils.js")
		return
	}
	jsMap := map[rune]string{}
	for _, e := range reMapEntry.FindAllSubmatch(mp[1], -1) {
		k := []rune(jsUnescape(string(e[1])))
		if len(k) == 1 {
			jsMap[k[0]] = jsUnescape(string(e[2]))
		}
	}
	jsTab := map[rune]string{}
	for _, ch := range jsUnescape(string(mm[1])) {
		jsTab[ch] = jsMap[ch]
	}
	all := map[rune]bool{}
	for ch := range goTab {
		all[ch] = true
	}
	for ch := range jsTab {
		all[ch] = true
	}
	var chars []int
	for ch := range all {
		chars = append(chars, int(ch))
	}
	sort.Ints(chars)
	for _, ci := range chars {
		ch := rune(ci)
		g, gok := goTab[ch]
		j, jok := jsTab[ch]
		key := fmt.Sprintf("escape-table U+%04X", ci)
		switch {
		case gok && jok && g == j:
			c.ok("R04j", key, sw.Pos(), fmt.Sprintf("both backends write %q", g))
		case gok && jok:
			c.bad("R04j", key, sw.Pos(), fmt.Sprintf("the Go renderer writes %q for %q, the JavaScript runtime %q: the same template prints different text", g, string(ch), j))
		case gok:
			c.bad("R04j", key, sw.Pos(), fmt.Sprintf("the Go renderer replaces %q by %q, the JavaScript runtime's escapeHtml leaves it", string(ch), g))
		default:
			c.bad("R04j", key, sw.Pos(), fmt.Sprintf("the JavaScript runtime's escapeHtml replaces %q by %q, the Go renderer writes it unchanged", string(ch), j))
		}
	}
	c.floor("R04j", "characters in either escape table", 5, len(chars))
}
