package main

import (
	"fmt"
	"go/ast"
	"go/constant"
	"go/token"
	"go/types"
	"html"
	"sort"
	"strings"

	"golang.org/x/tools/go/ssa"
)

// escModel is soyhtml's own HTML escaper read as a table, whichever way it is written: a switch over a
// byte of the input with one arm per special character (replacement assigned in the arm, default arm skips),
// or a package-level table indexed by that byte (nil / absent entry skips).
type escEntry struct {
	repl  string
	found bool
	pos   token.Pos
}
type escModel struct {
	node         ast.Node // the switch, or the statement that reads the table: lies inside the scan loop
	at           token.Pos
	entries      map[rune]escEntry
	hasDefault   bool
	defaultSkips bool
	defaultPos   token.Pos
}

func (m *escModel) Pos() token.Pos { return m.at }
func (m *escModel) specials() string {
	var rs []rune
	for ch := range m.entries {
		rs = append(rs, ch)
	}
	sort.Slice(rs, func(i, j int) bool { return rs[i] < rs[j] })
	return string(rs)
}

// findEscaper locates the escaper: the function with an io.Writer parameter that replaces '<' (switch arm
// or table entry).
func findEscaper(c *Ctx) (*ast.FuncDecl, *escModel) {
	p := c.pkg("soyhtml")
	if p == nil {
		return nil, nil
	}
	info := p.TypesInfo
	for _, fd := range c.allFuncDecls("soyhtml") {
		hasWriter := false
		for _, f := range fd.Type.Params.List {
			if tv, ok := info.Types[f.Type]; ok && isIOWriter(tv.Type) {
				hasWriter = true
			}
		}
		if !hasWriter || fd.Body == nil {
			continue
		}
		var m *escModel
		ast.Inspect(fd.Body, func(x ast.Node) bool {
			if m != nil {
				return false
			}
			switch s := x.(type) {
			case *ast.SwitchStmt:
				if s.Tag == nil {
					return true
				}
				cand := &escModel{node: s, at: s.Pos(), entries: map[rune]escEntry{}}
				for _, cs := range s.Body.List {
					cc := cs.(*ast.CaseClause)
					if cc.List == nil {
						cand.hasDefault, cand.defaultPos = true, cc.Pos()
						if len(cc.Body) == 1 {
							if br, ok := cc.Body[0].(*ast.BranchStmt); ok && br.Tok == token.CONTINUE {
								cand.defaultSkips = true
							}
						}
						continue
					}
					for _, e := range cc.List {
						tv, ok := info.Types[e]
						if !ok || tv.Value == nil || tv.Value.Kind() != constant.Int {
							continue
						}
						v, _ := constant.Int64Val(tv.Value)
						ent := escEntry{pos: cc.Pos()}
						for _, st := range cc.Body {
							if as, ok := st.(*ast.AssignStmt); ok && len(as.Rhs) == 1 {
								ent.repl, ent.found = constBytes(c, info, as.Rhs[0])
							}
						}
						cand.entries[rune(v)] = ent
					}
				}
				if _, ok := cand.entries['<']; ok {
					m = cand
				}
			case *ast.AssignStmt, *ast.DeclStmt:
				// html := table[str[i]]  /  var html = table[str[i]]
				var lhs *ast.Ident
				var rhs ast.Expr
				switch d := s.(type) {
				case *ast.AssignStmt:
					if len(d.Lhs) >= 1 && len(d.Rhs) == 1 {
						lhs, _ = d.Lhs[0].(*ast.Ident)
						rhs = d.Rhs[0]
					}
				case *ast.DeclStmt:
					if gd, ok := d.Decl.(*ast.GenDecl); ok && len(gd.Specs) == 1 {
						if vs, ok := gd.Specs[0].(*ast.ValueSpec); ok && len(vs.Names) >= 1 && len(vs.Values) == 1 {
							lhs, rhs = vs.Names[0], vs.Values[0]
						}
					}
				}
				if lhs == nil || rhs == nil {
					return true
				}
				ix, ok := ast.Unparen(rhs).(*ast.IndexExpr)
				if !ok {
					return true
				}
				tbl, tpos := constIndexTable(c, info, ix.X)
				if tbl == nil {
					return true
				}
				if _, ok := tbl['<']; !ok {
					return true
				}
				cand := &escModel{node: s, at: tpos, entries: tbl}
				// the skip: if html == nil { continue }  /  if !ok { continue }
				lobj := info.Defs[lhs]
				if lobj == nil {
					lobj = info.Uses[lhs]
				}
				ast.Inspect(fd.Body, func(y ast.Node) bool {
					ifs, ok := y.(*ast.IfStmt)
					if !ok || len(ifs.Body.List) != 1 {
						return true
					}
					br, ok := ifs.Body.List[0].(*ast.BranchStmt)
					if !ok || br.Tok != token.CONTINUE {
						return true
					}
					tests := false
					ast.Inspect(ifs.Cond, func(z ast.Node) bool {
						if id, ok := z.(*ast.Ident); ok && info.Uses[id] != nil {
							if info.Uses[id] == lobj {
								tests = true
							}
							if as, ok := s.(*ast.AssignStmt); ok && len(as.Lhs) == 2 {
								if okid, ok := as.Lhs[1].(*ast.Ident); ok && info.Defs[okid] == info.Uses[id] {
									tests = true
								}
							}
						}
						return true
					})
					if tests {
						cand.hasDefault, cand.defaultSkips, cand.defaultPos = true, true, ifs.Pos()
					}
					return true
				})
				m = cand
			}
			return true
		})
		if m != nil {
			return fd, m
		}
	}
	c.fatalf("anchor: soyhtml's HTML escaper (io.Writer parameter + a switch arm or table entry for '<') not found")
	return nil, nil
}

// constIndexTable: x names a package-level array, slice or map variable initialised by a composite literal
// keyed by character constants; returns character -> replacement (resolved with constBytes).
func constIndexTable(c *Ctx, info *types.Info, x ast.Expr) (map[rune]escEntry, token.Pos) {
	id, ok := ast.Unparen(x).(*ast.Ident)
	if !ok {
		return nil, token.NoPos
	}
	v, ok := info.Uses[id].(*types.Var)
	if !ok || v.Pkg() == nil || v.Parent() != v.Pkg().Scope() {
		return nil, token.NoPos
	}
	for _, p := range c.Pkgs {
		if p.Types != v.Pkg() {
			continue
		}
		for _, f := range p.Syntax {
			for _, d := range f.Decls {
				gd, ok := d.(*ast.GenDecl)
				if !ok {
					continue
				}
				for _, sp := range gd.Specs {
					vs, ok := sp.(*ast.ValueSpec)
					if !ok {
						continue
					}
					for i, nm := range vs.Names {
						if p.TypesInfo.Defs[nm] != v || i >= len(vs.Values) {
							continue
						}
						cl, ok := ast.Unparen(vs.Values[i]).(*ast.CompositeLit)
						if !ok {
							return nil, token.NoPos
						}
						out := map[rune]escEntry{}
						for _, el := range cl.Elts {
							kv, ok := el.(*ast.KeyValueExpr)
							if !ok {
								return nil, token.NoPos
							}
							ktv, ok := p.TypesInfo.Types[kv.Key]
							if !ok || ktv.Value == nil || ktv.Value.Kind() != constant.Int {
								return nil, token.NoPos
							}
							k, _ := constant.Int64Val(ktv.Value)
							ent := escEntry{pos: kv.Pos()}
							ent.repl, ent.found = constBytes(c, p.TypesInfo, kv.Value)
							out[rune(k)] = ent
						}
						return out, cl.Pos()
					}
				}
			}
		}
	}
	return nil, token.NoPos
}

// printHypo fixes the autoescape mode and the CancelAutoescape flag of every directive.
type printHypo struct {
	mode    constant.Value
	cancel  bool
	escaper *types.Func
	modeFld *types.Var
	cancFld *types.Var
	skip    map[*types.Func]bool // the tree walker and its direct callers: evaluating the printed expression is not the print's own write
}

func (h printHypo) expr(ev *evaluator, e ast.Expr, info *types.Info) (aval, bool) {
	if se, ok := e.(*ast.SelectorExpr); ok {
		if sel, ok := info.Selections[se]; ok && sel.Kind() == types.FieldVal {
			if sel.Obj() == h.modeFld {
				return constVal(h.mode), true
			}
			if sel.Obj() == h.cancFld {
				return boolVal(h.cancel), true
			}
		}
	}
	return unknown, false
}
func (h printHypo) prim(ev *evaluator, fn *types.Func, call *ast.CallExpr, st state) (aval, bool) {
	if fn == h.escaper {
		return unknown, true // do not look inside: recorded as one "escaped write" event
	}
	if h.skip[fn] {
		return unknown, true
	}
	return unknown, false
}
func (h printHypo) isRead(fn *types.Func) bool { return false }

// R03a: in every mode but "off", a print without a cancelling directive writes through the escaper only.
func ruleR03a(c *Ctx) {
	p := c.pkg("soyhtml")
	escFd, _ := findEscaper(c)
	if p == nil || escFd == nil {
		return
	}
	info := p.TypesInfo
	escFn := info.Defs[escFd.Name].(*types.Func)
	evalPrint := c.mustFunc("soyhtml", "state.evalPrint")
	if evalPrint == nil {
		return
	}
	stObj := p.Types.Scope().Lookup("state")
	pdObj := p.Types.Scope().Lookup("PrintDirective")
	if stObj == nil || pdObj == nil {
		c.fatalf("anchor: soyhtml.state / soyhtml.PrintDirective not found")
		return
	}
	var modeFld, cancFld *types.Var
	st := stObj.Type().Underlying().(*types.Struct)
	for i := 0; i < st.NumFields(); i++ {
		if _, tn, ok := relPkgOfType(st.Field(i).Type()); ok && tn == "AutoescapeType" {
			modeFld = st.Field(i)
		}
	}
	pd := pdObj.Type().Underlying().(*types.Struct)
	for i := 0; i < pd.NumFields(); i++ {
		if b, ok := pd.Field(i).Type().(*types.Basic); ok && b.Kind() == types.Bool {
			cancFld = pd.Field(i)
		}
	}
	if modeFld == nil || cancFld == nil {
		c.fatalf("anchor: state's autoescape field or PrintDirective's cancel flag not found")
		return
	}
	ap := c.pkg("ast")
	modes := map[string]constant.Value{}
	offName := ""
	for _, n := range ap.Types.Scope().Names() {
		if k, ok := ap.Types.Scope().Lookup(n).(*types.Const); ok {
			if _, tn, ok := relPkgOfType(k.Type()); ok && tn == "AutoescapeType" {
				modes[n] = k.Val()
				if strings.HasSuffix(n, "Off") {
					offName = n
				}
			}
		}
	}
	if len(modes) < 4 || offName == "" {
		c.fatalf("anchor: ast.AutoescapeType constants (need 4 incl. ...Off), found %d", len(modes))
		return
	}
	c.seen("soyhtml.state.evalPrint")
	skip := map[*types.Func]bool{}
	if wfd := c.mustFunc("soyhtml", "state.walk"); wfd != nil {
		wfn := info.Defs[wfd.Name].(*types.Func)
		skip[wfn] = true
		for _, fd := range c.allFuncDecls("soyhtml") {
			if fd == evalPrint {
				continue
			}
			ast.Inspect(fd.Body, func(x ast.Node) bool {
				if call, ok := x.(*ast.CallExpr); ok && calleeFunc(call, info) == wfn {
					skip[info.Defs[fd.Name].(*types.Func)] = true
				}
				return true
			})
		}
	}
	for _, mn := range sortedKeys(modes) {
		for _, cancel := range []bool{false, true} {
			h := printHypo{modes[mn], cancel, escFn, modeFld, cancFld, skip}
			ev := newEvaluator(c, h)
			ev.watch[escFn.Name()] = true
			ev.watch["WriteString"] = true
			ev.watch["Write"] = true
			ev.watch["Fprint"] = true
			ev.watch["Fprintf"] = true
			comps := ev.execBlock(evalPrint.Body.List, state{env: env{}}, info)
			raw, esc, paths := 0, 0, 0
			for _, cp := range comps {
				if cp.kind == cNoReturn || cp.kind == cSpin {
					continue
				}
				paths++
				pr, pe := false, false
				for _, e := range cp.st.tr.list() {
					if e.name == escFn.Name() {
						pe = true
					} else {
						pr = true
					}
				}
				if pr {
					raw++
				}
				if pe {
					esc++
				}
			}
			key := fmt.Sprintf("soyhtml.state.evalPrint mode=%s cancel=%v", mn, cancel)
			mustEscape := mn != offName && !cancel
			incomplete := ev.notes["budget exhausted"] || ev.notes["fork cap reached in block"]
			switch {
			case paths == 0 || incomplete:
				c.unk("R03a", key, evalPrint.Pos(), fmt.Sprintf("no completing path evaluated (paths=%d, notes=%v)", paths, sortedKeys(ev.notes)))
			case mustEscape && (raw > 0 || esc != paths):
				c.bad("R03a", key, evalPrint.Pos(), fmt.Sprintf("with autoescape %s and no cancelling directive, %d of %d completing paths write the value without the escaper (escaped on %d)", mn, raw, paths, esc))
			case mustEscape:
				c.ok("R03a", key, evalPrint.Pos(), fmt.Sprintf("all %d completing paths write through the escaper and none writes raw", paths))
			default:
				c.okTrivial("R03a", key, evalPrint.Pos(), fmt.Sprintf("raw output permitted here (mode off or cancelled): %d raw / %d escaped of %d paths", raw, esc, paths))
			}
		}
	}
}

// directiveEntry is one row of the PrintDirectives table.
type directiveEntry struct {
	name   string
	apply  types.Object
	cancel bool
	pos    token.Pos
}

func directiveTable(c *Ctx, rel string) []directiveEntry {
	p := c.pkg(rel)
	init := c.mustVarInit(rel, "PrintDirectives")
	if p == nil || init == nil {
		return nil
	}
	cl, ok := init.(*ast.CompositeLit)
	if !ok {
		c.fatalf("anchor: %s.PrintDirectives is not a composite literal", rel)
		return nil
	}
	var out []directiveEntry
	for _, el := range cl.Elts {
		kv := el.(*ast.KeyValueExpr)
		ktv := p.TypesInfo.Types[kv.Key]
		if ktv.Value == nil {
			c.fatalf("anchor: non-constant key in %s.PrintDirectives", rel)
			continue
		}
		e := directiveEntry{name: constant.StringVal(ktv.Value), pos: kv.Pos()}
		if vl, ok := kv.Value.(*ast.CompositeLit); ok {
			stt := p.TypesInfo.Types[vl].Type.Underlying().(*types.Struct)
			for i, f := range vl.Elts {
				var fv *types.Var
				val := f
				if kv2, ok := f.(*ast.KeyValueExpr); ok {
					if id, ok := kv2.Key.(*ast.Ident); ok {
						fv, _ = p.TypesInfo.Uses[id].(*types.Var)
					}
					val = kv2.Value
				} else if i < stt.NumFields() {
					fv = stt.Field(i)
				}
				if fv == nil {
					continue
				}
				if b, ok := fv.Type().(*types.Basic); ok && b.Kind() == types.Bool {
					if tv := p.TypesInfo.Types[val]; tv.Value != nil {
						e.cancel = constant.BoolVal(tv.Value)
					}
				}
				if _, ok := fv.Type().Underlying().(*types.Signature); ok {
					if id, ok := ast.Unparen(val).(*ast.Ident); ok {
						e.apply = p.TypesInfo.Uses[id]
					}
				}
			}
		}
		out = append(out, e)
	}
	sort.Slice(out, func(i, j int) bool { return out[i].name < out[j].name })
	return out
}

// The language's classification of the cancelling directives (frozen, one reason each).
var cancelClass = map[string]string{
	"noAutoescape":      "optout: explicit opt-out named in the property",
	"id":                "optout: explicit opt-out (identifier marker) named in the property",
	"escapeUri":         "encoding:net/url.QueryEscape: documented to emit URI encoding",
	"escapeJsString":    "encoding:text/template.JSEscapeString: documented to emit a JS string body",
	"json":              "encoding:encoding/json.Marshal: documented to emit JSON",
	"escapeHtml":        "html: HTML-producing, must escape every data character",
	"changeNewlineToBr": "html: HTML-producing (adds <br>), must escape every data character",
	"insertWordBreaks":  "html: HTML-producing (adds <wbr>), must escape every data character",
}

var htmlSanitizers = map[string]bool{
	"text/template.HTMLEscapeString": true, "html/template.HTMLEscapeString": true, "html.EscapeString": true,
	"text/template.HTMLEscaper": true, "html/template.HTMLEscaper": true,
}

// R03b: every cancelling directive is classified; the HTML-producing and re-encoding ones
// return only data that passed their escaper/encoder.
func ruleR03b(c *Ctx) {
	c.buildSSA()
	tab := directiveTable(c, "soyhtml")
	if tab == nil {
		return
	}
	n := 0
	for _, e := range tab {
		if !e.cancel {
			continue
		}
		n++
		key := "soyhtml.PrintDirectives[" + e.name + "]"
		cls, ok := cancelClass[e.name]
		if !ok {
			c.bad("R03b", key, e.pos, "a directive outside the language's list cancels autoescaping: every print using it writes raw data into HTML")
			continue
		}
		if strings.HasPrefix(cls, "optout") {
			c.okTrivial("R03b", key, e.pos, cls)
			continue
		}
		if e.apply == nil {
			c.unk("R03b", key, e.pos, "cancelling directive without a named Apply function to audit")
			continue
		}
		fn := c.SSA["soyhtml"].Func(e.apply.Name())
		if fn == nil {
			c.unk("R03b", key, e.pos, "Apply function "+e.apply.Name()+" not found in SSA")
			continue
		}
		c.seen("soyhtml." + fn.Name())
		san := map[string]bool{}
		for k := range htmlSanitizers {
			san[k] = true
		}
		for k := range escaperWrappers(c) {
			san[k] = true
		}
		if strings.HasPrefix(cls, "encoding:") {
			san = map[string]bool{strings.SplitN(cls[len("encoding:"):], ":", 2)[0]: true}
		}
		t := taintFunction(fn, taintSpec{
			source:    func(v ssa.Value) bool { return len(fn.Params) > 0 && v == fn.Params[0] },
			sanitizer: func(com *ssa.CallCommon) bool { return san[calleeName(com)] },
		})
		rets, bad := 0, 0
		var badPos token.Pos
		for _, b := range fn.Blocks {
			for _, in := range b.Instrs {
				if r, ok := in.(*ssa.Return); ok {
					rets++
					for _, res := range r.Results {
						if t[res] {
							bad++
							badPos = r.Pos()
						}
					}
				}
			}
		}
		if bad > 0 {
			c.bad("R03b", key, badPos, fmt.Sprintf("%s cancels autoescaping but %d of its %d returns yield data that did not pass %s: the print writes it raw", fn.Name(), bad, rets, strings.Join(sortedKeys(san), "/")))
		} else {
			c.ok("R03b", key, fn.Pos(), fmt.Sprintf("all %d returns of %s yield only data that passed %s", rets, fn.Name(), strings.Join(sortedKeys(san), "/")))
		}
	}
	c.floor("R03b", "cancelling directives", 6, n)
}

// R03c: the escaper replaces exactly the five characters by references that decode back.
func ruleR03c(c *Ctx) {
	p := c.pkg("soyhtml")
	fd, sw := findEscaper(c)
	if p == nil || fd == nil {
		return
	}
	c.seen(c.declKey("soyhtml", fd))
	info := p.TypesInfo
	need := map[rune]bool{'"': true, '\'': true, '&': true, '<': true, '>': true}
	got := map[rune]bool{}
	hasDefault := sw.hasDefault
	if sw.hasDefault {
		c.check(sw.defaultSkips, "R03c", "soyhtml.htmlEscaper default", sw.defaultPos, "other bytes are left to be copied unchanged", "the default arm of the escaper does more than skip: non-special bytes are not copied verbatim")
	}
	for _, ch := range sw.specials() {
		ent := sw.entries[ch]
		got[ch] = true
		repl, found := ent.repl, ent.found
		key := fmt.Sprintf("soyhtml.htmlEscaper case %q", ch)
		switch {
		case !found:
			c.unk("R03c", key, ent.pos, "replacement text not resolved to a constant")
		case html.UnescapeString(repl) != string(ch):
			c.bad("R03c", key, ent.pos, fmt.Sprintf("replacement %q decodes to %q, not %q", repl, html.UnescapeString(repl), string(ch)))
		case strings.ContainsAny(repl, "\"'<>") || strings.Count(repl, "&") != 1 || !strings.HasPrefix(repl, "&"):
			c.bad("R03c", key, ent.pos, fmt.Sprintf("replacement %q itself contains a raw special character", repl))
		default:
			c.ok("R03c", key, ent.pos, fmt.Sprintf("%q -> %q, a character reference that decodes back and contains no raw special", string(ch), repl))
		}
	}
	for ch := range need {
		if !got[ch] {
			c.bad("R03c", fmt.Sprintf("soyhtml.htmlEscaper case %q", ch), sw.Pos(), fmt.Sprintf("the escaper has no case for %q: it reaches HTML output raw", string(ch)))
		}
	}
	if !hasDefault {
		// the search form needs no default arm: only the characters searched for reach the replacement, and each
		// of them must then have one
		var input types.Object
		for _, fl := range fd.Type.Params.List {
			for _, nm := range fl.Names {
				if o := info.Defs[nm]; o != nil && isStringType(o.Type()) {
					input = o
				}
			}
		}
		if input != nil {
			if search := findSearchScan(fd, input, info); search != nil {
				var extra []string
				for _, ch := range search.set {
					if !got[ch] {
						extra = append(extra, string(ch))
					}
				}
				c.check(len(extra) == 0, "R03c", "soyhtml.htmlEscaper has-default", sw.Pos(), "no default arm is needed: the search hands over only characters that have a replacement",
					"the search finds "+strings.Join(extra, " ")+" but there is no replacement for it: the character is dropped from the output")
				return
			}
		}
	}
	c.check(hasDefault, "R03c", "soyhtml.htmlEscaper has-default", sw.Pos(), "default arm present", "no default arm: bytes that need no escaping are not handled")
}

// constBytes resolves `[]byte("lit")`, a package variable initialised so, or a string constant.
func constBytes(c *Ctx, info *types.Info, e ast.Expr) (string, bool) {
	e = ast.Unparen(e)
	if tv, ok := info.Types[e]; ok && tv.Value != nil && tv.Value.Kind() == constant.String {
		return constant.StringVal(tv.Value), true
	}
	switch x := e.(type) {
	case *ast.CallExpr:
		if len(x.Args) == 1 {
			if tv, ok := info.Types[x.Fun]; ok && tv.IsType() {
				return constBytes(c, info, x.Args[0])
			}
		}
	case *ast.Ident:
		if v, ok := info.Uses[x].(*types.Var); ok && v.Pkg() != nil {
			if rel, ok := relOf(v.Pkg()); ok {
				if init := c.pkgVarInit(rel, v.Name()); init != nil {
					return constBytes(c, c.Pkgs[rel].TypesInfo, init)
				}
			}
		}
	}
	return "", false
}

// attrHypo fixes the value read from the attribute map.
type attrHypo struct{ val string }

func (h attrHypo) expr(ev *evaluator, e ast.Expr, info *types.Info) (aval, bool) {
	if ix, ok := e.(*ast.IndexExpr); ok {
		if tv, ok := info.Types[ix.X]; ok {
			if _, ok := tv.Type.Underlying().(*types.Map); ok {
				// the attribute map handed in, not a package-level table of the parser
				if _, _, tbl := ev.c.constTable(ix.X, info); !tbl {
					return constVal(constant.MakeString(h.val)), true
				}
			}
		}
	}
	return unknown, false
}
func (h attrHypo) prim(ev *evaluator, fn *types.Func, call *ast.CallExpr, st state) (aval, bool) {
	return unknown, false
}
func (h attrHypo) isRead(fn *types.Func) bool { return false }

// R03d: only autoescape="false" selects the mode that switches escaping off.
func ruleR03d(c *Ctx) {
	p := c.pkg("parse")
	fd := c.mustFunc("parse", "tree.parseAutoescape")
	if p == nil || fd == nil {
		return
	}
	c.seen(c.declKey("parse", fd))
	ap := c.pkg("ast")
	var off constant.Value
	for _, n := range ap.Types.Scope().Names() {
		if k, ok := ap.Types.Scope().Lookup(n).(*types.Const); ok && strings.HasSuffix(n, "Off") {
			if _, tn, ok := relPkgOfType(k.Type()); ok && tn == "AutoescapeType" {
				off = k.Val()
			}
		}
	}
	if off == nil {
		c.fatalf("anchor: ast.AutoescapeOff not found")
		return
	}
	for _, v := range []string{"", "true", "false", "contextual", "deprecated-contextual", "strict", "FALSE", "off", "no"} {
		ev := newEvaluator(c, attrHypo{v})
		comps := ev.execBlock(fd.Body.List, state{env: env{}}, p.TypesInfo)
		offRet, otherRet, unk := 0, 0, 0
		for _, cp := range comps {
			if cp.kind != cReturn || len(cp.vals) != 1 {
				continue
			}
			switch {
			case cp.vals[0].k != avConst:
				unk++
			case constant.Compare(cp.vals[0].c, token.EQL, off):
				offRet++
			default:
				otherRet++
			}
		}
		key := fmt.Sprintf("parse.tree.parseAutoescape attr=%q", v)
		switch {
		case unk > 0:
			c.unk("R03d", key, fd.Pos(), "the returned mode is not a constant on some path")
		case v == "false":
			c.check(offRet > 0 && otherRet == 0, "R03d", key, fd.Pos(), "selects the off mode", "autoescape=\"false\" does not select the off mode")
		default:
			c.check(offRet == 0, "R03d", key, fd.Pos(), "does not select the off mode (another mode, or a parse error)", fmt.Sprintf("autoescape=%q switches escaping off, but only \"false\" may", v))
		}
	}
}

// R03e: the renderer's autoescape mode is set only when a state is built and by the template-level
// attribute in the tree walker's TemplateNode case; nowhere else can a callee's mode leak into its caller.
func ruleR03e(c *Ctx) {
	p := c.pkg("soyhtml")
	if p == nil {
		return
	}
	info := p.TypesInfo
	stObj := p.Types.Scope().Lookup("state")
	if stObj == nil {
		c.fatalf("anchor: soyhtml.state not found")
		return
	}
	var modeFld *types.Var
	st := stObj.Type().Underlying().(*types.Struct)
	for i := 0; i < st.NumFields(); i++ {
		if _, tn, ok := relPkgOfType(st.Field(i).Type()); ok && tn == "AutoescapeType" {
			modeFld = st.Field(i)
		}
	}
	if modeFld == nil {
		c.fatalf("anchor: autoescape field of soyhtml.state not found")
		return
	}
	goCases, walkFd := walkCaseTypes(c, "soyhtml", "state.walk")
	if goCases == nil {
		return
	}
	inTemplateCase := map[ast.Node]bool{}
	if cc := goCases["TemplateNode"]; cc != nil {
		ast.Inspect(cc, func(x ast.Node) bool {
			if as, ok := x.(*ast.AssignStmt); ok {
				inTemplateCase[as] = true
			}
			return true
		})
	}
	n := 0
	for _, fd := range c.allFuncDecls("soyhtml") {
		ord := 0
		ast.Inspect(fd.Body, func(x ast.Node) bool {
			as, ok := x.(*ast.AssignStmt)
			if !ok {
				return true
			}
			for _, l := range as.Lhs {
				if fieldOfExpr(l, info) != modeFld {
					continue
				}
				n++
				ord++
				key := fmt.Sprintf("%s assigns state.%s#%d", c.declKey("soyhtml", fd), modeFld.Name(), ord)
				c.check(inTemplateCase[as] && fd == walkFd, "R03e", key, as.Pos(),
					"the template-level autoescape attribute, applied to the state the template runs on",
					"the escaping mode of a live state is changed outside the template-level attribute: a called template's mode (e.g. autoescape=\"false\") can stay in force in the caller after the call returns, and its prints are then written raw")
			}
			return true
		})
	}
	c.floor("R03e", "assignments of the autoescape mode", 1, n)
}

// R03f: every template is registered with the namespace declaration of its own file (its autoescape
// attribute is that file's), never with a node remembered from another file.
func ruleR03f(c *Ctx) {
	p := c.pkg("template")
	fd := c.mustFunc("template", "Registry.Add")
	if p == nil || fd == nil {
		return
	}
	info := p.TypesInfo
	tmplObj := p.Types.Scope().Lookup("Template")
	if tmplObj == nil {
		c.fatalf("anchor: template.Template not found")
		return
	}
	// ownBody: the symbols bound by a type switch over the elements of the file parameter's own Body
	ownBody := map[types.Object]bool{}
	params := map[types.Object]bool{}
	for _, fl := range fd.Type.Params.List {
		for _, nm := range fl.Names {
			params[info.Defs[nm]] = true
		}
	}
	ast.Inspect(fd.Body, func(x ast.Node) bool {
		rs, ok := x.(*ast.RangeStmt)
		if !ok || rs.Value == nil {
			return true
		}
		se, ok := ast.Unparen(rs.X).(*ast.SelectorExpr)
		if !ok {
			return true
		}
		base, ok := se.X.(*ast.Ident)
		if !ok || !params[info.Uses[base]] {
			return true
		}
		vid, ok := rs.Value.(*ast.Ident)
		if !ok {
			return true
		}
		elem := info.Defs[vid]
		ast.Inspect(rs.Body, func(y ast.Node) bool {
			ts, ok := y.(*ast.TypeSwitchStmt)
			if !ok {
				return true
			}
			as, ok := ts.Assign.(*ast.AssignStmt)
			if !ok || len(as.Rhs) != 1 {
				return true
			}
			ta, ok := as.Rhs[0].(*ast.TypeAssertExpr)
			if !ok {
				return true
			}
			sid, ok := ast.Unparen(ta.X).(*ast.Ident)
			if !ok || info.Uses[sid] != elem {
				return true
			}
			for _, cc := range ts.Body.List {
				if o := info.Implicits[cc]; o != nil {
					ownBody[o] = true
				}
			}
			return true
		})
		return true
	})
	n := 0
	ast.Inspect(fd.Body, func(x ast.Node) bool {
		cl, ok := x.(*ast.CompositeLit)
		if !ok {
			return true
		}
		tv, ok := info.Types[cl]
		if !ok || !types.Identical(tv.Type, tmplObj.Type()) {
			return true
		}
		st := tmplObj.Type().Underlying().(*types.Struct)
		for i, el := range cl.Elts {
			var fv *types.Var
			val := el
			if kv, ok := el.(*ast.KeyValueExpr); ok {
				if id, ok := kv.Key.(*ast.Ident); ok {
					fv, _ = info.Uses[id].(*types.Var)
				}
				val = kv.Value
			} else if i < st.NumFields() {
				fv = st.Field(i)
			}
			if fv == nil {
				continue
			}
			if _, tn, ok := relPkgOfType(fv.Type()); !ok || tn != "NamespaceNode" {
				continue
			}
			n++
			id, isID := ast.Unparen(val).(*ast.Ident)
			good := isID
			if isID {
				obj := info.Uses[id]
				// every assignment to the variable takes the node from this file's own body (a type-switch binding)
				ast.Inspect(fd.Body, func(y ast.Node) bool {
					as, ok := y.(*ast.AssignStmt)
					if !ok {
						return true
					}
					for j, l := range as.Lhs {
						li, ok := l.(*ast.Ident)
						if !ok || (info.Uses[li] != obj && info.Defs[li] != obj) || j >= len(as.Rhs) {
							continue
						}
						ri, plain := ast.Unparen(as.Rhs[j]).(*ast.Ident)
						if !plain || !ownBody[info.Uses[ri]] {
							good = false
						}
					}
					return true
				})
			}
			c.check(good, "R03f", "template.Registry.Add namespace-of-own-file", cl.Pos(), "the template is registered with the namespace node found in its own file",
				"the template is registered with a namespace node that is not simply the one declared in its own file: a file inherits the autoescape attribute of another file with the same namespace name")
		}
		return true
	})
	c.floor("R03f", "template registrations", 1, n)
}

// R03g: every write of the escaper's input, whole or in part, is either one of the scan loop's own writes
// (the run between two replaced characters: str[last:i], str[last:]) or guarded by a character-set test
// that names every character the scan replaces. A fast path whose set is smaller lets the rest through raw.
func ruleR03g(c *Ctx) {
	p := c.pkg("soyhtml")
	fd, sw := findEscaper(c)
	if p == nil || fd == nil {
		return
	}
	info := p.TypesInfo
	var input types.Object
	for _, fl := range fd.Type.Params.List {
		for _, nm := range fl.Names {
			if o := info.Defs[nm]; o != nil {
				if b, ok := o.Type().Underlying().(*types.Basic); ok && b.Info()&types.IsString != 0 {
					input = o
				}
			}
		}
	}
	if input == nil {
		c.fatalf("anchor: the escaper has no string parameter")
		return
	}
	specials := sw.specials()
	// the scan loop: the for statement containing the switch; its counter; the cursor (assigned 0 and counter+1 only)
	var loop *ast.ForStmt
	ast.Inspect(fd.Body, func(x ast.Node) bool {
		if fs, ok := x.(*ast.ForStmt); ok {
			ast.Inspect(fs.Body, func(y ast.Node) bool {
				if y == sw.node {
					loop = fs
				}
				return true
			})
		}
		return true
	})
	counter := ""
	if loop != nil {
		if inc, ok := loop.Post.(*ast.IncDecStmt); ok && inc.Tok == token.INC {
			counter = exprKey(inc.X)
		}
	}
	cursorOK := func(name string) bool {
		good, n := true, 0
		ast.Inspect(fd.Body, func(x ast.Node) bool {
			as, ok := x.(*ast.AssignStmt)
			if !ok {
				return true
			}
			for i, l := range as.Lhs {
				if exprKey(l) != name || i >= len(as.Rhs) {
					continue
				}
				n++
				r := exprKey(as.Rhs[i])
				if r != "0" && r != counter+" + 1" {
					good = false
				}
			}
			return true
		})
		return good && n >= 2 && counter != ""
	}
	mentions := func(e ast.Expr) bool {
		found := false
		ast.Inspect(e, func(x ast.Node) bool {
			if id, ok := x.(*ast.Ident); ok && info.Uses[id] == input {
				found = true
			}
			return true
		})
		return found
	}
	// the scan written as a search loop (strings.IndexAny for the special characters, cut after each hit)
	search := findSearchScan(fd, input, info)
	if search != nil {
		var missing []string
		for _, ch := range specials {
			if !strings.ContainsRune(search.set, ch) {
				missing = append(missing, string(ch))
			}
		}
		c.check(len(missing) == 0, "R03g", "soyhtml.htmlEscaper searches-for-every-special", search.loop.Pos(), fmt.Sprintf("the search looks for every character the escaper replaces (%q)", search.set),
			fmt.Sprintf("the escaper searches for %q but replaces %q: %s is never found and reaches the output raw", search.set, specials, strings.Join(missing, " ")))
	}
	// walk with the stack of enclosing ifs
	var stack []ast.Node
	nw := 0
	ast.Inspect(fd.Body, func(x ast.Node) bool {
		if x == nil {
			stack = stack[:len(stack)-1]
			return true
		}
		stack = append(stack, x)
		call, ok := x.(*ast.CallExpr)
		if !ok {
			return true
		}
		if id, ok := call.Fun.(*ast.Ident); ok {
			if _, isBuiltin := info.Uses[id].(*types.Builtin); isBuiltin {
				return true
			}
		}
		cal := calleeFunc(call, info)
		if cal != nil && cal.Pkg() != nil && cal.Pkg().Path() == "strings" {
			return true // tests, not writes
		}
		for _, a := range call.Args {
			if !mentions(a) {
				continue
			}
			nw++
			key := "soyhtml.htmlEscaper writes-input#" + itoa(nw)
			// scan write?
			if se, ok := ast.Unparen(a).(*ast.SliceExpr); ok && loop != nil {
				if id, ok := ast.Unparen(se.X).(*ast.Ident); ok && info.Uses[id] == input && se.Low != nil && cursorOK(exprKey(se.Low)) &&
					(se.High == nil || exprKey(se.High) == counter) {
					c.ok("R03g", key, call.Pos(), "the scan loop's own write of the run since the last replaced character")
					continue
				}
			}
			if search != nil {
				// the run before a hit: in[:i]
				if se, ok := ast.Unparen(a).(*ast.SliceExpr); ok && se.Low == nil && se.High != nil && call.Pos() > search.loop.Body.Pos() && call.End() < search.loop.Body.End() {
					if id, ok := ast.Unparen(se.X).(*ast.Ident); ok && info.Uses[id] == input {
						if hid, ok := ast.Unparen(se.High).(*ast.Ident); ok && info.Uses[hid] == search.idx {
							c.ok("R03g", key, call.Pos(), "the search loop's own write of the run before the character it found")
							continue
						}
					}
				}
				// what is left when the search finds nothing more: written after the loop
				if id, ok := ast.Unparen(a).(*ast.Ident); ok && info.Uses[id] == input && call.Pos() > search.loop.End() {
					c.ok("R03g", key, call.Pos(), "written after the search loop, which is left only when the rest holds none of the searched characters")
					continue
				}
			}
			// guarded by a complete character-set test?
			guarded, set := false, ""
			for i := len(stack) - 2; i >= 0; i-- {
				ifs, ok := stack[i].(*ast.IfStmt)
				if !ok {
					continue
				}
				inThen := false
				ast.Inspect(ifs.Body, func(y ast.Node) bool {
					if y == ast.Node(call) {
						inThen = true
					}
					return true
				})
				if !inThen {
					continue
				}
				if s, ok := absentSetTest(ifs.Cond, input, info); ok {
					set = s
					guarded = true
					for _, ch := range specials {
						if !strings.ContainsRune(s, ch) {
							guarded = false
						}
					}
				}
			}
			switch {
			case guarded:
				c.ok("R03g", key, call.Pos(), "guarded by a test that the input holds none of "+fmt.Sprintf("%q", specials))
			case set != "":
				c.bad("R03g", key, call.Pos(), fmt.Sprintf("the input is written unescaped when it holds none of %q, but the escaper replaces %q: the characters missing from the test reach the output raw", set, specials))
			default:
				c.bad("R03g", key, call.Pos(), "the input ("+exprKey(a)+") is written outside the scan loop's own writes and without a test that it holds no special character")
			}
		}
		return true
	})
	c.floor("R03g", "writes of the escaper's input", 2, nw)
	// the scan looks at every byte: the counter advances by the loop's own i++ and nothing in the body moves it
	if loop != nil && counter != "" {
		var moved []string
		ast.Inspect(loop.Body, func(x ast.Node) bool {
			switch n := x.(type) {
			case *ast.AssignStmt:
				for _, l := range n.Lhs {
					if exprKey(l) == counter {
						moved = append(moved, nodeText(n.Rhs[0]))
					}
				}
			case *ast.IncDecStmt:
				if exprKey(n.X) == counter {
					moved = append(moved, counter+n.Tok.String())
				}
			}
			return true
		})
		c.check(len(moved) == 0, "R03g", "soyhtml.htmlEscaper scans-every-byte", loop.Pos(), "the scan advances one byte at a time and examines each",
			"the scan position is also moved inside the loop body ("+strings.Join(moved, ", ")+"): the bytes stepped over are copied to the output without being examined, so a special character among them is written raw")
	} else if search != nil {
		c.ok("R03g", "soyhtml.htmlEscaper scans-every-byte", search.loop.Pos(), "the search examines every byte of what is left and the text is cut right after the character found")
	} else {
		c.unk("R03g", "soyhtml.htmlEscaper scans-every-byte", fd.Pos(), "the escaper's scan loop (a counted for loop around the switch) was not identified")
	}
}

// absentSetTest recognises !strings.ContainsAny(x, S), strings.IndexAny(x, S) < 0 / == -1 and returns S.
func absentSetTest(cond ast.Expr, input types.Object, info *types.Info) (string, bool) {
	cond = ast.Unparen(cond)
	setOf := func(e ast.Expr, fn string) (string, bool) {
		call, ok := ast.Unparen(e).(*ast.CallExpr)
		if !ok || len(call.Args) != 2 {
			return "", false
		}
		cal := calleeFunc(call, info)
		if cal == nil || cal.Pkg() == nil || cal.Pkg().Path() != "strings" || cal.Name() != fn {
			return "", false
		}
		if id, ok := ast.Unparen(call.Args[0]).(*ast.Ident); !ok || info.Uses[id] != input {
			return "", false
		}
		tv := info.Types[call.Args[1]]
		if tv.Value == nil || tv.Value.Kind() != constant.String {
			return "", false
		}
		return constant.StringVal(tv.Value), true
	}
	if ue, ok := cond.(*ast.UnaryExpr); ok && ue.Op == token.NOT {
		return setOf(ue.X, "ContainsAny")
	}
	if be, ok := cond.(*ast.BinaryExpr); ok {
		k := exprKey(be.Y)
		if (be.Op == token.LSS && k == "0") || (be.Op == token.EQL && k == "-1") {
			return setOf(be.X, "IndexAny")
		}
	}
	return "", false
}

// escaperWrappers: functions of soyhtml proven to return exactly what the module's own escaper (R03c, R03g)
// writes for their string argument: one string parameter, a local bytes.Buffer handed to the escaper
// together with the parameter, every return is that buffer's String(), and neither is used otherwise.
// Keys are SSA function names (as calleeName gives them).
func escaperWrappers(c *Ctx) map[string]bool {
	if c.escWrap != nil {
		return c.escWrap
	}
	out := map[string]bool{}
	c.escWrap = out
	p := c.pkg("soyhtml")
	esc, _ := findEscaper(c)
	if p == nil || esc == nil {
		return out
	}
	info := p.TypesInfo
	escFn, _ := info.Defs[esc.Name].(*types.Func)
	for _, fd := range c.allFuncDecls("soyhtml") {
		if fd == esc || fd.Recv != nil || fd.Type.Params.NumFields() != 1 || fd.Type.Results == nil || fd.Type.Results.NumFields() != 1 {
			continue
		}
		var param types.Object
		for _, nm := range fd.Type.Params.List[0].Names {
			param = info.Defs[nm]
		}
		if param == nil {
			continue
		}
		if b, ok := param.Type().Underlying().(*types.Basic); !ok || b.Info()&types.IsString == 0 {
			continue
		}
		// the escaper call
		var buf types.Object
		calls := 0
		ast.Inspect(fd.Body, func(x ast.Node) bool {
			call, ok := x.(*ast.CallExpr)
			if !ok || calleeFunc(call, info) != escFn || len(call.Args) != 2 {
				return true
			}
			calls++
			if ue, ok := ast.Unparen(call.Args[0]).(*ast.UnaryExpr); ok && ue.Op == token.AND {
				if id, ok := ast.Unparen(ue.X).(*ast.Ident); ok {
					if pid, ok := ast.Unparen(call.Args[1]).(*ast.Ident); ok && info.Uses[pid] == param {
						buf = info.Uses[id]
					}
				}
			}
			return true
		})
		if calls != 1 || buf == nil {
			continue
		}
		if _, tn, _ := pkgAndName(buf.Type()); tn != "bytes.Buffer" {
			continue
		}
		good := true
		bufUses, paramUses, rets := 0, 0, 0
		ast.Inspect(fd.Body, func(x ast.Node) bool {
			switch n := x.(type) {
			case *ast.Ident:
				if info.Uses[n] == buf {
					bufUses++
				}
				if info.Uses[n] == param {
					paramUses++
				}
			case *ast.ReturnStmt:
				rets++
				ok := false
				if len(n.Results) == 1 {
					if call, isCall := ast.Unparen(n.Results[0]).(*ast.CallExpr); isCall && len(call.Args) == 0 {
						if se, isSel := call.Fun.(*ast.SelectorExpr); isSel && se.Sel.Name == "String" {
							if id, isID := ast.Unparen(se.X).(*ast.Ident); isID && info.Uses[id] == buf {
								ok = true
							}
						}
					}
				}
				if !ok {
					good = false
				}
			}
			return true
		})
		if good && rets > 0 && paramUses == 1 && bufUses == 1+rets {
			if fn := c.SSA["soyhtml"]; fn != nil {
				if f := fn.Func(fd.Name.Name); f != nil {
					out[f.String()] = true
					c.ok("R03h", "soyhtml."+fd.Name.Name+" escaper-wrapper", fd.Pos(), "returns exactly what the escaper writes for its argument (fresh buffer, no other use of either)")
				}
			}
		}
	}
	return out
}

func pkgAndName(t types.Type) (string, string, bool) {
	if p, ok := t.(*types.Pointer); ok {
		t = p.Elem()
	}
	n, ok := t.(*types.Named)
	if !ok || n.Obj().Pkg() == nil {
		return "", "", false
	}
	return n.Obj().Pkg().Path(), n.Obj().Pkg().Name() + "." + n.Obj().Name(), true
}

// R03i: template text nodes are built by the parser only. A RawTextNode is written to the output as it is
// (no escaping, no line joining): one built anywhere else — from a global's value, from data, from another
// node — puts text into the output that never met the renderer's escaping decision or the parser's
// normaliser.
func ruleR03i(c *Ctx) {
	inParser, outside := 0, 0
	var rels []string
	for rel := range c.Pkgs {
		rels = append(rels, rel)
	}
	sort.Strings(rels)
	for _, rel := range rels {
		p := c.Pkgs[rel]
		info := p.TypesInfo
		for _, fd := range c.allFuncDecls(rel) {
			if strings.HasSuffix(c.Fset.Position(fd.Pos()).Filename, "_test.go") {
				continue
			}
			ast.Inspect(fd.Body, func(x ast.Node) bool {
				cl, ok := x.(*ast.CompositeLit)
				if !ok {
					return true
				}
				tv, ok := info.Types[cl]
				if !ok {
					return true
				}
				if r, tn, ok := relPkgOfType(tv.Type); !ok || r != "ast" || tn != "RawTextNode" {
					return true
				}
				if rel == "parse" {
					inParser++
					return true
				}
				outside++
				c.bad("R03i", fmt.Sprintf("%s builds RawTextNode#%d", c.declKey(rel, fd), outside), cl.Pos(),
					"a raw text node is built outside the parser: its text is written to the output verbatim, whatever the autoescape mode of the template it ends up in")
				return true
			})
		}
	}
	c.floor("R03i", "raw text nodes built by the parser", 3, inParser)
}

// R03j: the text of a content block ({let}, {param}, {log}) is what the tree walker wrote for it: every
// returning path of renderBlock has handed the block to the walker. A shortcut that computes the text some
// other way (the raw string of a lone print, say) skips the print's escaping.
func ruleR03j(c *Ctx) {
	p := c.pkg("soyhtml")
	fd := c.mustFunc("soyhtml", "state.renderBlock")
	wfd := c.mustFunc("soyhtml", "state.walk")
	if p == nil || fd == nil || wfd == nil {
		return
	}
	info := p.TypesInfo
	walkFn := info.Defs[wfd.Name]
	var nodeParam types.Object
	for _, fl := range fd.Type.Params.List {
		for _, nm := range fl.Names {
			nodeParam = info.Defs[nm]
		}
	}
	nr := newNoRet(c)
	bad := false
	var badPos token.Pos
	res := runFlow(fd.Body, nr.forInfo(info), flowState{"w": 1}, func(n ast.Node, st flowState, report bool) flowState {
		ast.Inspect(n, func(x ast.Node) bool {
			if call, ok := x.(*ast.CallExpr); ok && types.Object(calleeFunc(call, info)) == walkFn && len(call.Args) == 1 {
				if id, ok := ast.Unparen(call.Args[0]).(*ast.Ident); ok && info.Uses[id] == nodeParam {
					st["w"] = 0
				}
			}
			return true
		})
		return st
	})
	for _, b := range res.exitBlocks() {
		if blockEndsInNoReturn(b, nr.forInfo(info)) {
			continue
		}
		if res.out[b]["w"]&1 != 0 {
			bad = true
			if len(b.Nodes) > 0 {
				badPos = b.Nodes[len(b.Nodes)-1].Pos()
			}
		}
	}
	c.check(!bad, "R03j", "soyhtml.state.renderBlock walks-the-block", fd.Pos(), "every returning path has walked the block",
		"a path of renderBlock returns without having handed the block to the walker: the text it returns was produced some other way and did not pass the print command's escaping decision")
	_ = badPos
}

// searchScan: the escaper written as a search loop instead of a byte-by-byte scan:
//
//	for { i := strings.IndexAny(in, S); if i < 0 { break }; <replace in[i]>; write(in[:i]); ...; in = in[i+1:] }
//	write(in)
//
// Returns the loop, the constant set S, the index variable, and whether the loop is left only by that break.
type searchScan struct {
	loop *ast.ForStmt
	set  string
	idx  types.Object
}

func findSearchScan(fd *ast.FuncDecl, input types.Object, info *types.Info) *searchScan {
	var out *searchScan
	ast.Inspect(fd.Body, func(x ast.Node) bool {
		loop, ok := x.(*ast.ForStmt)
		if !ok || out != nil || loop.Cond != nil || loop.Init != nil || loop.Post != nil || len(loop.Body.List) < 3 {
			return true
		}
		// i := strings.IndexAny(in, S)
		var idx types.Object
		set := ""
		var rhs ast.Expr
		switch st := loop.Body.List[0].(type) {
		case *ast.AssignStmt:
			if len(st.Lhs) == 1 && len(st.Rhs) == 1 {
				idx, rhs = defObj(info, st.Lhs[0]), st.Rhs[0]
			}
		case *ast.DeclStmt:
			if gd, ok := st.Decl.(*ast.GenDecl); ok && len(gd.Specs) == 1 {
				if vs, ok := gd.Specs[0].(*ast.ValueSpec); ok && len(vs.Names) == 1 && len(vs.Values) == 1 {
					idx, rhs = info.Defs[vs.Names[0]], vs.Values[0]
				}
			}
		}
		call, ok := ast.Unparen(rhs).(*ast.CallExpr)
		if idx == nil || !ok || len(call.Args) != 2 {
			return true
		}
		cal := calleeFunc(call, info)
		if cal == nil || cal.Pkg() == nil || cal.Pkg().Path() != "strings" || cal.Name() != "IndexAny" {
			return true
		}
		if id, ok := ast.Unparen(call.Args[0]).(*ast.Ident); !ok || info.Uses[id] != input {
			return true
		}
		if tv := info.Types[call.Args[1]]; tv.Value != nil && tv.Value.Kind() == constant.String {
			set = constant.StringVal(tv.Value)
		} else {
			return true
		}
		// if i < 0 { break }
		ifs, ok := loop.Body.List[1].(*ast.IfStmt)
		if !ok || len(ifs.Body.List) != 1 {
			return true
		}
		if br, ok := ifs.Body.List[0].(*ast.BranchStmt); !ok || br.Tok != token.BREAK {
			return true
		}
		be, ok := ast.Unparen(ifs.Cond).(*ast.BinaryExpr)
		if !ok || !((be.Op == token.LSS && exprKey(be.Y) == "0") || (be.Op == token.EQL && exprKey(be.Y) == "-1")) {
			return true
		}
		if id, ok := ast.Unparen(be.X).(*ast.Ident); !ok || info.Uses[id] != idx {
			return true
		}
		// no other break in the loop
		breaks := 0
		ast.Inspect(loop.Body, func(y ast.Node) bool {
			switch n := y.(type) {
			case *ast.BranchStmt:
				if n.Tok == token.BREAK {
					breaks++
				}
			case *ast.SwitchStmt, *ast.TypeSwitchStmt, *ast.SelectStmt, *ast.ForStmt, *ast.RangeStmt:
				if n != ast.Node(loop) {
					// a break inside binds to the inner statement
					inner := 0
					ast.Inspect(n, func(z ast.Node) bool {
						if b, ok := z.(*ast.BranchStmt); ok && b.Tok == token.BREAK && b.Label == nil {
							inner++
						}
						return true
					})
					breaks -= inner
				}
			}
			return true
		})
		if breaks != 1 {
			return true
		}
		// in = in[i+1:] as the last statement
		last, ok := loop.Body.List[len(loop.Body.List)-1].(*ast.AssignStmt)
		if !ok || len(last.Lhs) != 1 || len(last.Rhs) != 1 {
			return true
		}
		if id, ok := ast.Unparen(last.Lhs[0]).(*ast.Ident); !ok || info.Uses[id] != input {
			return true
		}
		se, ok := ast.Unparen(last.Rhs[0]).(*ast.SliceExpr)
		if !ok || se.High != nil || se.Low == nil {
			return true
		}
		if id, ok := ast.Unparen(se.X).(*ast.Ident); !ok || info.Uses[id] != input {
			return true
		}
		lb, ok := ast.Unparen(se.Low).(*ast.BinaryExpr)
		if !ok || lb.Op != token.ADD || exprKey(lb.Y) != "1" {
			return true
		}
		if id, ok := ast.Unparen(lb.X).(*ast.Ident); !ok || info.Uses[id] != idx {
			return true
		}
		out = &searchScan{loop: loop, set: set, idx: idx}
		return false
	})
	return out
}
