package main

import (
	"fmt"
	"go/ast"
	"go/constant"
	"go/token"
	"go/types"
	"sort"
	"strings"
)

// operatorKinds: node types the parser builds for operators (derived from the constructors).
func operatorKinds(c *Ctx) map[string]bool {
	pf := getParseFacts(c)
	if pf == nil {
		return nil
	}
	out := map[string]bool{}
	for _, name := range []string{"newBinaryOpNode", "newUnaryOpNode", "tree.parseTernary"} {
		fd := c.mustFunc("parse", name)
		if fd == nil {
			return nil
		}
		ast.Inspect(fd.Body, func(x ast.Node) bool {
			if cl, ok := x.(*ast.CompositeLit); ok {
				if tv, ok := pf.info.Types[cl]; ok {
					if r, tn, ok := relPkgOfType(tv.Type); ok && r == "ast" && tn != "BinaryOpNode" {
						out[tn] = true
					}
				}
			}
			return true
		})
	}
	return out
}

// stringMethodOf resolves the String method declaration used by *T (own or promoted from an embedded struct).
func stringMethodOf(c *Ctx, tn string) *ast.FuncDecl {
	p := c.pkg("ast")
	obj := p.Types.Scope().Lookup(tn)
	if obj == nil {
		return nil
	}
	ms := types.NewMethodSet(types.NewPointer(obj.Type()))
	sel := ms.Lookup(p.Types, "String")
	if sel == nil {
		return nil
	}
	fn := sel.Obj().(*types.Func)
	for _, fd := range c.allFuncDecls("ast") {
		if p.TypesInfo.Defs[fd.Name] == fn {
			return fd
		}
	}
	return nil
}

// R17a: operator printers parenthesise operands that are operator expressions.
func ruleR17a(c *Ctx) {
	p := c.pkg("ast")
	kinds := operatorKinds(c)
	if p == nil || kinds == nil {
		return
	}
	info := p.TypesInfo
	c.floor("R17a", "operator node kinds built by the parser", 17, len(kinds))
	// wrappers: functions of ast taking a Node and returning string whose type switch parenthesises a set of kinds
	parenSet := map[*types.Func]map[string]bool{}
	for _, fd := range c.allFuncDecls("ast") {
		if fd.Recv != nil || fd.Type.Params.NumFields() != 1 || fd.Type.Results.NumFields() != 1 {
			continue
		}
		set := map[string]bool{}
		ast.Inspect(fd.Body, func(x ast.Node) bool {
			cc, ok := x.(*ast.CaseClause)
			if !ok {
				return true
			}
			wraps := false
			for _, s := range cc.Body {
				if r, ok := s.(*ast.ReturnStmt); ok && len(r.Results) == 1 {
					parts := flattenConcat(r.Results[0])
					if len(parts) >= 3 && litOf(info, parts[0]) == "(" && litOf(info, parts[len(parts)-1]) == ")" {
						wraps = true
					}
				}
			}
			if wraps {
				for _, e := range cc.List {
					if tv, ok := info.Types[e]; ok && tv.IsType() {
						if _, tn, ok := relPkgOfType(tv.Type); ok {
							set[tn] = true
						}
					}
				}
			}
			return true
		})
		if len(set) == 0 {
			set = wrapsByPredicate(c, info, fd)
		}
		if len(set) > 0 {
			parenSet[info.Defs[fd.Name].(*types.Func)] = set
		}
	}
	done := map[*ast.FuncDecl]bool{}
	n := 0
	for _, tn := range sortedKeys(kinds) {
		fd := stringMethodOf(c, tn)
		if fd == nil {
			c.bad("R17a", "ast."+tn+".String", token.NoPos, "operator node "+tn+" has no String method")
			continue
		}
		if done[fd] {
			continue
		}
		done[fd] = true
		owner := recvTypeName(fd.Recv.List[0].Type)
		c.seen("ast." + owner + ".String")
		// each use of an Arg* field
		var stack []ast.Node
		ast.Inspect(fd.Body, func(x ast.Node) bool {
			if x == nil {
				stack = stack[:len(stack)-1]
				return true
			}
			stack = append(stack, x)
			se, ok := x.(*ast.SelectorExpr)
			if !ok || !strings.HasPrefix(se.Sel.Name, "Arg") {
				return true
			}
			if sel, ok := info.Selections[se]; !ok || sel.Kind() != types.FieldVal {
				return true
			}
			n++
			key := fmt.Sprintf("ast.%s.String operand %s", owner, se.Sel.Name)
			// parent must be a call W(n.ArgX)
			var w *types.Func
			if len(stack) >= 2 {
				if call, ok := stack[len(stack)-2].(*ast.CallExpr); ok && len(call.Args) == 1 && call.Args[0] == ast.Expr(se) {
					w = calleeFunc(call, info)
				}
			}
			set := parenSet[w]
			switch {
			case w == nil || set == nil:
				c.bad("R17a", key, se.Pos(), "the operand is printed bare: when it is itself an operator expression of lower precedence the printed text parses to a different tree ((1+2)*3 prints as 1 + 2 * 3)")
			default:
				var missing []string
				for k := range kinds {
					if !set[k] {
						missing = append(missing, k)
					}
				}
				if len(missing) > 0 {
					c.bad("R17a", key, se.Pos(), "printed through "+w.Name()+", which does not parenthesise operands of kind "+strings.Join(sortedStrings(missing), ", "))
				} else {
					c.ok("R17a", key, se.Pos(), fmt.Sprintf("printed through %s, which parenthesises all %d operator kinds", w.Name(), len(kinds)))
				}
			}
			return true
		})
	}
	c.floor("R17a", "operand slots of operator printers", 7, n)
}

func sortedStrings(s []string) []string {
	m := map[string]bool{}
	for _, x := range s {
		m[x] = true
	}
	return sortedKeys(m)
}

func flattenConcat(e ast.Expr) []ast.Expr {
	e = ast.Unparen(e)
	if be, ok := e.(*ast.BinaryExpr); ok && be.Op == token.ADD {
		return append(flattenConcat(be.X), flattenConcat(be.Y)...)
	}
	return []ast.Expr{e}
}

func litOf(info *types.Info, e ast.Expr) string {
	if v := info.Types[e].Value; v != nil && v.Kind() == constant.String {
		return constant.StringVal(v)
	}
	return "\x00"
}

// quoteFuncs: functions of a package that quote a string as a Soy literal: they escape both the
// backslash and the single quote.
func quoteFuncs(c *Ctx, rel string) map[*types.Func]bool {
	out := map[*types.Func]bool{}
	p := c.pkg(rel)
	if p == nil {
		return out
	}
	for _, fd := range c.allFuncDecls(rel) {
		pairs, _, _ := escapePairs(c, rel, fd)
		_, bs := pairs['\\']
		_, q := pairs['\'']
		if bs && q {
			out[p.TypesInfo.Defs[fd.Name].(*types.Func)] = true
		}
	}
	return out
}

// R17b: free text (map keys) is re-quoted when printed.
func ruleR17b(c *Ctx) {
	p := c.pkg("ast")
	fd := c.mustFunc("ast", "MapLiteralNode.String")
	if p == nil || fd == nil {
		return
	}
	info := p.TypesInfo
	c.seen("ast.MapLiteralNode.String")
	quotes := quoteFuncs(c, "ast")
	// key variables: range variables over n.Items (key) or over a []string
	keyVars := map[types.Object]bool{}
	ast.Inspect(fd.Body, func(x ast.Node) bool {
		rs, ok := x.(*ast.RangeStmt)
		if !ok {
			return true
		}
		tv, ok := info.Types[rs.X]
		if !ok {
			return true
		}
		switch t := tv.Type.Underlying().(type) {
		case *types.Map:
			if id, ok := rs.Key.(*ast.Ident); ok && id.Name != "_" {
				keyVars[info.Defs[id]] = true
			}
		case *types.Slice:
			if b, ok := t.Elem().(*types.Basic); ok && b.Kind() == types.String {
				if id, ok := rs.Value.(*ast.Ident); ok && id.Name != "_" {
					keyVars[info.Defs[id]] = true
				}
			}
		}
		return true
	})
	if len(keyVars) == 0 {
		c.unk("R17b", "ast.MapLiteralNode.String key", fd.Pos(), "the loop over the literal's keys was not recognised")
		return
	}
	uses, quoted := 0, 0
	var stack []ast.Node
	ast.Inspect(fd.Body, func(x ast.Node) bool {
		if x == nil {
			stack = stack[:len(stack)-1]
			return true
		}
		stack = append(stack, x)
		id, ok := x.(*ast.Ident)
		if !ok || !keyVars[info.Uses[id]] {
			return true
		}
		parent := stack[len(stack)-2]
		if ix, ok := parent.(*ast.IndexExpr); ok && ix.Index == ast.Expr(id) {
			return true // n.Items[k]: a lookup, not printing
		}
		uses++
		if call, ok := parent.(*ast.CallExpr); ok {
			if cal := calleeFunc(call, info); cal != nil && quotes[cal] {
				quoted++
			}
		}
		return true
	})
	c.check(uses > 0 && uses == quoted, "R17b", "ast.MapLiteralNode.String key", fd.Pos(),
		"every printed key passes a function that escapes backslash and quote", fmt.Sprintf("%d of %d printed uses of the key are not quoted: a key containing a quote or backslash prints text that does not parse back", uses-quoted, uses))
}

// R17c: no printer depends on map iteration order.
func ruleR17c(c *Ctx) {
	nf, _ := runMapOrder(c, "R17c", nil, func(rel string, fd *ast.FuncDecl) bool {
		return rel == "ast" && fd.Recv != nil && (fd.Name.Name == "String" || fd.Name.Name == "Children" || fd.Name.Name == "sortedKeys")
	})
	c.floor("R17c", "printing methods examined", 40, nf)
}

// R17d: the unary minus is printed apart from its operand; R17e: floats print as float literals.
func ruleR17d(c *Ctx) {
	p := c.pkg("ast")
	if p == nil {
		return
	}
	info := p.TypesInfo
	if fd := c.mustFunc("ast", "NegateNode.String"); fd != nil {
		first := ""
		ast.Inspect(fd.Body, func(x ast.Node) bool {
			if r, ok := x.(*ast.ReturnStmt); ok && len(r.Results) == 1 && first == "" {
				first = litOf(info, flattenConcat(r.Results[0])[0])
			}
			return true
		})
		c.check(strings.HasPrefix(first, "-") && len(first) > 1 && (first[1] == ' ' || first[1] == '('), "R17d", "ast.NegateNode.String separator", fd.Pos(),
			"the minus sign is followed by a separator: '- 5' (negated 5) and '-5' (literal) print differently",
			fmt.Sprintf("the minus sign is printed directly before its operand (%q): a negated 5 prints like the literal -5, and a negated negative literal prints '--5'", first))
	}
	if fd := c.mustFunc("ast", "FloatNode.String"); fd != nil {
		has := false
		ast.Inspect(fd.Body, func(x ast.Node) bool {
			if e, ok := x.(ast.Expr); ok && litOf(info, e) == ".0" {
				has = true
			}
			return true
		})
		// the decision must look at the formatted text (is there a '.' or an exponent?), not at the value:
		// large integral values format with an exponent and must not get a second suffix
		textual := false
		ast.Inspect(fd.Body, func(x ast.Node) bool {
			ifs, ok := x.(*ast.IfStmt)
			if !ok {
				return true
			}
			appends := false
			ast.Inspect(ifs.Body, func(y ast.Node) bool {
				if e, ok := y.(ast.Expr); ok && litOf(info, e) == ".0" {
					appends = true
				}
				return true
			})
			if !appends {
				return true
			}
			ast.Inspect(ifs.Cond, func(y ast.Node) bool {
				if call, ok := y.(*ast.CallExpr); ok {
					if cal := calleeFunc(call, info); cal != nil && cal.Pkg() != nil && cal.Pkg().Path() == "strings" {
						textual = true
					}
				}
				return true
			})
			return true
		})
		c.check(has && textual, "R17e", "ast.FloatNode.String float-literal", fd.Pos(), "values whose formatted text has neither '.' nor exponent get a '.0', so they parse back as floats",
			"the '.0' suffix is missing, or is decided from the value instead of the formatted text: integral floats parse back as integers, or large ones print as 1e+21.0, which is not a number literal")
	}
}

// R17f: the printer's string quoting (ast.quoteString) and the parser's unquoting (parse.unescapes,
// \uNNNN with exactly four hex digits) are inverse tables. Each escaping arm writes a backslash and a letter
// the parser maps back to the arm's character; every other character is written as itself; a formatted
// \u escape is allowed only where the character is known to fit four hex digits.
func ruleR17f(c *Ctx) {
	ap, pp := c.pkg("ast"), c.pkg("parse")
	fd := c.mustFunc("ast", "quoteString")
	if ap == nil || pp == nil || fd == nil {
		return
	}
	// the parser's table
	un := map[rune]rune{}
	if init := c.pkgVarInit("parse", "unescapes"); init != nil {
		if cl, ok := init.(*ast.CompositeLit); ok {
			for _, el := range cl.Elts {
				if kv, ok := el.(*ast.KeyValueExpr); ok {
					k, v := pp.TypesInfo.Types[kv.Key].Value, pp.TypesInfo.Types[kv.Value].Value
					if k != nil && v != nil {
						ki, _ := constant.Int64Val(k)
						vi, _ := constant.Int64Val(v)
						un[rune(ki)] = rune(vi)
					}
				}
			}
		}
	}
	if len(un) == 0 {
		c.fatalf("anchor: parse.unescapes table not resolved")
		return
	}
	pairs, at, plainDefault := escapePairs(c, "ast", fd)
	if len(pairs) == 0 {
		c.fatalf("anchor: ast.quoteString's escaping table (a switch over the character, or a map it indexes) not found")
		return
	}
	var chars []int
	for ch := range pairs {
		chars = append(chars, int(ch))
	}
	sort.Ints(chars)
	for _, ci := range chars {
		written := pairs[rune(ci)]
		rs := []rune(written)
		good := len(rs) == 2 && rs[0] == '\\' && un[rs[1]] == rune(ci)
		c.check(good, "R17f", fmt.Sprintf("ast.quoteString case %q", rune(ci)), at, fmt.Sprintf("written as %q, which the parser reads back as %q", written, rune(ci)),
			fmt.Sprintf("written as %q, which the parser's escape table does not read back as %q", written, rune(ci)))
	}
	c.floor("R17f", "escaping arms of ast.quoteString", 5, len(chars))
	switch plainDefault {
	case 1:
		c.ok("R17f", "ast.quoteString default", at, "every other character is written as itself")
	default:
		// a formatted \u escape must be bounded to four hex digits (a condition naming U+FFFF / 0x10000)
		info := ap.TypesInfo
		hasU, bounded := false, false
		ast.Inspect(fd.Body, func(y ast.Node) bool {
			switch n := y.(type) {
			case *ast.BasicLit:
				if strings.Contains(n.Value, `\u%`) {
					hasU = true
				}
			case *ast.IfStmt:
				ast.Inspect(n.Cond, func(z ast.Node) bool {
					if e, isE := z.(ast.Expr); isE {
						if tv, has := info.Types[e]; has && tv.Value != nil && tv.Value.Kind() == constant.Int {
							if v, exact := constant.Int64Val(tv.Value); exact && (v == 0xFFFF || v == 0x10000) {
								bounded = true
							}
						}
					}
					return true
				})
			}
			return true
		})
		if hasU && !bounded {
			c.bad("R17f", "ast.quoteString default", at, "characters without an escape of their own are written with a formatted \\u escape that is not limited to U+FFFF: above it the escape has more than four hex digits, which the parser reads as a four-digit escape followed by a literal digit, so the printed literal parses back to a different string")
		} else {
			c.unk("R17f", "ast.quoteString default", at, "characters without an escape of their own are not simply written as themselves; agreement with the parser's unquoting is not decided")
		}
	}
}

// R17g: the float printer writes exponents with an explicit sign (strconv.FormatFloat, format 'g': 1e+06,
// 2.5e-07), so the scanner's exponent must accept both signs: after the accept of the exponent letter the
// scanner accepts an optional sign from a set holding '+' and '-'.
func ruleR17g(c *Ctx) {
	p := c.pkg("parse")
	fd := c.mustFunc("parse", "scanNumber")
	ap := c.pkg("ast")
	pr := c.mustFunc("ast", "FloatNode.String")
	if p == nil || fd == nil || ap == nil || pr == nil {
		return
	}
	info := p.TypesInfo
	// the printer formats with FormatFloat (signed exponents) — otherwise the obligation does not arise
	usesFormatFloat := false
	ast.Inspect(pr.Body, func(x ast.Node) bool {
		if call, ok := x.(*ast.CallExpr); ok {
			if cal := calleeFunc(call, ap.TypesInfo); cal != nil && cal.FullName() == "strconv.FormatFloat" {
				usesFormatFloat = true
			}
		}
		return true
	})
	acceptSet := func(e ast.Expr) (string, bool) {
		call, ok := ast.Unparen(e).(*ast.CallExpr)
		if !ok || len(call.Args) != 1 {
			return "", false
		}
		cal := calleeFunc(call, info)
		if cal == nil || (cal.Name() != "accept" && cal.Name() != "acceptRun") {
			return "", false
		}
		tv := info.Types[call.Args[0]]
		if tv.Value == nil || tv.Value.Kind() != constant.String {
			return "", false
		}
		return constant.StringVal(tv.Value), true
	}
	n := 0
	ast.Inspect(fd.Body, func(x ast.Node) bool {
		ifs, ok := x.(*ast.IfStmt)
		if !ok {
			return true
		}
		set, ok := acceptSet(ifs.Cond)
		if !ok || !strings.ContainsAny(set, "eE") || strings.ContainsAny(set, "0123456789") {
			return true
		}
		n++
		signs := ""
		ast.Inspect(ifs.Body, func(y ast.Node) bool {
			if e, ok := y.(ast.Expr); ok {
				if s, ok := acceptSet(e); ok && !strings.ContainsAny(s, "0123456789") {
					signs += s
				}
			}
			return true
		})
		good := strings.Contains(signs, "+") && strings.Contains(signs, "-")
		c.check(good || !usesFormatFloat, "R17g", "parse.scanNumber exponent-sign", ifs.Pos(), "the exponent accepts '+' and '-', the signs the float printer writes",
			fmt.Sprintf("after the exponent letter the scanner accepts a sign from %q only, but FloatNode.String prints exponents as FormatFloat writes them, with an explicit '+' or '-' (1e+06): such a float no longer parses back", signs))
		return true
	})
	c.floor("R17g", "exponent branches in scanNumber", 1, n)
}

// escapePairs extracts the escaping table a quoting function applies to each character: from a switch over
// the character whose arms write constant strings, or from a package-level map[rune]string the function
// indexes by the character. It also reports where the table sits and whether every other character is
// written as itself (the default arm, or the else of the table look-up, is a plain WriteRune of the character).
func escapePairs(c *Ctx, rel string, fd *ast.FuncDecl) (pairs map[rune]string, at token.Pos, plainDefault int) {
	p := c.Pkgs[rel]
	info := p.TypesInfo
	pairs = map[rune]string{}
	plainDefault = -1 // unknown
	isPlainWrite := func(body []ast.Stmt, ch string) bool {
		if len(body) != 1 {
			return false
		}
		es, ok := body[0].(*ast.ExprStmt)
		if !ok {
			return false
		}
		call, ok := es.X.(*ast.CallExpr)
		if !ok || len(call.Args) != 1 {
			return false
		}
		se, ok := call.Fun.(*ast.SelectorExpr)
		return ok && se.Sel.Name == "WriteRune" && exprKey(call.Args[0]) == ch
	}
	// (a) switch form
	ast.Inspect(fd.Body, func(x ast.Node) bool {
		sw, ok := x.(*ast.SwitchStmt)
		if !ok || sw.Tag == nil || len(pairs) > 0 {
			return true
		}
		local := map[rune]string{}
		def := -1
		for _, cl := range sw.Body.List {
			cc := cl.(*ast.CaseClause)
			if cc.List == nil {
				def = 0
				if isPlainWrite(cc.Body, exprKey(sw.Tag)) {
					def = 1
				}
				continue
			}
			written := ""
			ast.Inspect(&ast.BlockStmt{List: cc.Body}, func(y ast.Node) bool {
				if call, ok := y.(*ast.CallExpr); ok && len(call.Args) == 1 {
					if atv := info.Types[call.Args[0]]; atv.Value != nil && atv.Value.Kind() == constant.String {
						written += constant.StringVal(atv.Value)
					}
				}
				return true
			})
			for _, e := range cc.List {
				if v := info.Types[e].Value; v != nil && v.Kind() == constant.Int {
					i, _ := constant.Int64Val(v)
					local[rune(i)] = written
				}
			}
		}
		if len(local) > 0 {
			pairs, at, plainDefault = local, sw.Pos(), def
		}
		return true
	})
	if len(pairs) > 0 {
		return
	}
	// (b) table form: if esc, ok := table[ch]; ok { write(esc) } else { WriteRune(ch) }
	ast.Inspect(fd.Body, func(x ast.Node) bool {
		ifs, ok := x.(*ast.IfStmt)
		if !ok || ifs.Init == nil || len(pairs) > 0 {
			return true
		}
		as, ok := ifs.Init.(*ast.AssignStmt)
		if !ok || len(as.Rhs) != 1 {
			return true
		}
		ix, ok := ast.Unparen(as.Rhs[0]).(*ast.IndexExpr)
		if !ok {
			return true
		}
		id, ok := ast.Unparen(ix.X).(*ast.Ident)
		if !ok {
			return true
		}
		v, ok := info.Uses[id].(*types.Var)
		if !ok || v.Parent() != v.Pkg().Scope() {
			return true
		}
		init := c.pkgVarInit(rel, v.Name())
		cl, ok := init.(*ast.CompositeLit)
		if !ok {
			return true
		}
		local := map[rune]string{}
		for _, el := range cl.Elts {
			kv, ok := el.(*ast.KeyValueExpr)
			if !ok {
				continue
			}
			kvv, vv := info.Types[kv.Key].Value, info.Types[kv.Value].Value
			if kvv != nil && vv != nil && vv.Kind() == constant.String {
				i, _ := constant.Int64Val(kvv)
				local[rune(i)] = constant.StringVal(vv)
			}
		}
		if len(local) == 0 {
			return true
		}
		def := 0
		if blk, ok := ifs.Else.(*ast.BlockStmt); ok && isPlainWrite(blk.List, exprKey(ix.Index)) {
			def = 1
		}
		pairs, at, plainDefault = local, ifs.Pos(), def
		return true
	})
	return
}

// R17i: a data reference prints each of its accesses through that access node's own String(): in
// DataRefNode.String the loop over Access contains no type switch or assertion on the element that prints
// some kinds by hand (a hand-written copy of a child's format drifts from the child's own — the null-safe
// '?' of one kind was forgotten that way).
func ruleR17i(c *Ctx) {
	p := c.pkg("ast")
	fd := c.mustFunc("ast", "DataRefNode.String")
	if p == nil || fd == nil {
		return
	}
	info := p.TypesInfo
	n := 0
	ast.Inspect(fd.Body, func(x ast.Node) bool {
		rs, ok := x.(*ast.RangeStmt)
		if !ok || rs.Value == nil {
			return true
		}
		if fv := fieldOf(rs.X, info); fv == nil || fv.Name() != "Access" {
			return true
		}
		n++
		vid, _ := rs.Value.(*ast.Ident)
		var elem types.Object
		if vid != nil {
			elem = info.Defs[vid]
		}
		delegates, byHand := false, false
		ast.Inspect(rs.Body, func(y ast.Node) bool {
			switch e := y.(type) {
			case *ast.CallExpr:
				if se, ok := e.Fun.(*ast.SelectorExpr); ok && se.Sel.Name == "String" && len(e.Args) == 0 {
					if id, ok := ast.Unparen(se.X).(*ast.Ident); ok && info.Uses[id] == elem {
						delegates = true
					}
				}
			case *ast.TypeSwitchStmt:
				byHand = true
			case *ast.TypeAssertExpr:
				if id, ok := ast.Unparen(e.X).(*ast.Ident); ok && info.Uses[id] == elem {
					byHand = true
				}
			}
			return true
		})
		c.check(delegates && !byHand, "R17i", "ast.DataRefNode.String prints-accesses-through-their-own-String", rs.Pos(),
			"every access is printed by its own String()", "the reference prints some kinds of access by hand instead of through the access node's own String(): the two formats can differ (a forgotten '?'), and the printed reference parses back to a different one")
		return true
	})
	c.floor("R17i", "loops over the accesses in DataRefNode.String", 1, n)
}

// kindPredicates: functions of ast taking one Node and returning bool whose type switch answers true for a set
// of node kinds (isOperator and the like).
func kindPredicates(c *Ctx, info *types.Info) map[*types.Func]map[string]bool {
	out := map[*types.Func]map[string]bool{}
	for _, fd := range c.allFuncDecls("ast") {
		if fd.Recv != nil || fd.Body == nil || fd.Type.Params.NumFields() != 1 || fd.Type.Results == nil || fd.Type.Results.NumFields() != 1 {
			continue
		}
		if tv, ok := info.Types[fd.Type.Results.List[0].Type]; !ok || !types.Identical(tv.Type, types.Typ[types.Bool]) {
			continue
		}
		set := map[string]bool{}
		ast.Inspect(fd.Body, func(x ast.Node) bool {
			cc, ok := x.(*ast.CaseClause)
			if !ok {
				return true
			}
			yes := false
			for _, s := range cc.Body {
				if r, ok := s.(*ast.ReturnStmt); ok && len(r.Results) == 1 {
					if tv, ok := info.Types[r.Results[0]]; ok && tv.Value != nil && tv.Value.Kind() == constant.Bool && constant.BoolVal(tv.Value) {
						yes = true
					}
				}
			}
			if yes {
				for _, e := range cc.List {
					if tv, ok := info.Types[e]; ok && tv.IsType() {
						if _, tn, ok := relPkgOfType(tv.Type); ok {
							set[tn] = true
						}
					}
				}
			}
			return true
		})
		if len(set) > 0 {
			out[info.Defs[fd.Name].(*types.Func)] = set
		}
	}
	return out
}

// wrapsByPredicate: the wrapper decides with a kind predicate instead of its own type switch:
// `if pred(n) { return "(" + .. + ")" }` or `if !pred(n) { return n.String() }; return "(" + .. + ")"`.
func wrapsByPredicate(c *Ctx, info *types.Info, fd *ast.FuncDecl) map[string]bool {
	if fd.Body == nil {
		return nil
	}
	preds := kindPredicates(c, info)
	isWrap := func(s ast.Stmt) bool {
		r, ok := s.(*ast.ReturnStmt)
		if !ok || len(r.Results) != 1 {
			return false
		}
		parts := flattenConcat(r.Results[0])
		return len(parts) >= 3 && litOf(info, parts[0]) == "(" && litOf(info, parts[len(parts)-1]) == ")"
	}
	anyWrap := func(list []ast.Stmt) bool {
		for _, s := range list {
			if isWrap(s) {
				return true
			}
		}
		return false
	}
	for i, s := range fd.Body.List {
		is, ok := s.(*ast.IfStmt)
		if !ok || is.Init != nil {
			continue
		}
		cond, neg := ast.Unparen(is.Cond), false
		if u, ok := cond.(*ast.UnaryExpr); ok && u.Op == token.NOT {
			cond, neg = ast.Unparen(u.X), true
		}
		call, ok := cond.(*ast.CallExpr)
		if !ok {
			continue
		}
		fn := calleeFunc(call, info)
		set := preds[fn]
		if set == nil {
			continue
		}
		rest := fd.Body.List[i+1:]
		var els []ast.Stmt
		if b, ok := is.Else.(*ast.BlockStmt); ok {
			els = b.List
		}
		if !neg && anyWrap(is.Body.List) && !anyWrap(rest) && !anyWrap(els) {
			return set
		}
		if neg && !anyWrap(is.Body.List) && (anyWrap(rest) || anyWrap(els)) {
			return set
		}
	}
	return nil
}
