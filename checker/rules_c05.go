package main

import (
	"fmt"
	"go/ast"
	"go/constant"
	"go/token"
	"go/types"
	"sort"
	"strings"
)

// ---------------------------------------------------------------------------
// shared discovery for package parse

type parseFacts struct {
	info       *types.Info
	funcs      map[*types.Func]*ast.FuncDecl
	calls      map[*types.Func][]*types.Func // static callees (go statements excluded)
	runePrims  map[*types.Func]bool          // call utf8.DecodeRuneInString directly
	tokPrims   map[*types.Func]bool          // call (*lexer).nextItem directly
	lexerTypes map[*types.Named]bool         // receiver types of rune primitives
	treeTypes  map[*types.Named]bool         // receiver types of token primitives
	runeReads  map[*types.Func]bool          // transitive, within lexer-scoped functions
	tokReads   map[*types.Func]bool
	itemConsts map[string]*types.Const // itemType constants by name
	itemType   types.Type
	eofConst   *types.Const
}

func namedOf(t types.Type) *types.Named {
	if p, ok := t.(*types.Pointer); ok {
		t = p.Elem()
	}
	n, _ := t.(*types.Named)
	return n
}

func getParseFacts(c *Ctx) *parseFacts {
	p := c.pkg("parse")
	if p == nil {
		return nil
	}
	pf := &parseFacts{info: p.TypesInfo, funcs: map[*types.Func]*ast.FuncDecl{}, calls: map[*types.Func][]*types.Func{},
		runePrims: map[*types.Func]bool{}, tokPrims: map[*types.Func]bool{}, lexerTypes: map[*types.Named]bool{},
		treeTypes: map[*types.Named]bool{}, runeReads: map[*types.Func]bool{}, tokReads: map[*types.Func]bool{},
		itemConsts: map[string]*types.Const{}}
	for _, fd := range c.allFuncDecls("parse") {
		fn, _ := p.TypesInfo.Defs[fd.Name].(*types.Func)
		if fn == nil {
			continue
		}
		pf.funcs[fn] = fd
	}
	// item type constants
	if o := p.Types.Scope().Lookup("itemEOF"); o != nil {
		pf.itemType = o.Type()
	} else {
		c.fatalf("anchor: constant parse.itemEOF not found")
		return nil
	}
	for _, n := range p.Types.Scope().Names() {
		if k, ok := p.Types.Scope().Lookup(n).(*types.Const); ok && types.Identical(k.Type(), pf.itemType) {
			pf.itemConsts[n] = k
		}
	}
	if k, ok := p.Types.Scope().Lookup("eof").(*types.Const); ok {
		pf.eofConst = k
	} else {
		c.fatalf("anchor: constant parse.eof not found")
		return nil
	}
	var nextItem *types.Func
	for fn, fd := range pf.funcs {
		inGo := map[*ast.CallExpr]bool{}
		ast.Inspect(fd.Body, func(n ast.Node) bool {
			if g, ok := n.(*ast.GoStmt); ok {
				inGo[g.Call] = true
			}
			call, ok := n.(*ast.CallExpr)
			if !ok || inGo[call] {
				return true
			}
			var id *ast.Ident
			switch f := ast.Unparen(call.Fun).(type) {
			case *ast.Ident:
				id = f
			case *ast.SelectorExpr:
				id = f.Sel
			}
			if id == nil {
				return true
			}
			callee, _ := p.TypesInfo.Uses[id].(*types.Func)
			if callee == nil {
				return true
			}
			if callee.FullName() == "unicode/utf8.DecodeRuneInString" {
				pf.runePrims[fn] = true
			}
			if callee.Pkg() == p.Types {
				pf.calls[fn] = append(pf.calls[fn], callee)
			}
			return true
		})
		// the token primitive's source: a method whose body is a receive from a channel field
		if sig := fn.Type().(*types.Signature); sig.Recv() != nil && fd.Body != nil && len(fd.Body.List) == 1 {
			if rs, ok := fd.Body.List[0].(*ast.ReturnStmt); ok && len(rs.Results) == 1 {
				if u, ok := rs.Results[0].(*ast.UnaryExpr); ok && u.Op == token.ARROW {
					nextItem = fn
				}
			}
		}
	}
	if nextItem == nil {
		c.fatalf("anchor: no method of the form `return <-l.items` (the token source) found in parse")
		return nil
	}
	for fn := range pf.funcs {
		for _, cal := range pf.calls[fn] {
			if cal == nextItem {
				pf.tokPrims[fn] = true
			}
		}
	}
	for fn := range pf.runePrims {
		if r := fn.Type().(*types.Signature).Recv(); r != nil {
			if n := namedOf(r.Type()); n != nil {
				pf.lexerTypes[n] = true
			}
		}
	}
	for fn := range pf.tokPrims {
		if r := fn.Type().(*types.Signature).Recv(); r != nil {
			if n := namedOf(r.Type()); n != nil {
				pf.treeTypes[n] = true
			}
		}
	}
	if len(pf.lexerTypes) == 0 || len(pf.treeTypes) == 0 {
		c.fatalf("anchor: lexer types (%d) or tree types (%d) could not be identified", len(pf.lexerTypes), len(pf.treeTypes))
		return nil
	}
	// transitive closures, restricted to functions scoped to the respective type
	closure := func(prims map[*types.Func]bool, scoped func(*types.Func) bool, out map[*types.Func]bool) {
		for f := range prims {
			out[f] = true
		}
		for changed := true; changed; {
			changed = false
			for fn := range pf.funcs {
				if out[fn] || !scoped(fn) {
					continue
				}
				for _, cal := range pf.calls[fn] {
					if out[cal] {
						out[fn] = true
						changed = true
						break
					}
				}
			}
		}
	}
	closure(pf.runePrims, func(fn *types.Func) bool { return pf.scopedTo(fn, pf.lexerTypes) }, pf.runeReads)
	closure(pf.tokPrims, func(fn *types.Func) bool { return pf.scopedTo(fn, pf.treeTypes) }, pf.tokReads)
	return pf
}

// scopedTo: the function has a receiver, parameter or local variable of one of the types.
func (pf *parseFacts) scopedTo(fn *types.Func, ts map[*types.Named]bool) bool {
	fd := pf.funcs[fn]
	if fd == nil {
		return false
	}
	return nodeScopedTo(fd, pf.info, ts)
}

func nodeScopedTo(n ast.Node, info *types.Info, ts map[*types.Named]bool) bool {
	found := false
	ast.Inspect(n, func(n ast.Node) bool {
		if found {
			return false
		}
		if id, ok := n.(*ast.Ident); ok {
			if v, ok := info.Defs[id].(*types.Var); ok && !v.IsField() {
				if nt := namedOf(v.Type()); nt != nil && ts[nt] {
					found = true
				}
			}
		}
		return true
	})
	return found
}

// ---------------------------------------------------------------------------
// hypotheses

// lexEOF: the scanner is at end of input: pos >= len(input) holds.
type lexEOF struct{ pf *parseFacts }

func stripConv(e ast.Expr, info *types.Info) ast.Expr {
	for {
		e = ast.Unparen(e)
		call, ok := e.(*ast.CallExpr)
		if !ok || len(call.Args) != 1 {
			return e
		}
		if tv, ok := info.Types[call.Fun]; ok && tv.IsType() {
			e = call.Args[0]
			continue
		}
		return e
	}
}

func (h lexEOF) expr(ev *evaluator, e ast.Expr, info *types.Info) (aval, bool) {
	be, ok := e.(*ast.BinaryExpr)
	if !ok || (be.Op != token.GEQ && be.Op != token.LSS) {
		return unknown, false
	}
	x := stripConv(be.X, info)
	y := stripConv(be.Y, info)
	xs, ok := x.(*ast.SelectorExpr)
	if !ok || xs.Sel.Name != "pos" {
		return unknown, false
	}
	call, ok := y.(*ast.CallExpr)
	if !ok || len(call.Args) != 1 {
		return unknown, false
	}
	if id, ok := call.Fun.(*ast.Ident); !ok || id.Name != "len" {
		return unknown, false
	}
	ys, ok := ast.Unparen(call.Args[0]).(*ast.SelectorExpr)
	if !ok {
		return unknown, false
	}
	if types.ExprString(xs.X) != types.ExprString(ys.X) {
		return unknown, false
	}
	// receiver must be of a lexer type
	if tv, ok := info.Types[xs.X]; !ok || namedOf(tv.Type) == nil || !h.pf.lexerTypes[namedOf(tv.Type)] {
		return unknown, false
	}
	return boolVal(be.Op == token.GEQ), true
}
func (h lexEOF) prim(ev *evaluator, fn *types.Func, call *ast.CallExpr, st state) (aval, bool) {
	return unknown, false
}
func (h lexEOF) isRead(fn *types.Func) bool { return h.pf.runeReads[fn] }

// tokEnd: the token stream is exhausted: every token read yields kind T.
type tokEnd struct {
	pf *parseFacts
	t  *types.Const
}

func (h tokEnd) expr(ev *evaluator, e ast.Expr, info *types.Info) (aval, bool) { return unknown, false }
func (h tokEnd) prim(ev *evaluator, fn *types.Func, call *ast.CallExpr, st state) (aval, bool) {
	if h.pf.tokPrims[fn] {
		return aval{k: avStruct, fields: map[string]aval{"typ": constVal(h.t.Val())}}, true
	}
	return unknown, false
}
func (h tokEnd) isRead(fn *types.Func) bool { return h.pf.tokReads[fn] }

// ---------------------------------------------------------------------------

type loopSite struct {
	fn   *types.Func
	fd   *ast.FuncDecl
	loop *ast.ForStmt
	key  string
	lbl  string
}

// readingLoops lists the non-range for statements of functions scoped to ts
// that contain a read (per isRead), keyed by function + ordinal.
func readingLoops(c *Ctx, pf *parseFacts, ev *evaluator, ts map[*types.Named]bool) []loopSite {
	var out []loopSite
	var fns []*types.Func
	for fn := range pf.funcs {
		fns = append(fns, fn)
	}
	sort.Slice(fns, func(i, j int) bool {
		return c.declKey("parse", pf.funcs[fns[i]]) < c.declKey("parse", pf.funcs[fns[j]])
	})
	for _, fn := range fns {
		fd := pf.funcs[fn]
		if !nodeScopedTo(fd, pf.info, ts) {
			continue
		}
		n := 0
		labels := map[*ast.ForStmt]string{}
		ast.Inspect(fd.Body, func(x ast.Node) bool {
			if ls, ok := x.(*ast.LabeledStmt); ok {
				if f, ok := ls.Stmt.(*ast.ForStmt); ok {
					labels[f] = ls.Label.Name
				}
			}
			return true
		})
		ast.Inspect(fd.Body, func(x ast.Node) bool {
			f, ok := x.(*ast.ForStmt)
			if !ok {
				return true
			}
			n++
			if ev.loopReads(f, pf.info) {
				out = append(out, loopSite{fn, fd, f, fmt.Sprintf("%s#for%d", c.declKey("parse", fd), n), labels[f]})
			}
			return true
		})
	}
	return out
}

func describeSpin(c *Ctx, ev *evaluator, res loopResult) string {
	var parts []string
	for _, s := range res.spins {
		k := s.env.key()
		if k == "" {
			k = "(no facts)"
		}
		parts = append(parts, k)
	}
	sort.Strings(parts)
	if len(parts) > 3 {
		parts = parts[:3]
	}
	return strings.Join(parts, " | ")
}

// R05a: every scanner loop leaves when input is exhausted.
func ruleR05a(c *Ctx) {
	pf := getParseFacts(c)
	if pf == nil {
		return
	}
	h := lexEOF{pf}
	ev := newEvaluator(c, h)
	// establish the hypothesis on the primitive: at end of input the rune read yields eof
	for fn := range pf.runePrims {
		fd := pf.funcs[fn]
		sig := fn.Type().(*types.Signature)
		if sig.Results().Len() != 1 {
			continue
		}
		// only the primitive with an explicit end-of-input arm is required to return eof
		comps := ev.execBlock(fd.Body.List, state{env: env{}}, pf.info)
		allEOF := true
		for _, cp := range comps {
			if cp.kind != cReturn || len(cp.vals) != 1 || cp.vals[0].k != avConst || !constant.Compare(cp.vals[0].c, token.EQL, pf.eofConst.Val()) {
				allEOF = false
			}
		}
		key := c.declKey("parse", fd)
		if namedOf(sig.Recv().Type()).Obj().Name() == "lexer" {
			c.check(allEOF, "R05a", key+"#eof-return", fd.Pos(), "at pos>=len(input) the rune read returns eof on every path",
				"the scanner's rune read does not return eof at end of input, so no loop can notice the end")
		}
	}
	loops := readingLoops(c, pf, ev, pf.lexerTypes)
	for _, ls := range loops {
		c.seen(c.declKey("parse", ls.fd))
		ev.notes = map[string]bool{}
		res := ev.runLoop(ls.loop, ls.lbl, []state{{env: env{}}}, pf.info)
		notes := strings.Join(sortedKeys(ev.notes), ",")
		switch {
		case len(res.spins) == 0 && (ev.notes["budget exhausted"] || ev.notes["fork cap reached in block"]):
			c.unk("R05a", ls.key, ls.loop.Pos(), "evaluation incomplete: "+notes)
		case len(res.spins) == 0:
			c.ok("R05a", ls.key, ls.loop.Pos(), fmt.Sprintf("with every rune read yielding eof, all %d abstract paths leave the loop within %d iterations", len(res.exits), unroll))
		default:
			c.bad("R05a", ls.key, ls.loop.Pos(), "with every rune read yielding eof the loop can repeat without leaving (head facts: "+describeSpin(c, ev, res)+"); an input truncated here never returns")
		}
	}
	c.floor("R05a", "scanner loops that read input", 10, len(loops))
}

// R05b: every parser loop leaves once the token stream is exhausted.
func ruleR05b(c *Ctx) {
	pf := getParseFacts(c)
	if pf == nil {
		return
	}
	terms := []string{"itemInvalid", "itemEOF", "itemError"}
	type verdict struct {
		spins  bool
		detail string
		undec  bool
	}
	results := map[string]map[string]verdict{}
	var order []loopSite
	for _, tn := range terms {
		k := pf.itemConsts[tn]
		if k == nil {
			c.fatalf("anchor: constant parse.%s not found", tn)
			return
		}
		ev := newEvaluator(c, tokEnd{pf, k})
		loops := readingLoops(c, pf, ev, pf.treeTypes)
		if tn == terms[0] {
			order = loops
		}
		for _, ls := range loops {
			ev.notes = map[string]bool{}
			ev.steps = 0
			res := ev.runLoop(ls.loop, ls.lbl, []state{{env: env{}}}, pf.info)
			if results[ls.key] == nil {
				results[ls.key] = map[string]verdict{}
			}
			v := verdict{spins: len(res.spins) > 0}
			if v.spins {
				v.detail = describeSpin(c, ev, res)
			}
			if ev.notes["budget exhausted"] || ev.notes["fork cap reached in block"] || ev.notes["loop work cap"] {
				v.undec = true
			}
			results[ls.key][tn] = v
		}
	}
	for _, ls := range order {
		c.seen(c.declKey("parse", ls.fd))
		r := results[ls.key]
		inv, eof, er := r["itemInvalid"], r["itemEOF"], r["itemError"]
		desc := fmt.Sprintf("spins on closed-channel item=%v, on EOF=%v, on error item=%v", inv.spins, eof.spins, er.spins)
		switch {
		case inv.spins && (eof.spins || er.spins):
			c.bad("R05b", ls.key, ls.loop.Pos(), "once the token stream has ended every read yields a terminal token and this loop never leaves ("+desc+"; head facts: "+inv.detail+")")
		case inv.undec || eof.undec || er.undec:
			c.unk("R05b", ls.key, ls.loop.Pos(), "evaluation incomplete ("+desc+")")
		default:
			c.ok("R05b", ls.key, ls.loop.Pos(), "leaves (return, break, or raising call) when reads yield terminal tokens: "+desc)
		}
	}
	c.floor("R05b", "parser loops that read tokens", 20, len(order))
}

// R05f: at end of input the scanner's state machine reaches nil: the graph
// "state -> states it may return at end of input" is acyclic and total.
func ruleR05f(c *Ctx) {
	pf := getParseFacts(c)
	if pf == nil {
		return
	}
	p := c.pkg("parse")
	stObj := p.Types.Scope().Lookup("stateFn")
	if stObj == nil {
		c.fatalf("anchor: type parse.stateFn not found")
		return
	}
	stSig, ok := stObj.Type().Underlying().(*types.Signature)
	if !ok {
		c.fatalf("anchor: parse.stateFn is not a function type")
		return
	}
	ev := newEvaluator(c, lexEOF{pf})
	type node struct {
		name string
		pos  token.Pos
		body []ast.Stmt
	}
	nodes := map[string]*node{}
	for fn, fd := range pf.funcs {
		sig := fn.Type().(*types.Signature)
		if sig.Recv() == nil && types.Identical(sig, stSig) {
			nodes["func:"+fn.Name()] = &node{fn.Name(), fd.Pos(), fd.Body.List}
		}
		// function literals of the state type
		ast.Inspect(fd.Body, func(n ast.Node) bool {
			if fl, ok := n.(*ast.FuncLit); ok {
				if tv, ok := pf.info.Types[fl]; ok {
					if s, ok := tv.Type.(*types.Signature); ok && types.Identical(s, stSig) {
						k := fmt.Sprintf("funclit@%d", fl.Pos())
						nodes[k] = &node{fn.Name() + ".func", fl.Pos(), fl.Body.List}
					}
				}
			}
			return true
		})
	}
	edges := map[string][]string{}
	names := sortedKeys(nodes)
	for _, k := range names {
		n := nodes[k]
		ev.notes = map[string]bool{}
		ev.steps = 0
		comps := ev.execBlock(n.body, state{env: env{}}, pf.info)
		okAll := true
		var why []string
		set := map[string]bool{}
		for _, cp := range comps {
			switch cp.kind {
			case cReturn:
				if len(cp.vals) != 1 {
					okAll = false
					why = append(why, "return arity")
					continue
				}
				v := cp.vals[0]
				switch v.k {
				case avNil:
				case avFunc:
					set[v.String()] = true
				default:
					okAll = false
					why = append(why, "a path returns a state that cannot be identified")
				}
			case cSpin, cNoReturn:
				// an inner loop that never leaves is R05a's finding; the path ends
			default:
				okAll = false
				why = append(why, "a path falls off the end")
			}
		}
		for s := range set {
			edges[k] = append(edges[k], s)
		}
		sort.Strings(edges[k])
		key := "parse." + n.name + "#eof-successors"
		if !okAll {
			c.unk("R05f", key, n.pos, "successor states at end of input not determined: "+strings.Join(why, "; "))
		} else {
			c.ok("R05f", key, n.pos, "at end of input returns nil or one of ["+strings.Join(edges[k], " ")+"]")
		}
	}
	// cycle detection
	color := map[string]int{}
	var cyc []string
	var dfs func(string, []string)
	dfs = func(k string, path []string) {
		color[k] = 1
		for _, s := range edges[k] {
			if _, ok := nodes[s]; !ok {
				continue
			}
			if color[s] == 1 {
				cyc = append(cyc, strings.Join(append(path, k, s), " -> "))
			} else if color[s] == 0 {
				dfs(s, append(path, k))
			}
		}
		color[k] = 2
	}
	for _, k := range names {
		if color[k] == 0 {
			dfs(k, nil)
		}
	}
	c.check(len(cyc) == 0, "R05f", "parse.stateFn#eof-graph-acyclic", stObj.Pos(),
		fmt.Sprintf("the end-of-input transition graph over %d scanner states has no cycle, so run() reaches nil", len(nodes)),
		"at end of input the scanner can cycle between states forever: "+strings.Join(cyc, "; "))
	c.floor("R05f", "scanner state functions", 12, len(nodes))
}

// readSiteEOF: one particular read of the input yields eof; every other read is unknown.
type readSiteEOF struct {
	pf   *parseFacts
	site *ast.CallExpr
}

func (h readSiteEOF) expr(ev *evaluator, e ast.Expr, info *types.Info) (aval, bool) {
	return unknown, false
}
func (h readSiteEOF) prim(ev *evaluator, fn *types.Func, call *ast.CallExpr, st state) (aval, bool) {
	if !h.pf.runePrims[fn] {
		return unknown, false
	}
	if call == h.site {
		return constVal(h.pf.eofConst.Val()), true
	}
	return unknown, true
}
func (h readSiteEOF) isRead(fn *types.Func) bool { return h.pf.runeReads[fn] }

// R05g: a read that yields eof consumes nothing, so the scanner must not then step its position back by
// hand (l.pos--, l.pos -= k): the token start would overtake the position and the next emit slices out of
// range - in the scanner goroutine, where no recover can catch it.
func ruleR05g(c *Ctx) {
	pf := getParseFacts(c)
	if pf == nil {
		return
	}
	isLexerPos := func(e ast.Expr) bool {
		se, ok := ast.Unparen(e).(*ast.SelectorExpr)
		if !ok || se.Sel.Name != "pos" {
			return false
		}
		tv, ok := pf.info.Types[se.X]
		return ok && namedOf(tv.Type) != nil && pf.lexerTypes[namedOf(tv.Type)]
	}
	// rewinds that are safe by construction: by the width of the last read (0 at end of input), or inside an
	// `if l.pos-k > l.start` guard that keeps the position from crossing the token start
	guarded := map[ast.Stmt]bool{}
	for _, fd := range pf.funcs {
		ast.Inspect(fd.Body, func(x ast.Node) bool {
			ifs, ok := x.(*ast.IfStmt)
			if !ok {
				return true
			}
			cond := exprKey(ifs.Cond)
			if strings.Contains(cond, ".start") && strings.Contains(cond, ".pos") {
				ast.Inspect(ifs.Body, func(y ast.Node) bool {
					if st, ok := y.(ast.Stmt); ok {
						guarded[st] = true
					}
					return true
				})
			}
			return true
		})
	}
	isRewind := func(s ast.Stmt) bool {
		if guarded[s] {
			return false
		}
		switch s := s.(type) {
		case *ast.IncDecStmt:
			return s.Tok == token.DEC && isLexerPos(s.X)
		case *ast.AssignStmt:
			if s.Tok == token.SUB_ASSIGN && isLexerPos(s.Lhs[0]) {
				return !strings.Contains(exprKey(s.Rhs[0]), ".width")
			}
		}
		return false
	}
	// every direct call of a rune primitive in a scanner function is a read site
	var sites []*ast.CallExpr
	siteFn := map[*ast.CallExpr]*types.Func{}
	var fns []*types.Func
	for fn, fd := range pf.funcs {
		if !nodeScopedTo(fd, pf.info, pf.lexerTypes) || pf.runePrims[fn] {
			continue
		}
		fns = append(fns, fn)
		ffn := fn
		ast.Inspect(fd.Body, func(x ast.Node) bool {
			if call, ok := x.(*ast.CallExpr); ok {
				if cal := calleeFunc(call, pf.info); cal != nil && pf.runePrims[cal] {
					sites = append(sites, call)
					siteFn[call] = ffn
				}
			}
			return true
		})
	}
	sort.Slice(fns, func(i, j int) bool { return fns[i].Name() < fns[j].Name() })
	sort.Slice(sites, func(i, j int) bool { return sites[i].Pos() < sites[j].Pos() })
	n := 0
	for _, fn := range fns {
		fd := pf.funcs[fn]
		has := false
		ast.Inspect(fd.Body, func(x ast.Node) bool {
			if s, ok := x.(ast.Stmt); ok && isRewind(s) {
				has = true
			}
			return true
		})
		if !has {
			continue
		}
		n++
		key := c.declKey("parse", fd) + "#no-rewind-after-eof-read"
		c.seen(c.declKey("parse", fd))
		var at, siteAt token.Pos
		// only read sites in this function or in the functions it (transitively) calls can precede its rewinds
		reach := map[*types.Func]bool{fn: true}
		for work := []*types.Func{fn}; len(work) > 0; {
			f := work[len(work)-1]
			work = work[:len(work)-1]
			for _, cal := range pf.calls[f] {
				if !reach[cal] {
					reach[cal] = true
					work = append(work, cal)
				}
			}
		}
		for _, site := range sites {
			if !reach[siteFn[site]] {
				continue
			}
			ev := newEvaluator(c, readSiteEOF{pf, site})
			for p := range pf.runePrims {
				ev.watch[p.Name()] = true
			}
			ev.stmtHook = func(s ast.Stmt, st state, info *types.Info) *event {
				if !isRewind(s) {
					return nil
				}
				if as, ok := s.(*ast.AssignStmt); ok {
					for _, r := range ev.evalExpr(as.Rhs[0], st, info) {
						if r.v.k == avConst && r.v.c.Kind() == constant.Int && constant.Sign(r.v.c) == 0 {
							return nil // stepping back by the constant 0
						}
					}
				}
				return &event{name: "rewind", pos: s.Pos()}
			}
			for _, cp := range ev.execBlock(fd.Body.List, state{env: env{}}, pf.info) {
				var lastRead *ast.CallExpr
				for _, e := range cp.st.tr.list() {
					if e.name == "rewind" {
						if lastRead == site && at == token.NoPos {
							at, siteAt = e.pos, site.Pos()
						}
						continue
					}
					lastRead = e.call
				}
			}
			if at != token.NoPos {
				break
			}
		}
		if at != token.NoPos {
			c.bad("R05g", key, at, "when the read at "+c.posStr(siteAt)+" yields eof (nothing consumed) the scanner still steps its position back by hand: the token start overtakes the position and the next emit slices out of range, panicking in the scanner goroutine where no recover can catch it")
		} else {
			c.ok("R05g", key, fd.Pos(), fmt.Sprintf("for each of the %d read sites: when it yields eof no manual rewind follows before another read", len(sites)))
		}
	}
	c.floor("R05g", "scanner functions with a manual rewind", 2, n)
}

// R05h: every manual rewind of the scanner position is by the recorded width of the last read, by a
// constant, or inside a start guard; any other amount leaves scanner progress undecided.
func ruleR05h(c *Ctx) {
	pf := getParseFacts(c)
	if pf == nil {
		return
	}
	n := 0
	for fn, fd := range pf.funcs {
		_ = fn
		if !nodeScopedTo(fd, pf.info, pf.lexerTypes) {
			continue
		}
		ord := 0
		ast.Inspect(fd.Body, func(x ast.Node) bool {
			as, ok := x.(*ast.AssignStmt)
			if !ok || as.Tok != token.SUB_ASSIGN || len(as.Lhs) != 1 {
				return true
			}
			se, ok := ast.Unparen(as.Lhs[0]).(*ast.SelectorExpr)
			if !ok || se.Sel.Name != "pos" {
				return true
			}
			if tv, ok := pf.info.Types[se.X]; !ok || namedOf(tv.Type) == nil || !pf.lexerTypes[namedOf(tv.Type)] {
				return true
			}
			n++
			ord++
			key := fmt.Sprintf("%s rewind#%d", c.declKey("parse", fd), ord)
			amt := stripConv(as.Rhs[0], pf.info)
			src := exprKey(amt)
			isConst := false
			if tv, ok := pf.info.Types[amt]; ok && tv.Value != nil {
				isConst = true
			}
			_, isParam := pf.info.Uses[identOf(amt)].(*types.Var)
			switch {
			case isConst:
				c.ok("R05h", key, as.Pos(), "steps back by the constant "+src)
			case strings.HasSuffix(src, ".width"):
				c.ok("R05h", key, as.Pos(), "steps back by the recorded width of the last read")
			case isParam && identOf(amt) != nil:
				c.ok("R05h", key, as.Pos(), "steps back by the caller's constant amount ("+src+"), inside the start guard")
			default:
				c.unk("R05h", key, as.Pos(), "the scanner steps back by "+src+", which is neither the recorded width of the last read nor a constant: that the scanner still makes progress (and does not cross the token start) cannot be established")
			}
			return true
		})
	}
	c.floor("R05h", "manual rewinds by an amount", 3, n)
	// single steps back (pos--): fine on their own, but in a loop the scan backwards must stop at the token start
	for fn, fd := range pf.funcs {
		_ = fn
		if !nodeScopedTo(fd, pf.info, pf.lexerTypes) {
			continue
		}
		ord := 0
		var loops []*ast.ForStmt
		var visit func(n ast.Node)
		visit = func(n ast.Node) {
			ast.Inspect(n, func(x ast.Node) bool {
				switch s := x.(type) {
				case *ast.ForStmt:
					loops = append(loops, s)
					if s.Init != nil {
						visit(s.Init)
					}
					if s.Post != nil {
						visit(s.Post)
					}
					visit(s.Body)
					loops = loops[:len(loops)-1]
					return false
				case *ast.IncDecStmt:
					se, ok := ast.Unparen(s.X).(*ast.SelectorExpr)
					if !ok || se.Sel.Name != "pos" || s.Tok != token.DEC {
						return true
					}
					if tv, ok := pf.info.Types[se.X]; !ok || namedOf(tv.Type) == nil || !pf.lexerTypes[namedOf(tv.Type)] {
						return true
					}
					if len(loops) == 0 {
						return true
					}
					loop := loops[len(loops)-1]
					// a step back after a read, once per iteration of a forward scan, is not a backward scan
					reads := false
					ast.Inspect(loop, func(y ast.Node) bool {
						if call, ok := y.(*ast.CallExpr); ok {
							if cal := calleeFunc(call, pf.info); cal != nil && pf.runePrims[cal] {
								reads = true
							}
						}
						return true
					})
					if reads {
						return true
					}
					ord++
					pos := exprKey(s.X)
					start := exprKey(se.X) + ".start"
					bounded := false
					if loop.Cond != nil {
						facts, _ := condFacts(loop.Cond)
						for _, f := range facts {
							if f == start+" < "+pos || f == start+" <= "+pos+" - 1" || f == start+" < "+pos+" - 1" || f == start+" <= "+pos {
								bounded = true
							}
						}
					}
					c.check(bounded, "R05h", fmt.Sprintf("%s backward-scan#%d", c.declKey("parse", fd), ord), s.Pos(),
						"the backward scan stops at the start of the pending token",
						"the scanner walks its position backwards in a loop whose condition does not keep it above "+start+": on input where everything before is skippable it crosses the token start, and the next emit slices the input with start > pos (a fault in the scanner goroutine, which nothing recovers)")
				}
				return true
			})
		}
		visit(fd.Body)
	}
}

func identOf(e ast.Expr) *ast.Ident {
	id, _ := ast.Unparen(e).(*ast.Ident)
	return id
}

// R05i: in the parser's string helpers (functions of parse that take a string and cut it), a slice bound
// of the form e+K is dominated by a comparison of that very bound with the string's length.
func ruleR05i(c *Ctx) {
	pf := getParseFacts(c)
	if pf == nil {
		return
	}
	nr := newNoRet(c)
	n := 0
	for fn, fd := range pf.funcs {
		_ = fn
		// string parameters
		strParams := map[types.Object]bool{}
		for _, fl := range fd.Type.Params.List {
			for _, nm := range fl.Names {
				if o := pf.info.Defs[nm]; o != nil {
					if b, ok := o.Type().Underlying().(*types.Basic); ok && b.Kind() == types.String {
						strParams[o] = true
					}
				}
			}
		}
		if len(strParams) == 0 {
			continue
		}
		// aliases n := len(s)
		alias := map[string]string{}
		ast.Inspect(fd.Body, func(x ast.Node) bool {
			if as, ok := x.(*ast.AssignStmt); ok && len(as.Lhs) == 1 && len(as.Rhs) == 1 {
				if call, ok := ast.Unparen(as.Rhs[0]).(*ast.CallExpr); ok {
					if id, ok := call.Fun.(*ast.Ident); ok && id.Name == "len" && len(call.Args) == 1 {
						alias[exprKey(as.Lhs[0])] = "len(" + exprKey(call.Args[0]) + ")"
					}
				}
			}
			return true
		})
		norm := func(s string) string {
			for a, b := range alias {
				s = strings.ReplaceAll(s, a+" ", b+" ")
				if strings.HasSuffix(s, " "+a) {
					s = s[:len(s)-len(a)] + b
				}
			}
			return s
		}
		ord := 0
		guardWalk(fd.Body, nr.forInfo(pf.info), func(e ast.Expr, facts factSet) {
			se, ok := e.(*ast.SliceExpr)
			if !ok {
				return
			}
			id, ok := ast.Unparen(se.X).(*ast.Ident)
			if !ok || !strParams[pf.info.Uses[id]] {
				return
			}
			for _, bd := range []ast.Expr{se.Low, se.High} {
				if bd == nil {
					continue
				}
				if ctv, ok := pf.info.Types[bd]; ok && ctv.Value != nil {
					// a constant bound K > 0 needs K <= len(s) just the same
					if kv, exact := constant.Int64Val(ctv.Value); !exact || kv <= 0 {
						continue
					}
				} else {
					be, ok := ast.Unparen(bd).(*ast.BinaryExpr)
					if !ok || be.Op != token.ADD {
						continue
					}
					if tv, ok := pf.info.Types[be.Y]; !ok || tv.Value == nil {
						continue
					}
				}
				n++
				ord++
				key := fmt.Sprintf("%s slice-bound#%d", c.declKey("parse", fd), ord)
				k := exprKey(bd)
				lenX := "len(" + exprKey(se.X) + ")"
				ok2 := false
				for f := range facts {
					nf := norm(f)
					if nf == k+" <= "+lenX || nf == k+" < "+lenX {
						ok2 = true
					}
					// a constant bound is implied by any larger constant known to be within the length
					if ctv, isConst := pf.info.Types[bd]; isConst && ctv.Value != nil {
						kv, _ := constant.Int64Val(ctv.Value)
						for _, op := range []string{" <= ", " < "} {
							if strings.HasSuffix(nf, op+lenX) {
								var m int64
								lhs := strings.TrimSuffix(nf, op+lenX)
								if _, err := fmt.Sscanf(lhs, "%d", &m); err == nil && fmt.Sprint(m) == lhs {
									if (op == " <= " && m >= kv) || (op == " < " && m >= kv-1) {
										ok2 = true
									}
								}
							}
						}
					}
				}
				c.check(ok2, "R05i", key, se.Pos(), "the bound "+k+" is compared with "+lenX+" before the string is cut",
					"the string is cut at "+k+" without a dominating test of that very bound against "+lenX+": an input that ends early makes the slice fault, and the parser re-panics runtime errors")
			}
		})
	}
	c.floor("R05i", "computed slice bounds in string helpers", 1, n)
}

// R05j: the parser never indexes a string (or slice) it got from the input at a constant position without
// having established that the position exists: s[K] is dominated by s != "" (for K = 0), by a comparison of
// len(s) that implies len(s) > K, or by an early exit on the short case. (An attribute such as name="" is
// input too; tree.recover re-panics runtime errors, so an unguarded index is a crash of the caller.)
func ruleR05j(c *Ctx) { ruleConstIndexGuards(c, "R05j", "parse", 3) }

// ruleConstIndexGuards is R05j for any package whose functions read caller-supplied text (the parser; the
// globals-file reader in the root package).
func ruleConstIndexGuards(c *Ctx, rule, rel string, floorN int) {
	p := c.pkg(rel)
	if p == nil {
		return
	}
	info := p.TypesInfo
	nr := newNoRet(c)
	n := 0
	funcsOf := map[*types.Func]*ast.FuncDecl{}
	for _, d := range c.allFuncDecls(rel) {
		if strings.HasSuffix(c.Fset.Position(d.Pos()).Filename, "_test.go") {
			continue
		}
		if fn, ok := info.Defs[d.Name].(*types.Func); ok {
			funcsOf[fn] = d
		}
	}
	var fns []*types.Func
	for fn := range funcsOf {
		fns = append(fns, fn)
	}
	sort.Slice(fns, func(i, j int) bool { return c.declKey(rel, funcsOf[fns[i]]) < c.declKey(rel, funcsOf[fns[j]]) })
	type pfT struct{ funcs map[*types.Func]*ast.FuncDecl }
	pf := pfT{funcsOf}
	for _, fn := range fns {
		fd := pf.funcs[fn]
		alias := map[string]string{}
		ast.Inspect(fd.Body, func(x ast.Node) bool {
			if as, ok := x.(*ast.AssignStmt); ok && len(as.Lhs) == 1 && len(as.Rhs) == 1 {
				if call, ok := ast.Unparen(as.Rhs[0]).(*ast.CallExpr); ok {
					if id, ok := call.Fun.(*ast.Ident); ok && id.Name == "len" && len(call.Args) == 1 {
						alias[exprKey(as.Lhs[0])] = "len(" + exprKey(call.Args[0]) + ")"
					}
				}
			}
			return true
		})
		ord := 0
		guardWalk(fd.Body, nr.forInfo(info), func(e ast.Expr, facts factSet) {
			ix, ok := e.(*ast.IndexExpr)
			if !ok {
				return
			}
			tv, ok := info.Types[ix.X]
			if !ok || tv.IsType() {
				return
			}
			isString := false
			switch u := tv.Type.Underlying().(type) {
			case *types.Basic:
				isString = u.Info()&types.IsString != 0
			case *types.Slice:
				// slices of the module's own values (token lists, node lists); library results such as
				// regexp index pairs have a shape the library guarantees
				if _, _, mod := relPkgOfType(u.Elem()); !mod && !types.IsInterface(u.Elem()) {
					return
				}
			default:
				return
			}
			itv, ok := info.Types[ix.Index]
			if !ok || itv.Value == nil {
				return
			}
			k, _ := constant.Int64Val(itv.Value)
			// only values that come from the input: parameters, locals, token text (not the parser's own tables)
			if id := rootIdent(ix.X); id == nil {
				return
			} else if v, ok := info.Uses[id].(*types.Var); !ok || v.Parent() == v.Pkg().Scope() {
				return
			}
			n++
			ord++
			x := exprKey(ix.X)
			good := positionKnown(x, isString, k, facts, alias)
			if !good {
				// a parameter of an unexported function: the callers establish it
				if id, ok := ast.Unparen(ix.X).(*ast.Ident); ok {
					if idx := paramIndex(fd, info.Uses[id], info); idx >= 0 && !fd.Name.IsExported() {
						sites, all := 0, true
						for _, cfn := range fns {
							cfd := pf.funcs[cfn]
							calias := lenAliases(cfd)
							guardWalk(cfd.Body, nr.forInfo(info), func(ce ast.Expr, cfacts factSet) {
								call, ok := ce.(*ast.CallExpr)
								if !ok || calleeFunc(call, info) != fn || idx >= len(call.Args) {
									return
								}
								sites++
								if !positionKnown(exprKey(call.Args[idx]), isString, k, cfacts, calias) {
									all = false
								}
							})
						}
						good = sites > 0 && all
					}
				}
			}
			c.check(good, rule, fmt.Sprintf("%s constant-index#%d %s", c.declKey(rel, fd), ord, exprKey(ix)), ix.Pos(),
				"the position is known to exist before it is read",
				exprKey(ix)+" is read without a dominating test that "+x+" is long enough: an empty (or short) value from the input makes the index fault, and the parser re-panics runtime errors instead of returning an error")
		})
	}
	c.floor(rule, "constant-position reads of input strings and slices", floorN, n)
}

func rootIdent(e ast.Expr) *ast.Ident {
	for {
		switch x := ast.Unparen(e).(type) {
		case *ast.Ident:
			return x
		case *ast.SelectorExpr:
			e = x.X
		case *ast.IndexExpr:
			e = x.X
		default:
			return nil
		}
	}
}

// R05k: the scanner's character predicates are total on the end-of-input sentinel. eof is a negative rune, so
// wherever a function of parse indexes a table (array, slice or string) by a rune parameter, the index is
// dominated by a test that the rune is not negative (0 <= r, r >= 0, r != eof, eof < r). The scanner calls
// these predicates on l.next() in its own goroutine, where a fault cannot be recovered.
func ruleR05k(c *Ctx) {
	pf := getParseFacts(c)
	if pf == nil {
		return
	}
	info := pf.info
	nr := newNoRet(c)
	n, nfun := 0, 0
	var fns []*types.Func
	for fn := range pf.funcs {
		fns = append(fns, fn)
	}
	sort.Slice(fns, func(i, j int) bool {
		return c.declKey("parse", pf.funcs[fns[i]]) < c.declKey("parse", pf.funcs[fns[j]])
	})
	for _, fn := range fns {
		fd := pf.funcs[fn]
		runes := map[types.Object]bool{}
		for _, fl := range fd.Type.Params.List {
			for _, nm := range fl.Names {
				if o := info.Defs[nm]; o != nil {
					if b, ok := o.Type().Underlying().(*types.Basic); ok && (b.Kind() == types.Int32 || b.Kind() == types.Int) {
						runes[o] = true
					}
				}
			}
		}
		if len(runes) == 0 {
			continue
		}
		nfun++
		ord := 0
		guardWalk(fd.Body, nr.forInfo(info), func(e ast.Expr, facts factSet) {
			ix, ok := e.(*ast.IndexExpr)
			if !ok {
				return
			}
			tv, ok := info.Types[ix.X]
			if !ok || tv.IsType() {
				return
			}
			switch tv.Type.Underlying().(type) {
			case *types.Array, *types.Slice, *types.Basic:
			case *types.Pointer:
			default:
				return
			}
			id, ok := ast.Unparen(ix.Index).(*ast.Ident)
			if !ok || !runes[info.Uses[id]] {
				return
			}
			n++
			ord++
			r := id.Name
			good := facts["0 <= "+r] || facts["-1 < "+r] || facts[r+" != eof"] || facts["eof != "+r] || facts["eof < "+r] || facts[r+" != -1"]
			c.check(good, "R05k", fmt.Sprintf("%s table-index#%d %s", c.declKey("parse", fd), ord, exprKey(ix)), ix.Pos(),
				"the rune is known not to be negative where it indexes the table",
				exprKey(ix)+" indexes a table by a rune that may be the end-of-input sentinel (-1): nothing before it excludes a negative value, so at end of input the predicate faults, in the scanner goroutine")
		})
	}
	c.floor("R05k", "functions of parse with a rune parameter", 5, nfun)
}

func lenAliases(fd *ast.FuncDecl) map[string]string {
	alias := map[string]string{}
	ast.Inspect(fd.Body, func(x ast.Node) bool {
		if as, ok := x.(*ast.AssignStmt); ok && len(as.Lhs) == 1 && len(as.Rhs) == 1 {
			if call, ok := ast.Unparen(as.Rhs[0]).(*ast.CallExpr); ok {
				if id, ok := call.Fun.(*ast.Ident); ok && id.Name == "len" && len(call.Args) == 1 {
					alias[exprKey(as.Lhs[0])] = "len(" + exprKey(call.Args[0]) + ")"
				}
			}
		}
		return true
	})
	return alias
}

func paramIndex(fd *ast.FuncDecl, obj types.Object, info *types.Info) int {
	i := 0
	for _, fl := range fd.Type.Params.List {
		for _, nm := range fl.Names {
			if info.Defs[nm] == obj && obj != nil {
				return i
			}
			i++
		}
	}
	return -1
}

// positionKnown: the facts imply that position k of x exists.
func positionKnown(x string, isString bool, k int64, facts factSet, alias map[string]string) bool {
	lenX := "len(" + x + ")"
	good := false
	norm := func(t string) string {
		if b, ok := alias[t]; ok {
			return b
		}
		return t
	}
	num := func(t string) (int64, bool) {
		var m int64
		if _, err := fmt.Sscanf(t, "%d", &m); err == nil && fmt.Sprint(m) == t {
			return m, true
		}
		return 0, false
	}
	for f := range facts {
		// facts are "a op b" with op in < <= == != (relations are normalised to < and <=)
		var a, op, b string
		for _, o := range []string{" <= ", " < ", " == ", " != "} {
			if i := strings.Index(f, o); i > 0 {
				a, op, b = norm(f[:i]), strings.TrimSpace(o), norm(f[i+len(o):])
				break
			}
		}
		switch {
		case isString && k == 0 && op == "!=" && ((a == x && b == `""`) || (b == x && a == `""`)):
			good = true
		case op == "!=" && k == 0 && ((a == lenX && b == "0") || (b == lenX && a == "0")):
			good = true
		case b == lenX && (op == "<=" || op == "<"):
			if m, ok := num(a); ok && ((op == "<=" && m > k) || (op == "<" && m >= k)) {
				good = true
			}
		case op == "==" && (a == lenX || b == lenX):
			other := b
			if b == lenX {
				other = a
			}
			if m, ok := num(other); ok && m > k {
				good = true
			}
		}
	}
	return good
}
