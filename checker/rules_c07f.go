package main

import (
	"fmt"
	"go/ast"
	"go/constant"
	"go/token"
	"go/types"
)

// fieldOf returns the field object when e is a selector of a struct field (tc.usedKeys).
func fieldOf(e ast.Expr, info *types.Info) *types.Var {
	se, ok := ast.Unparen(e).(*ast.SelectorExpr)
	if !ok {
		return nil
	}
	fv, ok := info.Uses[se.Sel].(*types.Var)
	if !ok || !fv.IsField() {
		return nil
	}
	return fv
}

// R07f: the scope accounting of templateChecker.recurse reads the checker's stacks only through the
// marks taken at scope entry (m := len(tc.F); later tc.F[m:] / tc.F[:m] / len(tc.F)): what an enclosing
// scope recorded is not this scope's business.
func ruleR07f(c *Ctx) {
	p := c.pkg("parsepasses")
	fd := c.mustFunc("parsepasses", "templateChecker.recurse")
	if p == nil || fd == nil {
		return
	}
	info := p.TypesInfo
	// marks: local := len(tc.F)
	marks := map[*types.Var]types.Object{}
	markPos := map[*types.Var]token.Pos{}
	ast.Inspect(fd.Body, func(x ast.Node) bool {
		var lhs []ast.Expr
		var rhs []ast.Expr
		switch s := x.(type) {
		case *ast.AssignStmt:
			lhs, rhs = s.Lhs, s.Rhs
		case *ast.ValueSpec:
			for _, nm := range s.Names {
				lhs = append(lhs, nm)
			}
			rhs = s.Values
		default:
			return true
		}
		if len(lhs) != len(rhs) {
			return true
		}
		for i := range lhs {
			id, ok := lhs[i].(*ast.Ident)
			if !ok {
				continue
			}
			call, ok := ast.Unparen(rhs[i]).(*ast.CallExpr)
			if !ok || len(call.Args) != 1 {
				continue
			}
			if fn, ok := call.Fun.(*ast.Ident); !ok || fn.Name != "len" {
				continue
			}
			if fv := fieldOf(call.Args[0], info); fv != nil && info.Defs[id] != nil {
				if _, dup := marks[fv]; !dup {
					marks[fv] = info.Defs[id]
					markPos[fv] = x.Pos()
				}
			}
		}
		return true
	})
	c.floor("R07f", "scope-entry marks in templateChecker.recurse", 1, len(marks))
	// every other read of a marked field
	var stack []ast.Node
	reads := 0
	perField := map[*types.Var]int{}
	ast.Inspect(fd.Body, func(x ast.Node) bool {
		if x == nil {
			stack = stack[:len(stack)-1]
			return true
		}
		stack = append(stack, x)
		fv := (*types.Var)(nil)
		if e, ok := x.(ast.Expr); ok {
			fv = fieldOf(e, info)
		}
		if fv == nil || marks[fv] == nil || len(stack) < 2 {
			return true
		}
		parent := stack[len(stack)-2]
		good := false
		switch pn := parent.(type) {
		case *ast.CallExpr:
			if fn, ok := pn.Fun.(*ast.Ident); ok && fn.Name == "len" {
				good = true
			}
		case *ast.SliceExpr:
			if pn.X == x {
				isMark := func(b ast.Expr) bool {
					id, ok := b.(*ast.Ident)
					return ok && info.Uses[id] == marks[fv]
				}
				good = (pn.Low != nil && pn.High == nil && isMark(pn.Low)) || (pn.High != nil && pn.Low == nil && isMark(pn.High))
			}
		case *ast.AssignStmt:
			for _, l := range pn.Lhs {
				if l == x {
					good = true
				}
			}
		}
		reads++
		perField[fv]++
		key := fmt.Sprintf("parsepasses.templateChecker.recurse reads %s#%d", fv.Name(), perField[fv])
		c.check(good, "R07f", key, x.Pos(), "read through the mark taken at scope entry",
			"tc."+fv.Name()+" is read whole, not from the mark "+marks[fv].Name()+" taken at scope entry: what enclosing scopes recorded (a use of an outer variable of the same name) is counted for this scope")
		return true
	})
	c.floor("R07f", "reads of the marked stacks", 2, reads)
	// helpers called once the children have been checked read the stacks whole on the scope's behalf:
	// the same discipline applies to them (they have no mark, so any read other than len() is whole)
	after := false
	byFunc := map[*types.Func]*ast.FuncDecl{}
	for _, d := range c.allFuncDecls("parsepasses") {
		if fn, ok := info.Defs[d.Name].(*types.Func); ok {
			byFunc[fn] = d
		}
	}
	self, _ := info.Defs[fd.Name].(*types.Func)
	for _, st := range fd.Body.List {
		if rs, ok := st.(*ast.RangeStmt); ok && !after {
			if call, ok := ast.Unparen(rs.X).(*ast.CallExpr); ok {
				if se, ok := call.Fun.(*ast.SelectorExpr); ok && se.Sel.Name == "Children" {
					after = true
					continue
				}
			}
		}
		if !after {
			continue
		}
		ast.Inspect(st, func(x ast.Node) bool {
			call, ok := x.(*ast.CallExpr)
			if !ok {
				return true
			}
			cal := calleeFunc(call, info)
			hd := byFunc[cal]
			if hd == nil || cal == self || hd.Recv == nil {
				return true
			}
			var whole []string
			var hstack []ast.Node
			ast.Inspect(hd.Body, func(y ast.Node) bool {
				if y == nil {
					hstack = hstack[:len(hstack)-1]
					return true
				}
				hstack = append(hstack, y)
				e, ok := y.(ast.Expr)
				if !ok {
					return true
				}
				fv := fieldOf(e, info)
				if fv == nil || marks[fv] == nil || len(hstack) < 2 {
					return true
				}
				if pc, ok := hstack[len(hstack)-2].(*ast.CallExpr); ok {
					if fn, ok := pc.Fun.(*ast.Ident); ok && fn.Name == "len" {
						return true
					}
				}
				whole = append(whole, fv.Name())
				return true
			})
			key := "parsepasses.templateChecker.recurse calls " + cal.Name()
			c.check(len(whole) == 0, "R07f", key, call.Pos(), "the helper does not read the checker's stacks",
				"while a scope is being closed, "+cal.Name()+" reads tc."+joinStrings(whole)+" whole, not from the mark taken at scope entry: what enclosing scopes recorded is counted for this scope")
			return true
		})
	}
}

// R07g: under data="all" the names a call is taken to pass are drawn from the caller's declared params
// (tc.params) only: let and loop variables are not data and are not passed.
func ruleR07g(c *Ctx) {
	p := c.pkg("parsepasses")
	fd := c.mustFunc("parsepasses", "templateChecker.checkCall")
	if p == nil || fd == nil {
		return
	}
	info := p.TypesInfo
	n := 0
	scope := &ast.BlockStmt{}
	for _, hd := range c.withHelpers("parsepasses", fd, 2) {
		scope.List = append(scope.List, hd.Body)
	}
	ast.Inspect(scope, func(x ast.Node) bool {
		ifs, ok := x.(*ast.IfStmt)
		if !ok {
			return true
		}
		fv := fieldOf(ifs.Cond, info)
		if fv == nil || fv.Name() != "AllData" {
			return true
		}
		// every value appended to a local slice inside this branch
		var walk func(n ast.Node, fromParams map[types.Object]bool, guarded map[string]bool)
		walk = func(nd ast.Node, fromParams map[types.Object]bool, guarded map[string]bool) {
			ast.Inspect(nd, func(y ast.Node) bool {
				switch s := y.(type) {
				case *ast.RangeStmt:
					fp := map[types.Object]bool{}
					for k, v := range fromParams {
						fp[k] = v
					}
					if pf := fieldOf(s.X, info); pf != nil && pf.Name() == "params" {
						if id, ok := s.Value.(*ast.Ident); ok && info.Defs[id] != nil {
							fp[info.Defs[id]] = true
						}
					}
					walk(s.Body, fp, guarded)
					return false
				case *ast.IfStmt:
					g := map[string]bool{}
					for k := range guarded {
						g[k] = true
					}
					for _, cj := range conjuncts(s.Cond) {
						if call, ok := ast.Unparen(cj).(*ast.CallExpr); ok && len(call.Args) == 2 {
							if cal := calleeFunc(call, info); cal != nil && cal.Name() == "contains" {
								if pf := fieldOf(call.Args[0], info); pf != nil && pf.Name() == "params" {
									g[exprKey(call.Args[1])] = true
								}
							}
						}
					}
					walk(s.Body, fromParams, g)
					if s.Else != nil {
						walk(s.Else, fromParams, guarded)
					}
					return false
				case *ast.AssignStmt:
					// a set of names kept as a map: names[param] = true
					for _, l := range s.Lhs {
						ix, ok := l.(*ast.IndexExpr)
						if !ok {
							continue
						}
						if _, isField := ast.Unparen(ix.X).(*ast.SelectorExpr); isField {
							continue
						}
						if tv, ok := info.Types[ix.X]; !ok {
							continue
						} else if _, isMap := tv.Type.Underlying().(*types.Map); !isMap {
							continue
						}
						n++
						a := ix.Index
						ok2 := guarded[exprKey(a)]
						if aid, isID := ast.Unparen(a).(*ast.Ident); isID && fromParams[info.Uses[aid]] {
							ok2 = true
						}
						c.check(ok2, "R07g", fmt.Sprintf("parsepasses.templateChecker.checkCall data=all passes %s#%d", exprKey(ix.X), n), s.Pos(),
							"the name comes from the caller's declared params", "under data=\"all\" the call is taken to pass "+exprKey(a)+", which is not drawn from the caller's declared params (tc.params): a {let} or loop variable of that name satisfies a required param that the rendered call never receives")
					}
				case *ast.CallExpr:
					if id, ok := s.Fun.(*ast.Ident); ok && id.Name == "append" && len(s.Args) >= 2 {
						if _, isField := ast.Unparen(s.Args[0]).(*ast.SelectorExpr); isField {
							return true // tc.usedKeys bookkeeping
						}
						for _, a := range s.Args[1:] {
							n++
							ok := guarded[exprKey(a)]
							if aid, isID := ast.Unparen(a).(*ast.Ident); isID && fromParams[info.Uses[aid]] {
								ok = true
							}
							c.check(ok, "R07g", fmt.Sprintf("parsepasses.templateChecker.checkCall data=all passes %s#%d", exprKey(s.Args[0]), n), s.Pos(),
								"the name comes from the caller's declared params", "under data=\"all\" the call is taken to pass "+exprKey(a)+", which is not drawn from the caller's declared params (tc.params): a {let} or loop variable of that name satisfies a required param that the rendered call never receives")
						}
					}
				}
				return true
			})
		}
		walk(ifs.Body, map[types.Object]bool{}, map[string]bool{})
		return false
	})
	c.floor("R07g", "names passed under data=all", 1, n)
}

func conjuncts(e ast.Expr) []ast.Expr {
	e = ast.Unparen(e)
	if be, ok := e.(*ast.BinaryExpr); ok && be.Op == token.LAND {
		return append(conjuncts(be.X), conjuncts(be.Y)...)
	}
	return []ast.Expr{e}
}

// R07k: a reference counts for the binding it refers to. The list CheckDataRefs consults for unused
// params (U) receives a data reference's key only after the checker has looked the key up among the {let}
// and loop variables in scope (the fields L its Let/For arms append to) and returned if one binds it.
func ruleR07k(c *Ctx) {
	p := c.pkg("parsepasses")
	entry := c.mustFunc("parsepasses", "CheckDataRefs")
	ck := c.mustFunc("parsepasses", "templateChecker.checkTemplate")
	if p == nil || entry == nil || ck == nil {
		return
	}
	info := p.TypesInfo
	// U: checker fields read in CheckDataRefs
	U := map[*types.Var]bool{}
	assigned := map[ast.Expr]bool{} // selectors that are only being (re)set, not read
	ast.Inspect(entry.Body, func(x ast.Node) bool {
		if as, ok := x.(*ast.AssignStmt); ok {
			for _, l := range as.Lhs {
				assigned[ast.Unparen(l)] = true
			}
		}
		return true
	})
	ast.Inspect(entry.Body, func(x ast.Node) bool {
		if se, ok := x.(*ast.SelectorExpr); ok && !assigned[se] {
			if fv := fieldOf(se, info); fv != nil {
				if _, ok := fv.Type().Underlying().(*types.Slice); ok && fv.Name() != "params" {
					U[fv] = true
				}
			}
		}
		return true
	})
	// L: fields the Let/For arms append to
	L := map[*types.Var]bool{}
	ckScope := &ast.BlockStmt{} // checkTemplate and the methods its arms were moved into
	for _, hd := range c.withHelpers("parsepasses", ck, 1) {
		ckScope.List = append(ckScope.List, hd.Body)
	}
	ast.Inspect(ckScope, func(x ast.Node) bool {
		as, ok := x.(*ast.AssignStmt)
		if !ok || len(as.Lhs) != 1 || len(as.Rhs) != 1 {
			return true
		}
		call, ok := as.Rhs[0].(*ast.CallExpr)
		if !ok {
			return true
		}
		if id, ok := call.Fun.(*ast.Ident); !ok || id.Name != "append" {
			return true
		}
		if fv := fieldOf(as.Lhs[0], info); fv != nil && !U[fv] {
			L[fv] = true
		}
		return true
	})
	// ... or through a helper that is nothing but such an append
	ast.Inspect(ck.Body, func(x ast.Node) bool {
		if call, ok := x.(*ast.CallExpr); ok {
			if fv, ok := appendHelpers(c, "parsepasses")[calleeFunc(call, info)]; ok && !U[fv] {
				L[fv] = true
			}
		}
		return true
	})
	if len(U) == 0 || len(L) == 0 {
		c.fatalf("anchor: the checker's used-params list (read by CheckDataRefs) or its local-binder lists not identified")
		return
	}
	readsL := func(fd *ast.FuncDecl) bool {
		found := false
		ast.Inspect(fd.Body, func(x ast.Node) bool {
			if se, ok := x.(*ast.SelectorExpr); ok {
				if fv := fieldOf(se, info); fv != nil && L[fv] {
					found = true
				}
			}
			return true
		})
		return found
	}
	byFunc := map[*types.Func]*ast.FuncDecl{}
	for _, fd := range c.allFuncDecls("parsepasses") {
		if fn, ok := info.Defs[fd.Name].(*types.Func); ok {
			byFunc[fn] = fd
		}
	}
	n := 0
	for _, fd := range c.allFuncDecls("parsepasses") {
		// string parameters of the function
		params := map[types.Object]bool{}
		for _, fl := range fd.Type.Params.List {
			for _, nm := range fl.Names {
				if o := info.Defs[nm]; o != nil {
					if b, ok := o.Type().Underlying().(*types.Basic); ok && b.Info()&types.IsString != 0 {
						params[o] = true
					}
				}
			}
		}
		if len(params) == 0 {
			continue
		}
		for si, st := range fd.Body.List {
			as, ok := st.(*ast.AssignStmt)
			if !ok || len(as.Lhs) != 1 || len(as.Rhs) != 1 {
				continue
			}
			fv := fieldOf(as.Lhs[0], info)
			call, isCall := as.Rhs[0].(*ast.CallExpr)
			if fv == nil || !U[fv] || !isCall || len(call.Args) != 2 {
				continue
			}
			kid, ok := ast.Unparen(call.Args[1]).(*ast.Ident)
			if !ok || !params[info.Uses[kid]] {
				continue
			}
			n++
			// an earlier statement of the body: if <looks key up in L> { ... return }
			guarded := false
			for _, prev := range fd.Body.List[:si] {
				// the search written out: for i := len(tc.locals)-1; ..; i-- { if v.name == key { ..; return } }
				switch prev.(type) {
				case *ast.ForStmt, *ast.RangeStmt:
					readsTable, cmpKey, returns := false, false, false
					ast.Inspect(prev, func(y ast.Node) bool {
						switch e := y.(type) {
						case *ast.SelectorExpr:
							if fv, ok := info.Uses[e.Sel].(*types.Var); ok && L[fv] {
								readsTable = true
							}
						case *ast.BinaryExpr:
							if e.Op == token.EQL {
								for _, side := range []ast.Expr{e.X, e.Y} {
									if id, ok := ast.Unparen(side).(*ast.Ident); ok && info.Uses[id] == info.Uses[kid] {
										cmpKey = true
									}
								}
							}
						case *ast.ReturnStmt:
							returns = true
						}
						return true
					})
					if readsTable && cmpKey && returns {
						guarded = true
					}
					continue
				}
				ifs, ok := prev.(*ast.IfStmt)
				if !ok || len(ifs.Body.List) == 0 {
					continue
				}
				if _, ret := ifs.Body.List[len(ifs.Body.List)-1].(*ast.ReturnStmt); !ret {
					continue
				}
				looks := false
				check := func(n ast.Node) {
					if n == nil {
						return
					}
					ast.Inspect(n, func(y ast.Node) bool {
						switch e := y.(type) {
						case *ast.CallExpr:
							mentionsKey := false
							for _, a := range e.Args {
								if id, ok := ast.Unparen(a).(*ast.Ident); ok && info.Uses[id] == info.Uses[kid] {
									mentionsKey = true
								}
							}
							if !mentionsKey {
								return true
							}
							if callee := byFunc[calleeFunc(e, info)]; callee != nil && readsL(callee) {
								looks = true
							}
							for _, a := range e.Args {
								if f := fieldOf(a, info); f != nil && L[f] {
									looks = true
								}
							}
						}
						return true
					})
				}
				if ifs.Init != nil {
					check(ifs.Init)
				}
				check(ifs.Cond)
				if looks {
					guarded = true
				}
			}
			c.check(guarded, "R07k", c.declKey("parsepasses", fd)+" records-param-use", as.Pos(),
				"the key is recorded as a param use only after the {let} and loop variables in scope were searched for it",
				"every reference is recorded as a use of the param of that name, whether or not a {let} or loop variable binds the name there: a shadowing variable makes an unused param look used, and its going out of scope takes the param's real uses with it")
		}
	}
	c.floor("R07k", "places where a reference's key is recorded as a param use", 1, n)
}

// R07m: the soydoc recorded for a template is the node immediately before the template in its file, or a
// fresh empty one: the value stored in the Template record is defined only by asserting Body[i-1] (i being
// the template's own index), by a new SoyDocNode literal, or by a helper whose every return is one of these.
// A search further back hands one template the (mutable) soydoc of another.
func ruleR07m(c *Ctx) {
	p := c.pkg("template")
	fd := c.mustFunc("template", "Registry.Add")
	if p == nil || fd == nil {
		return
	}
	info := p.TypesInfo
	isDoc := func(t types.Type) bool {
		_, tn, ok := relPkgOfType(t)
		return ok && tn == "SoyDocNode"
	}
	var scopeOf ast.Node // body of the helper being followed, for resolving its locals
	var okExpr func(e ast.Expr, depth int) (bool, string)
	okExpr = func(e ast.Expr, depth int) (bool, string) {
		e = ast.Unparen(e)
		switch x := e.(type) {
		case *ast.Ident:
			if x.Name == "nil" {
				return true, ""
			}
			// a local whose every definition is itself acceptable (sdn, ok := body[i-1].(*ast.SoyDocNode))
			if obj := info.Uses[x]; obj != nil && scopeOf != nil {
				defs, good := 0, 0
				why := ""
				ast.Inspect(scopeOf, func(y ast.Node) bool {
					as, ok := y.(*ast.AssignStmt)
					if !ok {
						return true
					}
					for i, l := range as.Lhs {
						li, ok := l.(*ast.Ident)
						if !ok || (info.Defs[li] != obj && info.Uses[li] != obj) {
							continue
						}
						defs++
						r := as.Rhs[0]
						if len(as.Rhs) == len(as.Lhs) {
							r = as.Rhs[i]
						}
						if _, same := ast.Unparen(r).(*ast.Ident); same {
							continue
						}
						if g, w := okExpr(r, depth+1); g {
							good++
						} else {
							why = w
						}
					}
					return true
				})
				if defs > 0 && defs == good {
					return true, ""
				}
				if why != "" {
					return false, why
				}
			}
		case *ast.UnaryExpr:
			if _, ok := x.X.(*ast.CompositeLit); ok {
				return true, ""
			}
		case *ast.CompositeLit:
			return true, ""
		case *ast.TypeAssertExpr:
			if ix, ok := ast.Unparen(x.X).(*ast.IndexExpr); ok {
				if be, ok := ast.Unparen(ix.Index).(*ast.BinaryExpr); ok && be.Op == token.SUB && exprKey(be.Y) == "1" {
					if _, ok := ast.Unparen(be.X).(*ast.Ident); ok {
						return true, ""
					}
				}
			}
			return false, exprKey(e) + " is not the element just before the template"
		case *ast.CallExpr:
			if depth > 0 {
				return false, "nested helper " + exprKey(x.Fun)
			}
			cal := calleeFunc(x, info)
			for _, hd := range c.allFuncDecls("template") {
				if fn, _ := info.Defs[hd.Name].(*types.Func); fn != nil && fn == cal {
					good, why := true, ""
					scopeOf = hd.Body
					defer func() { scopeOf = nil }()
					ast.Inspect(hd.Body, func(y ast.Node) bool {
						if r, ok := y.(*ast.ReturnStmt); ok && len(r.Results) >= 1 {
							if g, w := okExpr(r.Results[0], depth+1); !g {
								good = false
								if w == "" {
									w = exprKey(r.Results[0])
								}
								why = cal.Name() + " returns " + w
							}
						}
						return true
					})
					return good, why
				}
			}
			return false, "call to " + exprKey(x.Fun)
		}
		return false, exprKey(e)
	}
	n := 0
	ast.Inspect(fd.Body, func(x ast.Node) bool {
		var lhs, rhs []ast.Expr
		switch s := x.(type) {
		case *ast.AssignStmt:
			lhs, rhs = s.Lhs, s.Rhs
		case *ast.ValueSpec:
			for _, nm := range s.Names {
				lhs = append(lhs, nm)
			}
			rhs = s.Values
		default:
			return true
		}
		if len(rhs) == 0 {
			return true
		}
		for i, l := range lhs {
			id, ok := l.(*ast.Ident)
			if !ok {
				continue
			}
			o := info.Defs[id]
			if o == nil {
				o = info.Uses[id]
			}
			if o == nil || !isDoc(o.Type()) {
				continue
			}
			r := rhs[0]
			if len(rhs) == len(lhs) {
				r = rhs[i]
			}
			n++
			good, why := okExpr(r, 0)
			c.check(good, "R07m", fmt.Sprintf("template.Registry.Add soydoc-definition#%d", n), x.Pos(),
				"the template's soydoc is the node just before it, or a fresh empty one",
				"the soydoc recorded for a template is taken from "+why+": a template without a comment of its own can be given (and will extend, when it has header params) the soydoc of another template, whose params it then inherits")
		}
		return true
	})
	c.floor("R07m", "definitions of the template's soydoc in Registry.Add", 2, n)
}

// R07n: the parser keeps what it parsed: every value parseTernary returns is a TernNode built from the
// condition and both branches (or the result of parsing a further ternary on top of it). A parser that
// returns one branch alone has dropped the other before the data-reference check (and every other pass)
// sees it: references there are neither checked nor counted as uses.
func ruleR07n(c *Ctx) {
	p := c.pkg("parse")
	fd := c.mustFunc("parse", "tree.parseTernary")
	if p == nil || fd == nil {
		return
	}
	info := p.TypesInfo
	self, _ := info.Defs[fd.Name].(*types.Func)
	isTernLit := func(e ast.Expr) bool {
		e = ast.Unparen(e)
		if ue, ok := e.(*ast.UnaryExpr); ok && ue.Op == token.AND {
			e = ue.X
		}
		cl, ok := e.(*ast.CompositeLit)
		if !ok {
			return false
		}
		tv, ok := info.Types[cl]
		if !ok {
			return false
		}
		_, tn, ok := relPkgOfType(tv.Type)
		return ok && tn == "TernNode" && len(cl.Elts) >= 3
	}
	var okValue func(e ast.Expr, depth int) bool
	okValue = func(e ast.Expr, depth int) bool {
		e = ast.Unparen(e)
		if isTernLit(e) {
			return true
		}
		if call, ok := e.(*ast.CallExpr); ok && calleeFunc(call, info) == self {
			return len(call.Args) == 1 && okValue(call.Args[0], depth+1)
		}
		if id, ok := e.(*ast.Ident); ok && depth < 3 {
			obj := info.Uses[id]
			defs, good := 0, 0
			ast.Inspect(fd.Body, func(x ast.Node) bool {
				var lhs, rhs []ast.Expr
				switch s := x.(type) {
				case *ast.AssignStmt:
					lhs, rhs = s.Lhs, s.Rhs
				case *ast.ValueSpec:
					for _, nm := range s.Names {
						lhs = append(lhs, nm)
					}
					rhs = s.Values
				default:
					return true
				}
				if len(lhs) != len(rhs) {
					return true
				}
				for i, l := range lhs {
					li, ok := l.(*ast.Ident)
					if !ok || (info.Defs[li] != obj && info.Uses[li] != obj) {
						continue
					}
					defs++
					if okValue(rhs[i], depth+1) {
						good++
					}
				}
				return true
			})
			return defs > 0 && defs == good
		}
		return false
	}
	n := 0
	ast.Inspect(fd.Body, func(x ast.Node) bool {
		r, ok := x.(*ast.ReturnStmt)
		if !ok || len(r.Results) != 1 {
			return true
		}
		n++
		c.check(okValue(r.Results[0], 0), "R07n", "parse.tree.parseTernary returns#"+itoa(n), r.Pos(), "returns the ternary node built from the condition and both branches",
			"parseTernary can return "+exprKey(r.Results[0])+", which is not always the ternary node holding the condition and both branches: a branch dropped by the parser is invisible to the data-reference check, so references in it are neither checked nor counted")
		return true
	})
	c.floor("R07n", "returns of parseTernary", 2, n)
}

// R07o: a {let} may not be named $ij, in either of its forms. The test (a comparison of the name with "ij"
// whose branch raises) covers both: either both let arms of the checker call the function that makes it, or
// the parser makes it in parseLet before the first statement that can return a node.
func ruleR07o(c *Ctx) {
	nr := newNoRet(c)
	// functions that compare something with "ij" and raise in that branch
	raisers := map[*types.Func]string{}
	for _, rel := range []string{"parsepasses", "parse"} {
		p := c.pkg(rel)
		if p == nil {
			continue
		}
		info := p.TypesInfo
		for _, fd := range c.allFuncDecls(rel) {
			ast.Inspect(fd.Body, func(x ast.Node) bool {
				ifs, ok := x.(*ast.IfStmt)
				if !ok {
					return true
				}
				be, ok := ast.Unparen(ifs.Cond).(*ast.BinaryExpr)
				if !ok || be.Op != token.EQL {
					return true
				}
				isIJ := func(e ast.Expr) bool {
					tv := info.Types[e]
					return tv.Value != nil && tv.Value.Kind() == constant.String && constant.StringVal(tv.Value) == "ij"
				}
				if !isIJ(be.X) && !isIJ(be.Y) {
					return true
				}
				raises := false
				ast.Inspect(ifs.Body, func(y ast.Node) bool {
					if call, ok := y.(*ast.CallExpr); ok && nr.callNoReturn(call, info) {
						raises = true
					}
					return true
				})
				if raises {
					if fn, ok := info.Defs[fd.Name].(*types.Func); ok {
						raisers[fn] = rel
					}
				}
				return true
			})
		}
	}
	covered := map[string]bool{}
	// (a) the checker's let arms call a raiser with the node's name
	if ck := c.funcDecl("parsepasses", "templateChecker.checkTemplate"); ck != nil {
		info := c.Pkgs["parsepasses"].TypesInfo
		ast.Inspect(ck.Body, func(x ast.Node) bool {
			cc, ok := x.(*ast.CaseClause)
			if !ok || len(cc.List) != 1 {
				return true
			}
			tv, ok := info.Types[cc.List[0]]
			if !ok {
				return true
			}
			_, tn, ok := relPkgOfType(tv.Type)
			if !ok || (tn != "LetValueNode" && tn != "LetContentNode") {
				return true
			}
			ast.Inspect(&ast.BlockStmt{List: c.expandArm("parsepasses", cc.Body).stmts}, func(y ast.Node) bool {
				if call, ok := y.(*ast.CallExpr); ok {
					if _, isRaiser := raisers[calleeFunc(call, info)]; isRaiser {
						covered[tn] = true
					}
				}
				return true
			})
			return true
		})
	}
	// (b) the parser tests the name before anything in parseLet can return
	if pl := c.funcDecl("parse", "tree.parseLet"); pl != nil {
		info := c.Pkgs["parse"].TypesInfo
		checkAt, returnAt := -1, -1
		for i, st := range pl.Body.List {
			ast.Inspect(st, func(y ast.Node) bool {
				if be, ok := y.(*ast.BinaryExpr); ok && be.Op == token.EQL && checkAt < 0 {
					for _, e := range []ast.Expr{be.X, be.Y} {
						if tv := info.Types[e]; tv.Value != nil && tv.Value.Kind() == constant.String && constant.StringVal(tv.Value) == "ij" {
							checkAt = i
						}
					}
				}
				if call, ok := y.(*ast.CallExpr); ok && checkAt < 0 {
					if _, isRaiser := raisers[calleeFunc(call, info)]; isRaiser {
						checkAt = i
					}
				}
				if _, ok := y.(*ast.ReturnStmt); ok && returnAt < 0 {
					returnAt = i
				}
				return true
			})
		}
		if checkAt >= 0 && (returnAt < 0 || checkAt < returnAt) {
			covered["LetValueNode"], covered["LetContentNode"] = true, true
		}
	}
	for _, tn := range []string{"LetValueNode", "LetContentNode"} {
		c.check(covered[tn], "R07o", "let-named-ij "+tn, token.NoPos, "the name is tested against ij for this form of {let}",
			"no test rejects the name ij for "+tn+": {let $ij ...} in that form compiles, and $ij then no longer means the injected data inside the block")
	}
	c.floor("R07o", "functions that reject a let named ij", 1, len(raisers))
}
