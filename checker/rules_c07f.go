package main

import (
	"fmt"
	"go/ast"
	"go/token"
	"go/types"
)

// fieldOf returns the field object when e is a selector of a struct field (tc.usedKeys).
func fieldOf(e ast.Expr, info *types.Info) *types.Var {
	se, ok := ast.Unparen(e).(*ast.SelectorExpr)
	if !ok {
		return nil
	}
	fv, ok := info.Uses[se.Sel].(*types.Var)
	if !ok || !fv.IsField() {
		return nil
	}
	return fv
}

// R07f: the scope accounting of templateChecker.recurse reads the checker's stacks only through the
// marks taken at scope entry (m := len(tc.F); later tc.F[m:] / tc.F[:m] / len(tc.F)): what an enclosing
// scope recorded is not this scope's business.
func ruleR07f(c *Ctx) {
	p := c.pkg("parsepasses")
	fd := c.mustFunc("parsepasses", "templateChecker.recurse")
	if p == nil || fd == nil {
		return
	}
	info := p.TypesInfo
	// marks: local := len(tc.F)
	marks := map[*types.Var]types.Object{}
	markPos := map[*types.Var]token.Pos{}
	ast.Inspect(fd.Body, func(x ast.Node) bool {
		var lhs []ast.Expr
		var rhs []ast.Expr
		switch s := x.(type) {
		case *ast.AssignStmt:
			lhs, rhs = s.Lhs, s.Rhs
		case *ast.ValueSpec:
			for _, nm := range s.Names {
				lhs = append(lhs, nm)
			}
			rhs = s.Values
		default:
			return true
		}
		if len(lhs) != len(rhs) {
			return true
		}
		for i := range lhs {
			id, ok := lhs[i].(*ast.Ident)
			if !ok {
				continue
			}
			call, ok := ast.Unparen(rhs[i]).(*ast.CallExpr)
			if !ok || len(call.Args) != 1 {
				continue
			}
			if fn, ok := call.Fun.(*ast.Ident); !ok || fn.Name != "len" {
				continue
			}
			if fv := fieldOf(call.Args[0], info); fv != nil && info.Defs[id] != nil {
				if _, dup := marks[fv]; !dup {
					marks[fv] = info.Defs[id]
					markPos[fv] = x.Pos()
				}
			}
		}
		return true
	})
	c.floor("R07f", "scope-entry marks in templateChecker.recurse", 3, len(marks))
	// every other read of a marked field
	var stack []ast.Node
	reads := 0
	perField := map[*types.Var]int{}
	ast.Inspect(fd.Body, func(x ast.Node) bool {
		if x == nil {
			stack = stack[:len(stack)-1]
			return true
		}
		stack = append(stack, x)
		fv := (*types.Var)(nil)
		if e, ok := x.(ast.Expr); ok {
			fv = fieldOf(e, info)
		}
		if fv == nil || marks[fv] == nil || len(stack) < 2 {
			return true
		}
		parent := stack[len(stack)-2]
		good := false
		switch pn := parent.(type) {
		case *ast.CallExpr:
			if fn, ok := pn.Fun.(*ast.Ident); ok && fn.Name == "len" {
				good = true
			}
		case *ast.SliceExpr:
			if pn.X == x {
				isMark := func(b ast.Expr) bool {
					id, ok := b.(*ast.Ident)
					return ok && info.Uses[id] == marks[fv]
				}
				good = (pn.Low != nil && pn.High == nil && isMark(pn.Low)) || (pn.High != nil && pn.Low == nil && isMark(pn.High))
			}
		case *ast.AssignStmt:
			for _, l := range pn.Lhs {
				if l == x {
					good = true
				}
			}
		}
		reads++
		perField[fv]++
		key := fmt.Sprintf("parsepasses.templateChecker.recurse reads %s#%d", fv.Name(), perField[fv])
		c.check(good, "R07f", key, x.Pos(), "read through the mark taken at scope entry",
			"tc."+fv.Name()+" is read whole, not from the mark "+marks[fv].Name()+" taken at scope entry: what enclosing scopes recorded (a use of an outer variable of the same name) is counted for this scope")
		return true
	})
	c.floor("R07f", "reads of the marked stacks", 6, reads)
}

// R07g: under data="all" the names a call is taken to pass are drawn from the caller's declared params
// (tc.params) only: let and loop variables are not data and are not passed.
func ruleR07g(c *Ctx) {
	p := c.pkg("parsepasses")
	fd := c.mustFunc("parsepasses", "templateChecker.checkCall")
	if p == nil || fd == nil {
		return
	}
	info := p.TypesInfo
	n := 0
	ast.Inspect(fd.Body, func(x ast.Node) bool {
		ifs, ok := x.(*ast.IfStmt)
		if !ok {
			return true
		}
		fv := fieldOf(ifs.Cond, info)
		if fv == nil || fv.Name() != "AllData" {
			return true
		}
		// every value appended to a local slice inside this branch
		var walk func(n ast.Node, fromParams map[types.Object]bool, guarded map[string]bool)
		walk = func(nd ast.Node, fromParams map[types.Object]bool, guarded map[string]bool) {
			ast.Inspect(nd, func(y ast.Node) bool {
				switch s := y.(type) {
				case *ast.RangeStmt:
					fp := map[types.Object]bool{}
					for k, v := range fromParams {
						fp[k] = v
					}
					if pf := fieldOf(s.X, info); pf != nil && pf.Name() == "params" {
						if id, ok := s.Value.(*ast.Ident); ok && info.Defs[id] != nil {
							fp[info.Defs[id]] = true
						}
					}
					walk(s.Body, fp, guarded)
					return false
				case *ast.IfStmt:
					g := map[string]bool{}
					for k := range guarded {
						g[k] = true
					}
					for _, cj := range conjuncts(s.Cond) {
						if call, ok := ast.Unparen(cj).(*ast.CallExpr); ok && len(call.Args) == 2 {
							if cal := calleeFunc(call, info); cal != nil && cal.Name() == "contains" {
								if pf := fieldOf(call.Args[0], info); pf != nil && pf.Name() == "params" {
									g[exprKey(call.Args[1])] = true
								}
							}
						}
					}
					walk(s.Body, fromParams, g)
					if s.Else != nil {
						walk(s.Else, fromParams, guarded)
					}
					return false
				case *ast.CallExpr:
					if id, ok := s.Fun.(*ast.Ident); ok && id.Name == "append" && len(s.Args) >= 2 {
						if _, isField := ast.Unparen(s.Args[0]).(*ast.SelectorExpr); isField {
							return true // tc.usedKeys bookkeeping
						}
						for _, a := range s.Args[1:] {
							n++
							ok := guarded[exprKey(a)]
							if aid, isID := ast.Unparen(a).(*ast.Ident); isID && fromParams[info.Uses[aid]] {
								ok = true
							}
							c.check(ok, "R07g", fmt.Sprintf("parsepasses.templateChecker.checkCall data=all passes %s#%d", exprKey(s.Args[0]), n), s.Pos(),
								"the name comes from the caller's declared params", "under data=\"all\" the call is taken to pass "+exprKey(a)+", which is not drawn from the caller's declared params (tc.params): a {let} or loop variable of that name satisfies a required param that the rendered call never receives")
						}
					}
				}
				return true
			})
		}
		walk(ifs.Body, map[types.Object]bool{}, map[string]bool{})
		return false
	})
	c.floor("R07g", "names passed under data=all", 1, n)
}

func conjuncts(e ast.Expr) []ast.Expr {
	e = ast.Unparen(e)
	if be, ok := e.(*ast.BinaryExpr); ok && be.Op == token.LAND {
		return append(conjuncts(be.X), conjuncts(be.Y)...)
	}
	return []ast.Expr{e}
}
