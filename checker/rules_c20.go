package main

import (
	"fmt"
	"go/ast"
	"go/constant"
	"go/token"
	"go/types"
	"strings"
)

// R20a: no comparison against math.NaN() (always false/true by IEEE rules).
func ruleR20a(c *Ctx) {
	n := 0
	for _, rel := range []string{"data", "soyhtml"} {
		p := c.pkg(rel)
		if p == nil {
			continue
		}
		for _, fd := range c.allFuncDecls(rel) {
			n++
			ast.Inspect(fd.Body, func(x ast.Node) bool {
				be, ok := x.(*ast.BinaryExpr)
				if !ok {
					return true
				}
				switch be.Op {
				case token.EQL, token.NEQ, token.LSS, token.GTR, token.LEQ, token.GEQ:
				default:
					return true
				}
				for _, side := range []ast.Expr{be.X, be.Y} {
					if call, ok := ast.Unparen(side).(*ast.CallExpr); ok {
						if cal := calleeFunc(call, p.TypesInfo); cal != nil && cal.FullName() == "math.NaN" {
							c.bad("R20a", c.declKey(rel, fd)+" compares-with-NaN", be.Pos(), "comparison with math.NaN() is constant by IEEE rules ("+exprKey(be)+"): NaN is never recognised")
						}
					}
				}
				return true
			})
		}
	}
	c.ok("R20a", "data#scanned-for-NaN-comparisons", token.NoPos, fmt.Sprintf("%d functions of data and soyhtml scanned", n))
}

// valueKinds: the eight Soy value types.
var valueKinds = []string{"Undefined", "Null", "Bool", "Int", "Float", "String", "List", "Map"}

// constHypo binds nothing.
// R20e/R20d: truthiness follows the language table and is a function of the value alone.
func ruleR20d(c *Ctx) {
	p := c.pkg("data")
	if p == nil {
		return
	}
	info := p.TypesInfo
	type sample struct {
		v    constant.Value
		want bool
		desc string
	}
	samples := map[string][]sample{
		"Bool":   {{constant.MakeBool(true), true, "true"}, {constant.MakeBool(false), false, "false"}},
		"Int":    {{constant.MakeInt64(0), false, "0"}, {constant.MakeInt64(5), true, "5"}, {constant.MakeInt64(-1), true, "-1"}},
		"Float":  {{constant.MakeFloat64(0), false, "0.0"}, {constant.MakeFloat64(1.5), true, "1.5"}, {constant.MakeFloat64(-0.5), true, "-0.5"}},
		"String": {{constant.MakeString(""), false, `""`}, {constant.MakeString("a"), true, `"a"`}, {constant.MakeString("0"), true, `"0"`}},
	}
	fixed := map[string]bool{"Undefined": false, "Null": false, "List": true, "Map": true}
	found := 0
	for _, fd := range c.allFuncDecls("data") {
		if fd.Name.Name != "Truthy" || fd.Recv == nil {
			continue
		}
		kind := recvTypeName(fd.Recv.List[0].Type)
		found++
		key := "data." + kind + ".Truthy"
		c.seen(key)
		// (d) the method computes from its receiver only: no package variable is read anywhere in it
		pure := true
		ast.Inspect(fd.Body, func(x ast.Node) bool {
			if id, ok := x.(*ast.Ident); ok {
				if v, ok := info.Uses[id].(*types.Var); ok && v.Pkg() != nil && v.Parent() == v.Pkg().Scope() {
					pure = false // reads a package variable
				}
			}
			return true
		})
		c.check(pure, "R20d", key+"#pure", fd.Pos(), "computed from the receiver alone", "Truthy reads package state")
		var recvObj types.Object
		if len(fd.Recv.List[0].Names) == 1 {
			recvObj = info.Defs[fd.Recv.List[0].Names[0]]
		}
		ev := newEvaluator(c, truthyHypo{})
		// the body is evaluated (K2) with the receiver bound to the sample; every returning path must agree
		evalWith := func(v aval) (aval, bool) {
			st := state{env: env{}}
			if recvObj != nil {
				st.env[recvObj] = v
			}
			var got *aval
			for _, cp := range ev.execBlock(fd.Body.List, st, info) {
				if cp.kind != cReturn || len(cp.vals) != 1 {
					continue
				}
				r := cp.vals[0]
				if got == nil {
					got = &r
				} else if got.k != r.k || (got.k == avConst && !constant.Compare(got.c, token.EQL, r.c)) {
					return unknown, false
				}
			}
			if got == nil {
				return unknown, false
			}
			return *got, true
		}
		if want, ok := fixed[kind]; ok {
			got, _ := evalWith(unknown)
			c.check((want && got.isTrue()) || (!want && got.isFalse()), "R20d", key+"#table", fd.Pos(),
				fmt.Sprintf("always %v, as the language table says", want), fmt.Sprintf("%s must always be %v in the language table, Truthy yields %s", kind, want, got))
			continue
		}
		for _, s := range samples[kind] {
			got, _ := evalWith(constVal(s.v))
			k := fmt.Sprintf("%s#table %s", key, s.desc)
			switch {
			case got.k != avConst:
				c.unk("R20d", k, fd.Pos(), "Truthy could not be evaluated on this constant")
			case got.isTrue() == s.want:
				c.ok("R20d", k, fd.Pos(), fmt.Sprintf("%s(%s) is %v", kind, s.desc, s.want))
			default:
				c.bad("R20d", k, fd.Pos(), fmt.Sprintf("%s(%s) is %v, the language table says %v", kind, s.desc, !s.want, s.want))
			}
		}
		if kind == "Float" {
			// NaN is falsy: the expression must reject NaN through math.IsNaN under a negation
			// ... either as a conjunct `!math.IsNaN(v)` of the returned expression or as a guard that returns false
			excl := false
			ast.Inspect(fd.Body, func(x ast.Node) bool {
				switch e := x.(type) {
				case *ast.UnaryExpr:
					if e.Op == token.NOT && strings.HasPrefix(exprKey(e.X), "math.IsNaN(") {
						excl = true
					}
				case *ast.IfStmt:
					if strings.HasPrefix(exprKey(e.Cond), "math.IsNaN(") && len(e.Body.List) == 1 {
						if r, ok := e.Body.List[0].(*ast.ReturnStmt); ok && len(r.Results) == 1 && exprKey(r.Results[0]) == "false" {
							excl = true
						}
					}
				}
				return true
			})
			c.check(excl, "R20d", key+"#table NaN", fd.Pos(), "NaN is excluded with math.IsNaN", "Float.Truthy does not exclude NaN (no math.IsNaN test that makes it false): NaN is truthy")
		}
	}
	c.floor("R20d", "Truthy methods", 8, found)
}

// R20b: the pairs of kinds that Equals can accept form a symmetric relation.
func ruleR20b(c *Ctx) {
	p := c.pkg("data")
	if p == nil {
		return
	}
	info := p.TypesInfo
	accepts := map[string]map[string]bool{}
	for _, fd := range c.allFuncDecls("data") {
		if fd.Name.Name != "Equals" || fd.Recv == nil {
			continue
		}
		kind := recvTypeName(fd.Recv.List[0].Type)
		accepts[kind] = map[string]bool{}
		c.seen("data." + kind + ".Equals")
		ast.Inspect(fd.Body, func(x ast.Node) bool {
			switch x := x.(type) {
			case *ast.TypeAssertExpr:
				if x.Type != nil {
					if tv, ok := info.Types[x.Type]; ok {
						if _, tn, ok := relPkgOfType(tv.Type); ok {
							accepts[kind][tn] = true
						}
					}
				}
			case *ast.CaseClause:
				// a type-switch arm that can return true
				canTrue := false
				for _, s := range x.Body {
					ast.Inspect(s, func(y ast.Node) bool {
						if r, ok := y.(*ast.ReturnStmt); ok && len(r.Results) == 1 {
							if id, ok := r.Results[0].(*ast.Ident); !ok || id.Name != "false" {
								canTrue = true
							}
						}
						return true
					})
				}
				if canTrue {
					for _, e := range x.List {
						if tv, ok := info.Types[e]; ok && tv.IsType() {
							if _, tn, ok := relPkgOfType(tv.Type); ok {
								accepts[kind][tn] = true
							}
						}
					}
				}
			}
			return true
		})
	}
	n := 0
	for _, a := range valueKinds {
		if accepts[a] == nil {
			c.bad("R20b", "data."+a+".Equals", token.NoPos, "value kind "+a+" has no Equals method")
			continue
		}
		for _, b := range valueKinds {
			if a > b {
				continue
			}
			n++
			ab, ba := accepts[a][b], accepts[b] != nil && accepts[b][a]
			key := fmt.Sprintf("Equals %s~%s", a, b)
			switch {
			case ab != ba:
				c.bad("R20b", key, token.NoPos, fmt.Sprintf("%s.Equals can accept a %s (%v) but %s.Equals a %s (%v): equality is not symmetric", a, b, ab, b, a, ba))
			case a == b && !ab:
				c.bad("R20b", key, token.NoPos, a+".Equals never accepts another "+a)
			default:
				c.ok("R20b", key, token.NoPos, fmt.Sprintf("accepted both ways: %v", ab))
			}
		}
	}
	// numeric comparison across Int/Float
	c.check(accepts["Int"]["Float"] && accepts["Float"]["Int"], "R20b", "Equals Int~Float numeric", token.NoPos, "Int and Float compare numerically with each other", "Int and Float are no longer comparable: 1 == 1.0 is false")
	c.floor("R20b", "kind pairs", 36, n)
}

// R20c: the conversion covers every reflect kind the statement lists, and nil values return before being dereferenced.
func ruleR20c(c *Ctx) {
	fd := c.mustFunc("data", "NewWith")
	p := c.pkg("data")
	if fd == nil || p == nil {
		return
	}
	info := p.TypesInfo
	c.seen("data.NewWith")
	need := []string{"Int", "Int8", "Int16", "Int32", "Int64", "Uint", "Uint8", "Uint16", "Uint32", "Uint64", "Float32", "Float64", "Bool", "String", "Slice", "Map", "Struct"}
	have := map[string]*ast.CaseClause{}
	var kindSwitch *ast.SwitchStmt
	ast.Inspect(fd.Body, func(x ast.Node) bool {
		if sw, ok := x.(*ast.SwitchStmt); ok {
			for _, cs := range sw.Body.List {
				cc := cs.(*ast.CaseClause)
				for _, e := range cc.List {
					if k := constObj(info, e); k != nil && k.Pkg() != nil && k.Pkg().Path() == "reflect" {
						have[k.Name()] = cc
						kindSwitch = sw
					}
				}
			}
		}
		return true
	})
	// kinds dispatched through a table (map[reflect.Kind]func ...) that NewWith indexes with the value's kind
	tableKinds := converterTableArms(c)
	for _, k := range need {
		if have[k] == nil && tableKinds[k] != nil {
			c.ok("R20c", "data.NewWith kind "+k, tableKinds[k].Pos(), "converted by an entry of the kind table the converter consults")
			continue
		}
		c.check(have[k] != nil, "R20c", "data.NewWith kind "+k, fd.Pos(), "converted by a case of the kind switch", "values of reflect kind "+k+" fall to the default arm and make the conversion panic")
	}
	if kindSwitch == nil {
		c.fatalf("anchor: reflect kind switch not found in data.NewWith")
		return
	}
	// before the switch: pointers/interfaces unwrapped, invalid (nil) returns, time.Time special-cased
	var before []ast.Stmt
	for _, s := range fd.Body.List {
		if s == ast.Stmt(kindSwitch) {
			break
		}
		before = append(before, s)
	}
	src := ""
	for _, s := range before {
		// the statement, and the helpers it calls (the unwrapping loop may live in a function of its own)
		for _, nd := range c.nodeWithHelpers("data", s, 1) {
			ast.Inspect(nd, func(x ast.Node) bool {
				if e, ok := x.(ast.Expr); ok {
					src += exprKey(e) + ";"
					if _, isCall := e.(*ast.CallExpr); !isCall {
						return false
					}
				}
				return true
			})
		}
	}
	// time.Time may also be recognised as the first thing the struct arm does, before the field-by-field conversion
	if cc := have["Struct"]; cc != nil && len(cc.Body) > 0 {
		first := ""
		ast.Inspect(cc.Body[0], func(x ast.Node) bool {
			if e, ok := x.(ast.Expr); ok {
				first += exprKey(e) + ";"
			}
			return true
		})
		if strings.Contains(first, "timeType") {
			src += "timeType;"
		}
	}
	c.check(strings.Contains(src, "reflect.Ptr") && strings.Contains(src, "reflect.Interface") && strings.Contains(src, ".Elem()"), "R20c", "data.NewWith unwraps pointers", fd.Pos(), "pointers and interfaces are unwrapped before the kind switch", "pointers/interfaces are not unwrapped before the kind switch")
	c.check(strings.Contains(src, "!v.IsValid()") || strings.Contains(src, "IsValid()"), "R20c", "data.NewWith nil-after-unwrap", fd.Pos(), "a nil pointer/interface returns before the value is used", "no IsValid test after unwrapping: a nil pointer faults")
	c.check(strings.Contains(src, "timeType"), "R20c", "data.NewWith time-before-struct", fd.Pos(), "time.Time is recognised before the struct case", "time.Time is not special-cased before the struct case: it is converted field by field")
	if cc := have["Slice"]; cc != nil {
		s := ""
		// the arm, or the helper it hands the slice to
		for _, nd := range c.nodeWithHelpers("data", cc, 1) {
			ast.Inspect(nd, func(x ast.Node) bool {
				if call, ok := x.(*ast.CallExpr); ok {
					if se, ok := call.Fun.(*ast.SelectorExpr); ok && se.Sel.Name == "IsNil" && len(call.Args) == 0 {
						s += "IsNil();"
					}
				}
				return true
			})
		}
		c.check(strings.Contains(s, "IsNil()"), "R20c", "data.NewWith nil-slice", cc.Pos(), "a nil slice is handled before indexing", "nil slices are not tested")
	}
}

// R20f: Int and Float compare numerically: in each cross-kind arm of Equals both sides are converted to
// float64 (truncating one side to the other's kind makes 1 == 1.5, and only in one direction).
func ruleR20f(c *Ctx) {
	p := c.pkg("data")
	if p == nil {
		return
	}
	info := p.TypesInfo
	isFloatTyped := func(e ast.Expr) bool {
		tv, ok := info.Types[e]
		if !ok {
			return false
		}
		b, ok := tv.Type.Underlying().(*types.Basic)
		return ok && b.Info()&types.IsFloat != 0
	}
	// truncates: a conversion to an integer type applied to a float-typed operand somewhere inside e
	truncates := func(e ast.Expr) bool {
		found := false
		ast.Inspect(e, func(x ast.Node) bool {
			call, ok := x.(*ast.CallExpr)
			if !ok || len(call.Args) != 1 {
				return true
			}
			if t, ok := info.Types[call.Fun]; ok && t.IsType() {
				if b, ok := t.Type.Underlying().(*types.Basic); ok && b.Info()&types.IsInteger != 0 && isFloatTyped(call.Args[0]) {
					found = true
				}
			}
			return true
		})
		return found
	}
	type arm struct {
		cc        *ast.CaseClause
		floatCmp  bool
		delegates bool
	}
	arms := map[string]*arm{}
	for _, fd := range c.allFuncDecls("data") {
		if fd.Name.Name != "Equals" || fd.Recv == nil || len(fd.Recv.List[0].Names) == 0 {
			continue
		}
		kind := recvTypeName(fd.Recv.List[0].Type)
		if kind != "Int" && kind != "Float" {
			continue
		}
		recv := info.Defs[fd.Recv.List[0].Names[0]]
		other := map[string]string{"Int": "Float", "Float": "Int"}[kind]
		ast.Inspect(fd.Body, func(x ast.Node) bool {
			cc, ok := x.(*ast.CaseClause)
			if !ok || len(cc.List) != 1 {
				return true
			}
			tv, ok := info.Types[cc.List[0]]
			if !ok || !tv.IsType() {
				return true
			}
			if _, tn, ok := relPkgOfType(tv.Type); !ok || tn != other {
				return true
			}
			a := &arm{cc: cc}
			arms[kind] = a
			for _, s := range cc.Body {
				r, ok := s.(*ast.ReturnStmt)
				if !ok || len(r.Results) != 1 {
					continue
				}
				switch e := ast.Unparen(r.Results[0]).(type) {
				case *ast.BinaryExpr:
					// compared as floating-point numbers: both operands float-typed, nothing truncated on the way
					if e.Op == token.EQL && isFloatTyped(e.X) && isFloatTyped(e.Y) && !truncates(e.X) && !truncates(e.Y) {
						a.floatCmp = true
					}
				case *ast.CallExpr:
					// handed to the other kind's Equals with the receiver as argument: o.Equals(v)
					if se, ok := ast.Unparen(e.Fun).(*ast.SelectorExpr); ok && se.Sel.Name == "Equals" && len(e.Args) == 1 {
						if aid, ok := ast.Unparen(e.Args[0]).(*ast.Ident); ok && info.Uses[aid] == recv {
							if rtv, ok := info.Types[se.X]; ok {
								if _, tn, ok := relPkgOfType(rtv.Type); ok && tn == other {
									a.delegates = true
								}
							}
						}
					}
				}
			}
			return true
		})
	}
	n := 0
	for _, kind := range []string{"Float", "Int"} {
		a := arms[kind]
		if a == nil {
			continue
		}
		n++
		other := map[string]string{"Int": "Float", "Float": "Int"}[kind]
		key := "data." + kind + ".Equals cross-kind " + other
		good := a.floatCmp || (a.delegates && arms[other] != nil && arms[other].floatCmp)
		detail := "both operands are compared as floating-point numbers"
		if !a.floatCmp && good {
			detail = "handed to " + other + ".Equals, which compares both operands as floating-point numbers"
		}
		c.check(good, "R20f", key, a.cc.Pos(), detail, "the "+other+" arm of "+kind+".Equals does not compare both values as floating-point numbers: a fractional value can equal the integer it truncates to, in one direction only")
	}
	c.floor("R20f", "cross-kind arms of numeric Equals", 2, n)
}

// R20g: in package data a string is cut only at a rune boundary known by provenance: the bound is absent,
// 0, len(..), or the size result of a utf8.Decode* call. (Field names are arbitrary Go identifiers: a
// constant byte offset splits a multi-byte first letter.)
func ruleR20g(c *Ctx) {
	p := c.pkg("data")
	if p == nil {
		return
	}
	info := p.TypesInfo
	n := 0
	for _, f := range p.Syntax {
		for _, d := range f.Decls {
			fd, ok := d.(*ast.FuncDecl)
			if !ok || fd.Body == nil {
				continue
			}
			// objects bound to the size result of utf8.Decode*
			sizes := map[types.Object]bool{}
			note := func(lhs []ast.Expr, rhs []ast.Expr) {
				if len(rhs) != 1 || len(lhs) != 2 {
					return
				}
				call, ok := ast.Unparen(rhs[0]).(*ast.CallExpr)
				if !ok {
					return
				}
				cal := calleeFunc(call, info)
				if cal == nil || cal.Pkg() == nil || cal.Pkg().Path() != "unicode/utf8" || !strings.HasPrefix(cal.Name(), "Decode") {
					return
				}
				if id, ok := lhs[1].(*ast.Ident); ok {
					if o := info.Defs[id]; o != nil {
						sizes[o] = true
					} else if o := info.Uses[id]; o != nil {
						sizes[o] = true
					}
				}
			}
			assigned := map[types.Object]int{}
			ast.Inspect(fd.Body, func(x ast.Node) bool {
				switch s := x.(type) {
				case *ast.AssignStmt:
					note(s.Lhs, s.Rhs)
					for _, l := range s.Lhs {
						if id, ok := l.(*ast.Ident); ok {
							if o := info.Defs[id]; o != nil {
								assigned[o]++
							} else if o := info.Uses[id]; o != nil {
								assigned[o]++
							}
						}
					}
				case *ast.ValueSpec:
					var lhs []ast.Expr
					for _, nm := range s.Names {
						lhs = append(lhs, nm)
						assigned[info.Defs[nm]]++
					}
					note(lhs, s.Values)
				case *ast.IncDecStmt:
					if id, ok := s.X.(*ast.Ident); ok {
						assigned[info.Uses[id]]++
					}
				}
				return true
			})
			ord := 0
			ast.Inspect(fd.Body, func(x ast.Node) bool {
				se, ok := x.(*ast.SliceExpr)
				if !ok {
					return true
				}
				tv, ok := info.Types[se.X]
				if !ok {
					return true
				}
				if b, ok := tv.Type.Underlying().(*types.Basic); !ok || b.Info()&types.IsString == 0 {
					return true
				}
				ord++
				n++
				good := true
				why := ""
				for _, bd := range []ast.Expr{se.Low, se.High} {
					if bd == nil {
						continue
					}
					if btv, ok := info.Types[bd]; ok && btv.Value != nil {
						if v, exact := constant.Int64Val(btv.Value); exact && v == 0 {
							continue
						}
						good, why = false, "the constant byte offset "+exprKey(bd)
						continue
					}
					if call, ok := ast.Unparen(bd).(*ast.CallExpr); ok {
						if id, ok := call.Fun.(*ast.Ident); ok && id.Name == "len" {
							if _, isBuiltin := info.Uses[id].(*types.Builtin); isBuiltin {
								continue
							}
						}
					}
					if id, ok := ast.Unparen(bd).(*ast.Ident); ok {
						if o := info.Uses[id]; o != nil && sizes[o] && assigned[o] == 1 {
							continue
						}
					}
					good, why = false, "the offset "+exprKey(bd)+", which is not the size of a decoded rune"
				}
				key := fmt.Sprintf("%s string-cut#%d", c.declKey("data", fd), ord)
				c.check(good, "R20g", key, se.Pos(), "cut at a rune boundary (bound is 0, len, or the size of a decoded rune)",
					"the string is cut at "+why+": a name or text that begins with a multi-byte character is split inside it")
				return true
			})
		}
	}
	c.floor("R20g", "string cuts in package data", 1, n)
}

// R20h: printing (and every other function of) package data does not depend on map iteration order.
func ruleR20h(c *Ctx) {
	c.buildSSA()
	nf, nl := runMapOrder(c, "R20h", nil, func(rel string, fd *ast.FuncDecl) bool { return rel == "data" })
	c.floor("R20h", "functions of package data examined", 25, nf)
	c.floor("R20h", "ranges over maps classified", 1, nl)
}

// converterTableArms: when data.NewWith (or a helper) indexes a package-level map keyed by reflect.Kind whose
// values are functions, the entries are arms of the converter: kind name -> body of the entry's function.
func converterTableArms(c *Ctx) map[string]ast.Node {
	p := c.pkg("data")
	fd := c.mustFunc("data", "NewWith")
	out := map[string]ast.Node{}
	if p == nil || fd == nil {
		return out
	}
	info := p.TypesInfo
	byFunc := map[types.Object]*ast.FuncDecl{}
	for _, d := range c.allFuncDecls("data") {
		byFunc[info.Defs[d.Name]] = d
	}
	for _, hd := range c.withHelpers("data", fd, 2) {
		ast.Inspect(hd.Body, func(x ast.Node) bool {
			ix, ok := x.(*ast.IndexExpr)
			if !ok {
				return true
			}
			id, ok := ast.Unparen(ix.X).(*ast.Ident)
			if !ok {
				return true
			}
			v, ok := info.Uses[id].(*types.Var)
			if !ok || v.Pkg() == nil || v.Parent() != v.Pkg().Scope() {
				return true
			}
			mt, ok := v.Type().Underlying().(*types.Map)
			if !ok {
				return true
			}
			if _, isFunc := mt.Elem().Underlying().(*types.Signature); !isFunc {
				return true
			}
			init, _ := ast.Unparen(c.pkgVarInit("data", v.Name())).(*ast.CompositeLit)
			if init == nil {
				return true
			}
			for _, el := range init.Elts {
				kv, ok := el.(*ast.KeyValueExpr)
				if !ok {
					continue
				}
				k := constObj(info, kv.Key)
				if k == nil || k.Pkg() == nil || k.Pkg().Path() != "reflect" {
					continue
				}
				switch val := ast.Unparen(kv.Value).(type) {
				case *ast.Ident:
					if d := byFunc[info.Uses[val]]; d != nil {
						out[k.Name()] = d.Body
					}
				case *ast.FuncLit:
					out[k.Name()] = val.Body
				}
			}
			return true
		})
	}
	return out
}

// truthyHypo: samples are ordinary numbers, so math.IsNaN of one is false.
type truthyHypo struct{}

func (truthyHypo) expr(ev *evaluator, e ast.Expr, info *types.Info) (aval, bool) { return unknown, false }
func (truthyHypo) prim(ev *evaluator, fn *types.Func, call *ast.CallExpr, st state) (aval, bool) {
	if fn != nil && fn.Pkg() != nil && fn.Pkg().Path() == "math" && fn.Name() == "IsNaN" {
		return boolVal(false), true
	}
	return unknown, false
}
func (truthyHypo) isRead(fn *types.Func) bool { return false }
