package main

import (
	"fmt"
	"go/ast"
	"go/constant"
	"go/token"
	"go/types"
	"strconv"
	"strings"
)

// loopDirection classifies a loop over slice X: +1 first-to-last, -1 last-to-first, 0 unknown.
// Idioms: for _, d := range X (forward); for i := range X { d := X[len(X)-1-i] } (backward);
// for i := len(X)-1; i >= 0; i-- { X[i] } (backward); for i := 0; i < len(X); i++ { X[i] } (forward).
func loopDirection(st ast.Stmt, info *types.Info) (dir int, over string) {
	switch l := st.(type) {
	case *ast.RangeStmt:
		over = exprKey(l.X)
		if l.Value != nil && exprKey(l.Value) != "_" {
			return +1, over
		}
		if l.Key == nil {
			return 0, over
		}
		k := exprKey(l.Key)
		fw, bw := 0, 0
		ast.Inspect(l.Body, func(x ast.Node) bool {
			if ix, ok := x.(*ast.IndexExpr); ok && exprKey(ix.X) == over {
				switch exprKey(ix.Index) {
				case k:
					fw++
				case "len(" + over + ") - 1 - " + k, "len(" + over + ") - " + k + " - 1":
					bw++
				default:
					fw, bw = 99, 99
				}
			}
			return true
		})
		switch {
		case fw > 0 && bw == 0:
			return +1, over
		case bw > 0 && fw == 0:
			return -1, over
		}
		return 0, over
	case *ast.ForStmt:
		inc, ok := l.Post.(*ast.IncDecStmt)
		if !ok {
			return 0, ""
		}
		k := exprKey(inc.X)
		ast.Inspect(l.Body, func(x ast.Node) bool {
			if ix, ok := x.(*ast.IndexExpr); ok && exprKey(ix.Index) == k && over == "" {
				over = exprKey(ix.X)
			}
			return true
		})
		if inc.Tok == token.INC {
			return +1, over
		}
		return -1, over
	}
	return 0, ""
}

// R04k: print directives apply in source order in both backends, autoescaping last. Go: evalPrint's
// loop over the directives runs first-to-last. JavaScript: visitPrint opens the call nest last-to-first
// (so the first directive is innermost), closes it first-to-last, and puts the implicit escapeHtml at
// the tail of the list.
func ruleR04k(c *Ctx) {
	pj, ph := c.pkg("soyjs"), c.pkg("soyhtml")
	fj, fh := c.mustFunc("soyjs", "state.visitPrint"), c.mustFunc("soyhtml", "state.evalPrint")
	if pj == nil || ph == nil || fj == nil || fh == nil {
		return
	}
	// Go: the loop that calls Apply
	nApply := 0
	for _, st := range fh.Body.List {
		if !appliesDirective(c, st) {
			continue
		}
		nApply++
		d, over := loopDirection(st, ph.TypesInfo)
		c.check(d == +1, "R04k", "soyhtml.state.evalPrint applies-directives", st.Pos(), "directives ("+over+") are applied first to last",
			"the renderer does not visibly apply the print directives in source order")
	}
	c.floor("R04k", "directive application loops in evalPrint", 1, nApply)
	// JavaScript: loops before and after the walk of the printed expression
	info := pj.TypesInfo
	walkAt := -1
	for i, st := range fj.Body.List {
		if es, ok := st.(*ast.ExprStmt); ok {
			if call, ok := es.X.(*ast.CallExpr); ok && len(call.Args) == 1 {
				if fv := fieldOf(call.Args[0], info); fv != nil && fv.Name() == "Arg" {
					walkAt = i
				}
			}
		}
	}
	if walkAt < 0 {
		c.fatalf("anchor: visitPrint's walk of the printed expression (node.Arg) not found")
		return
	}
	var list string
	openDir := 0
	nOpen, nClose := 0, 0
	for i, st := range fj.Body.List {
		switch st.(type) {
		case *ast.RangeStmt, *ast.ForStmt:
		default:
			continue
		}
		d, over := loopDirection(st, info)
		emits := false
		ast.Inspect(st, func(x ast.Node) bool {
			if call, ok := x.(*ast.CallExpr); ok {
				if cal := calleeFunc(call, info); cal != nil && cal.Name() == "js" {
					emits = true
				}
			}
			return true
		})
		if !emits {
			continue
		}
		if i < walkAt {
			nOpen++
			list = over
			openDir = d
			c.check(d == -1, "R04k", "soyjs.state.visitPrint opens-calls", st.Pos(), "the call nest is opened last directive first, so the first directive is the innermost call",
				"the call nest is opened first directive first: the first directive becomes the outermost call and is applied last, the reverse of the Go renderer")
		} else if i > walkAt {
			nClose++
			c.check(d != 0 && d == -openDir && (list == "" || over == list), "R04k", "soyjs.state.visitPrint closes-calls", st.Pos(), "the calls are closed innermost first, in the reverse of the order they were opened",
				"the calls are closed in an order that does not match the way they were opened (arguments go to the wrong directive)")
		}
	}
	c.floor("R04k", "opening loops in visitPrint", 1, nOpen)
	c.floor("R04k", "closing loops in visitPrint", 1, nClose)
	// the implicit escapeHtml is appended at the tail
	nEsc := 0
	escScope := &ast.BlockStmt{}
	for _, hd := range c.withHelpers("soyjs", fj, 2) {
		if hd == fj || takesNodeType(c, "soyjs", hd.Body, "PrintNode") {
			escScope.List = append(escScope.List, hd.Body)
		}
	}
	// (an escapeHtml put on the list inside the loop over the print's directives belongs to one directive:
	// that is R04r's concern, not the implicit one)
	var dirLoops []*ast.RangeStmt
	ast.Inspect(escScope, func(x ast.Node) bool {
		if rs, ok := x.(*ast.RangeStmt); ok && rs.Value != nil {
			if id, ok := rs.Value.(*ast.Ident); ok && info.Defs[id] != nil {
				if _, tn, ok := relPkgOfType(info.Defs[id].Type()); ok && tn == "PrintDirectiveNode" {
					dirLoops = append(dirLoops, rs)
				}
			}
		}
		return true
	})
	ast.Inspect(escScope, func(x ast.Node) bool {
		call, ok := x.(*ast.CallExpr)
		if !ok {
			return true
		}
		id, ok := call.Fun.(*ast.Ident)
		if !ok || id.Name != "append" || len(call.Args) < 2 {
			return true
		}
		for _, rs := range dirLoops {
			if rs.Body.Pos() <= call.Pos() && call.End() <= rs.Body.End() {
				return true
			}
		}
		hasLit := func(e ast.Expr) bool {
			found := false
			ast.Inspect(e, func(y ast.Node) bool {
				if bl, ok := y.(*ast.BasicLit); ok && bl.Value == `"escapeHtml"` {
					found = true
				}
				return true
			})
			return found
		}
		switch {
		case hasLit(call.Args[0]), hasLit(call.Args[1]):
			nEsc++
			atTail := !hasLit(call.Args[0])
			// the call opened first is the outermost one
			outermost := (atTail && openDir == -1) || (!atTail && openDir == +1)
			c.check(outermost, "R04k", "soyjs.state.visitPrint implicit-escape-position", call.Pos(), "the implicit escapeHtml is the outermost call: applied to the directives' result, as in the Go renderer",
				"the implicit escapeHtml is not the outermost call of the nest: it is applied before the directives, while the Go renderer escapes their result")
		}
		return true
	})
	c.floor("R04k", "implicit escapeHtml insertions", 1, nEsc)
}

// R04l: the generator records a loop's counter and limit under the loop variable's name and looks them
// up by it, as the Go renderer does (key+"__index"): no scope key is a constant shared by all loops.
func ruleR04l(c *Ctx) {
	p := c.pkg("soyjs")
	if p == nil {
		return
	}
	info := p.TypesInfo
	nkeys, nlook := 0, 0
	for _, fd := range c.allFuncDecls("soyjs") {
		if fd.Recv == nil || len(fd.Recv.List) != 1 || recvTypeName(fd.Recv.List[0].Type) != "scope" {
			continue
		}
		params := map[types.Object]bool{}
		for _, fl := range fd.Type.Params.List {
			for _, nm := range fl.Names {
				params[info.Defs[nm]] = true
			}
		}
		mentionsParam := func(e ast.Expr) bool {
			found := false
			ast.Inspect(e, func(y ast.Node) bool {
				if id, ok := y.(*ast.Ident); ok && params[info.Uses[id]] {
					found = true
				}
				return true
			})
			return found
		}
		self, _ := info.Defs[fd.Name].(*types.Func)
		ast.Inspect(fd.Body, func(x ast.Node) bool {
			switch n := x.(type) {
			case *ast.CompositeLit:
				tv, ok := info.Types[n]
				if !ok {
					return true
				}
				if _, isMap := tv.Type.Underlying().(*types.Map); !isMap {
					return true
				}
				for _, el := range n.Elts {
					kv, ok := el.(*ast.KeyValueExpr)
					if !ok {
						continue
					}
					nkeys++
					c.check(mentionsParam(kv.Key), "R04l", c.declKey("soyjs", fd)+" key "+exprKey(kv.Key), kv.Pos(), "the binding is recorded under the loop variable's name",
						"the scope records "+exprKey(kv.Key)+" under a key that does not name the loop variable: every loop shares it, so index()/isLast() on an outer loop variable read the innermost loop")
				}
			case *ast.CallExpr:
				cal := calleeFunc(n, info)
				if cal == nil || cal == self || cal.Name() != "lookup" || len(n.Args) != 1 {
					return true
				}
				nlook++
				c.check(mentionsParam(n.Args[0]), "R04l", c.declKey("soyjs", fd)+" looks-up "+exprKey(n.Args[0]), n.Pos(), "looked up by the caller's variable name",
					"the scope is searched for the fixed key "+exprKey(n.Args[0])+": the answer is the innermost loop whatever variable the template named")
			}
			return true
		})
	}
	c.floor("R04l", "scope map-literal keys", 3, nkeys)
	c.floor("R04l", "scope look-ups inside scope helpers", 2, nlook)
}

// R04m: the scope methods that add a binding agree on what else they update. If one of them maintains a
// side table (a memo, an index) that the others leave alone, the table goes stale on the others' paths.
func ruleR04m(c *Ctx) {
	p := c.pkg("soyjs")
	if p == nil {
		return
	}
	info := p.TypesInfo
	binders := scopeBinderMethods(c, "soyjs", "scope")
	touched := map[string]map[string]bool{}
	var names []string
	for _, fd := range c.allFuncDecls("soyjs") {
		fn, _ := info.Defs[fd.Name].(*types.Func)
		if fn == nil || !binders[fn] {
			continue
		}
		set := map[string]bool{}
		mark := func(e ast.Expr) {
			for {
				switch x := ast.Unparen(e).(type) {
				case *ast.IndexExpr:
					e = x.X
					continue
				case *ast.SelectorExpr:
					// a numeric counter used to generate fresh names is not state about bindings
					if fv := fieldOf(x, info); fv != nil {
						if b, ok := fv.Type().Underlying().(*types.Basic); ok && b.Info()&types.IsNumeric != 0 {
							return
						}
						set[fv.Name()] = true
					}
				}
				return
			}
		}
		ast.Inspect(fd.Body, func(x ast.Node) bool {
			switch n := x.(type) {
			case *ast.AssignStmt:
				for _, l := range n.Lhs {
					mark(l)
				}
			case *ast.IncDecStmt:
				mark(n.X)
			case *ast.CallExpr:
				if id, ok := n.Fun.(*ast.Ident); ok && (id.Name == "delete" || id.Name == "clear") && len(n.Args) > 0 {
					mark(n.Args[0])
				}
			}
			return true
		})
		k := c.declKey("soyjs", fd)
		touched[k] = set
		names = append(names, k)
	}
	c.floor("R04m", "scope methods that add a binding", 2, len(names))
	union := map[string]bool{}
	for _, s := range touched {
		for f := range s {
			union[f] = true
		}
	}
	for _, k := range names {
		var missing []string
		for _, f := range sortedKeys(union) {
			if !touched[k][f] {
				missing = append(missing, f)
			}
		}
		pos := token.NoPos
		if fd := c.funcDecl("soyjs", k[len("soyjs."):]); fd != nil {
			pos = fd.Pos()
		}
		c.check(len(missing) == 0, "R04m", k+" updates-what-its-siblings-update", pos, "updates the same scope fields as the other binding methods",
			"adds a binding without updating scope field(s) "+joinStrings(missing)+", which another binding method keeps up to date: a table kept beside the frames goes stale when a variable is bound through this method (a shadowed name keeps resolving to the outer variable)")
	}
}

func joinStrings(ss []string) string {
	out := ""
	for i, s := range ss {
		if i > 0 {
			out += ", "
		}
		out += s
	}
	return out
}

// R04n: the generator binds a loop variable around the loop body only. Between the call that binds the
// variable of a {for}/{foreach} (a scope binder handed node.Var) and the matching pop, the only part of the
// loop node that is generated is its Body: the list expression, the range() arguments and {ifempty} belong
// to the enclosing scope (as in the Go renderer and the data-reference check), so they are emitted outside.
func ruleR04n(c *Ctx) {
	p := c.pkg("soyjs")
	if p == nil {
		return
	}
	info := p.TypesInfo
	binders := scopeBinderMethods(c, "soyjs", "scope")
	astPkg := c.pkg("ast")
	nodeIface, _ := astPkg.Types.Scope().Lookup("Node").Type().Underlying().(*types.Interface)
	n := 0
	for _, fd := range c.allFuncDecls("soyjs") {
		// binder calls whose first argument is the loop variable field of a ForNode; each is looked at inside
		// the innermost function body (declaration or literal) that contains it
		type region struct{ from, to token.Pos }
		var regions []region
		var bodies []*ast.BlockStmt
		bodies = append(bodies, fd.Body)
		ast.Inspect(fd.Body, func(x ast.Node) bool {
			if fl, ok := x.(*ast.FuncLit); ok {
				bodies = append(bodies, fl.Body)
			}
			return true
		})
		for _, body := range bodies {
			var pops []token.Pos
			deferredPop := false
			var binds []token.Pos
			ast.Inspect(body, func(x ast.Node) bool {
				if fl, ok := x.(*ast.FuncLit); ok && fl.Body != body {
					return false
				}
				if d, ok := x.(*ast.DeferStmt); ok {
					if cal := calleeFunc(d.Call, info); cal != nil && cal.Name() == "pop" {
						deferredPop = true
					}
					return false
				}
				call, ok := x.(*ast.CallExpr)
				if !ok {
					return true
				}
				cal := calleeFunc(call, info)
				if cal == nil {
					return true
				}
				if cal.Name() == "pop" {
					pops = append(pops, call.Pos())
				}
				if binders[cal] && len(call.Args) > 0 {
					if fv := fieldOf(call.Args[0], info); fv != nil && fv.Name() == "Var" {
						binds = append(binds, call.End())
					}
				}
				return true
			})
			for _, from := range binds {
				rg := region{from, body.End()}
				if !deferredPop {
					for _, pp := range pops {
						if pp > rg.from && pp < rg.to {
							rg.to = pp
						}
					}
				}
				regions = append(regions, rg)
			}
		}
		for ri, rg := range regions {
			n++
			var offending []string
			ast.Inspect(fd.Body, func(x ast.Node) bool {
				call, ok := x.(*ast.CallExpr)
				if !ok || call.Pos() < rg.from || call.Pos() >= rg.to {
					return true
				}
				cal := calleeFunc(call, info)
				if cal == nil || (cal.Name() != "js" && cal.Name() != "jsln" && cal.Name() != "walk") {
					return true
				}
				for _, a := range call.Args {
					tv, ok := info.Types[a]
					if !ok || tv.Type == nil || tv.Value != nil {
						continue
					}
					if !types.Implements(tv.Type, nodeIface) && !types.IsInterface(tv.Type) {
						continue
					}
					if b, isBasic := tv.Type.Underlying().(*types.Basic); isBasic && b.Info()&types.IsString != 0 {
						continue
					}
					if !types.Implements(tv.Type, nodeIface) {
						continue
					}
					if fv := fieldOf(a, info); fv != nil && fv.Name() == "Body" {
						continue
					}
					offending = append(offending, exprKey(a))
				}
				return true
			})
			key := fmt.Sprintf("%s loop-variable-scope#%d", c.declKey("soyjs", fd), ri+1)
			c.check(len(offending) == 0, "R04n", key, rg.from, "only the loop body is generated while the loop variable is bound",
				"while the loop variable is bound the generator also emits "+joinStrings(offending)+": a reference there to an outer variable of the same name resolves to the loop's own variable (the Go renderer evaluates it in the enclosing scope)")
		}
	}
	c.floor("R04n", "loop-variable bindings in the generator", 2, n)
}

// R04o: wherever the generated JavaScript tests a value against null it uses the loose comparison
// (== null / != null), which also holds for undefined: a key absent from the data is undefined in
// JavaScript and the Go renderer treats an absent value like null (isNonnull, ?:, null-safe access).
// A strict comparison (=== null, !== null) tells the two apart in JavaScript only.
func ruleR04o(c *Ctx) {
	p := c.pkg("soyjs")
	if p == nil {
		return
	}
	info := p.TypesInfo
	loose, strict := 0, 0
	for _, fd := range c.allFuncDecls("soyjs") {
		if strings.HasSuffix(c.Fset.Position(fd.Pos()).Filename, "_test.go") {
			continue
		}
		ast.Inspect(fd.Body, func(x ast.Node) bool {
			bl, ok := x.(*ast.BasicLit)
			if !ok || bl.Kind != token.STRING {
				return true
			}
			tv := info.Types[bl]
			if tv.Value == nil || tv.Value.Kind() != constant.String {
				return true
			}
			s := constant.StringVal(tv.Value)
			for i := 0; i+1 < len(s); i++ {
				if (s[i] != '=' && s[i] != '!') || s[i+1] != '=' {
					continue
				}
				j := i + 2
				isStrict := false
				if j < len(s) && s[j] == '=' {
					isStrict = true
					j++
				}
				rest := strings.TrimLeft(s[j:], " ")
				if !strings.HasPrefix(rest, "null") && !strings.HasPrefix(rest, "undefined") {
					continue
				}
				if i > 0 && (s[i-1] == '=' || s[i-1] == '!') {
					continue
				}
				if isStrict {
					strict++
					c.bad("R04o", fmt.Sprintf("%s strict-null-comparison#%d", c.declKey("soyjs", fd), strict), bl.Pos(),
						"the generator emits the strict comparison "+strconv.Quote(s)+": in JavaScript a value absent from the data is undefined and passes a strict test against null, while the Go renderer treats absent and null alike")
				} else {
					loose++
				}
				i = j
			}
			return true
		})
	}
	c.floor("R04o", "loose null comparisons emitted by the generator", 3, loose)
}

// R04q: both backends look messages up in the catalogue the caller gave, as it is. The Go renderer keeps the
// bundle handed to WithMessages itself (no wrapper that answers differently for some entries — the generated
// JavaScript would still use the raw bundle), and every state is given that same value.
func ruleR04q(c *Ctx) {
	p := c.pkg("soyhtml")
	if p == nil {
		return
	}
	info := p.TypesInfo
	isBundle := func(t types.Type) bool {
		_, tn, ok := relPkgOfType(t)
		return ok && tn == "Bundle"
	}
	n := 0
	for _, fd := range c.allFuncDecls("soyhtml") {
		bundleParams := map[types.Object]bool{}
		for _, fl := range fd.Type.Params.List {
			for _, nm := range fl.Names {
				if o := info.Defs[nm]; o != nil && isBundle(o.Type()) {
					bundleParams[o] = true
				}
			}
		}
		ord := 0
		check := func(lhs string, rhs ast.Expr, pos token.Pos) {
			n++
			ord++
			r := ast.Unparen(rhs)
			good := false
			if id, ok := r.(*ast.Ident); ok && (bundleParams[info.Uses[id]] || id.Name == "nil") {
				good = true
			}
			if fv := fieldOf(r, info); fv != nil && isBundle(fv.Type()) {
				good = true // handed on from the renderer / the calling state
			}
			c.check(good, "R04q", fmt.Sprintf("%s message-bundle#%d", c.declKey("soyhtml", fd), ord), pos,
				"the catalogue is kept and handed on as the caller gave it",
				lhs+" is given "+exprKey(rhs)+", not the caller's catalogue itself: the Go renderer then answers message look-ups differently from the generated JavaScript, which uses the catalogue as given")
		}
		ast.Inspect(fd.Body, func(x ast.Node) bool {
			switch s := x.(type) {
			case *ast.AssignStmt:
				if len(s.Lhs) == len(s.Rhs) {
					for i, l := range s.Lhs {
						if fv := fieldOf(l, info); fv != nil && isBundle(fv.Type()) {
							check(exprKey(l), s.Rhs[i], s.Pos())
						}
					}
				}
			case *ast.KeyValueExpr:
				if id, ok := s.Key.(*ast.Ident); ok {
					if fv, ok := info.Uses[id].(*types.Var); ok && fv.IsField() && isBundle(fv.Type()) {
						check(id.Name, s.Value, s.Pos())
					}
				}
			}
			return true
		})
	}
	c.floor("R04q", "places where the renderer stores or hands on the message bundle", 3, n)
}

// appliesDirective: the statement calls a print directive's Apply field, itself or through a helper of
// soyhtml that is handed the directive (applyDirective(node, directive, value, args) and the like).
func appliesDirective(c *Ctx, st ast.Node) bool {
	p := c.pkg("soyhtml")
	if p == nil {
		return false
	}
	info := p.TypesInfo
	hasApply := func(n ast.Node) bool {
		found := false
		ast.Inspect(n, func(x ast.Node) bool {
			if se, ok := x.(*ast.SelectorExpr); ok && se.Sel.Name == "Apply" {
				found = true
			}
			return true
		})
		return found
	}
	if hasApply(st) {
		return true
	}
	byFunc := map[*types.Func]*ast.FuncDecl{}
	for _, d := range c.allFuncDecls("soyhtml") {
		if fn, ok := info.Defs[d.Name].(*types.Func); ok {
			byFunc[fn] = d
		}
	}
	applies := false
	ast.Inspect(st, func(x ast.Node) bool {
		call, ok := x.(*ast.CallExpr)
		if !ok {
			return true
		}
		d := byFunc[calleeFunc(call, info)]
		if d == nil || d.Body == nil {
			return true
		}
		for _, a := range call.Args {
			if tv, ok := info.Types[a]; ok {
				if _, tn, ok := relPkgOfType(tv.Type); ok && tn == "PrintDirective" && hasApply(d.Body) {
					applies = true
				}
			}
		}
		return true
	})
	return applies
}
