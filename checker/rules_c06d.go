package main

import (
	"fmt"
	"go/ast"
	"go/constant"
	"go/token"
	"go/types"
	"sort"
	"strings"

	"golang.org/x/tools/go/ssa"
)

// loopExceptions: non-range loops on the render path that are not counted loops, one reason each.
var loopExceptions = map[string]string{
	"soyhtml.directiveTruncate#for1": "walks back to a rune start: maxLen decreases every iteration and str[maxLen] faults (recovered by the directive wrapper) before it can go below zero",
}

// declOfSSA maps an SSA function to its declaration.
func (c *Ctx) declOfSSA(f *ssa.Function) (string, *ast.FuncDecl) {
	obj, ok := f.Object().(*types.Func)
	if !ok || obj.Pkg() == nil {
		return "", nil
	}
	rel, ok := relOf(obj.Pkg())
	if !ok {
		return "", nil
	}
	for _, d := range c.allFuncDecls(rel) {
		if c.Pkgs[rel].TypesInfo.Defs[d.Name] == obj {
			return rel, d
		}
	}
	return "", nil
}

// stepSign classifies how a loop updates variable v: +1 (only increases by positive constants),
// -1, or 0 (unknown / variable step), with the step expression when it is a variable.
func stepSign(loop *ast.ForStmt, v types.Object, info *types.Info) (sign int, varStep ast.Expr, ok bool) {
	sign = 0
	ok = true
	upd := func(s int, step ast.Expr) {
		if step != nil {
			varStep = step
			return
		}
		if sign == 0 {
			sign = s
		} else if sign != s {
			ok = false
		}
	}
	visit := func(n ast.Node) bool {
		switch s := n.(type) {
		case *ast.FuncLit:
			return false
		case *ast.IncDecStmt:
			if id, isID := ast.Unparen(s.X).(*ast.Ident); isID && info.Uses[id] == v {
				if s.Tok == token.INC {
					upd(1, nil)
				} else {
					upd(-1, nil)
				}
			}
		case *ast.AssignStmt:
			for i, l := range s.Lhs {
				id, isID := ast.Unparen(l).(*ast.Ident)
				if !isID || (info.Uses[id] != v && info.Defs[id] != v) {
					continue
				}
				if (s.Tok == token.ADD_ASSIGN || s.Tok == token.SUB_ASSIGN) && len(s.Rhs) == 1 {
					neg := s.Tok == token.SUB_ASSIGN
					if tv, has := info.Types[s.Rhs[0]]; has && tv.Value != nil && tv.Value.Kind() == constant.Int {
						sg := constant.Sign(tv.Value)
						if neg {
							sg = -sg
						}
						if sg == 0 {
							ok = false
						} else {
							upd(sg, nil)
						}
					} else {
						upd(0, s.Rhs[0])
					}
					continue
				}
				_ = i
				ok = false // any other assignment to the loop variable
			}
		}
		return true
	}
	if loop.Post != nil {
		ast.Inspect(loop.Post, visit)
	}
	ast.Inspect(loop.Body, visit)
	return
}

// R06d: every non-range loop reachable from a render entry is a counted loop whose step has a known sign.
func ruleR06d(c *Ctx) {
	specs := []entrySpec{{"soyhtml", "(Renderer).Execute"}, {"soyhtml", "(Tofu).Render"}, {"soyhtml", "EvalExpr"}, {"", "ParseGlobals"}}
	// parse's loops are C05's subject
	ruleCountedLoops(c, "R06d", specs, func(rel string) bool { return rel != "parse" }, nil, 5, "non-range loops on the render path", "on the render path")
}

// R05l: the parser's and scanner's loops that read no input (R05a/R05b decide the ones that do) are counted
// loops whose step has a known sign, or one of the recognised bounded idioms. A loop that rewrites a string
// until a table lookup misses (expanding an alias through the alias table) has nothing that gets smaller.
func ruleR05l(c *Ctx) {
	pf := getParseFacts(c)
	if pf == nil {
		return
	}
	reads := map[*ast.ForStmt]bool{}
	for _, ls := range readingLoops(c, pf, newEvaluator(c, lexEOF{pf}), pf.lexerTypes) {
		reads[ls.loop] = true
	}
	if k := pf.itemConsts["itemEOF"]; k != nil {
		for _, ls := range readingLoops(c, pf, newEvaluator(c, tokEnd{pf, k}), pf.treeTypes) {
			reads[ls.loop] = true
		}
	}
	specs := []entrySpec{{"parse", "SoyFile"}, {"parse", "Expr"}}
	ruleCountedLoops(c, "R05l", specs, func(rel string) bool { return rel == "parse" }, func(loop *ast.ForStmt) bool { return reads[loop] }, 3, "loops of the parser that read no input", "in the parser")
}

// ruleCountedLoops: every non-range loop of the wanted packages that is reachable from the entries (and not
// skipped) is a counted loop whose step has a known sign, or a recognised bounded idiom.
func ruleCountedLoops(c *Ctx, rule string, specs []entrySpec, wantRel func(string) bool, skip func(*ast.ForStmt) bool, floor int, floorWhat, where string) {
	c.buildSSA()
	entries := c.entryFuncs(specs)
	if len(entries) != len(specs) {
		return
	}
	reach := reachFrom(c.VTA(), entries, true)
	nr := newNoRet(c)
	var fns []*ssa.Function
	for f := range reach {
		if isSoyFunc(f) && f.Blocks != nil && f.Parent() == nil {
			fns = append(fns, f)
		}
	}
	sort.Slice(fns, func(i, j int) bool { return fns[i].String() < fns[j].String() })
	n := 0
	for _, f := range fns {
		rel, fd := c.declOfSSA(f)
		if fd == nil || !wantRel(rel) {
			continue
		}
		info := c.Pkgs[rel].TypesInfo
		ord := 0
		// facts at each loop (for sign guards)
		loopFacts := map[*ast.ForStmt]factSet{}
		guardWalkStmts2(fd.Body, nr.forInfo(info), func(s ast.Stmt, facts factSet) {
			if fs, ok := s.(*ast.ForStmt); ok {
				loopFacts[fs] = facts
			}
		})
		ast.Inspect(fd.Body, func(x ast.Node) bool {
			loop, ok := x.(*ast.ForStmt)
			if !ok {
				return true
			}
			ord++
			if skip != nil && skip(loop) {
				return true
			}
			n++
			key := fmt.Sprintf("%s#for%d", c.declKey(rel, fd), ord)
			c.seen(c.declKey(rel, fd))
			if why, ok := loopExceptions[key]; ok {
				c.ok(rule, key, loop.Pos(), "named exception: "+why)
				return true
			}
			// the same loops, recognised by what they do (so that they may be renamed, moved into a helper or
			// restyled): a work queue over the finite tree, the unwrapping of a pointer chain, a scanner loop
			if why := boundedLoopIdiom(loop, info); why != "" {
				c.ok(rule, key, loop.Pos(), "bounded by construction: "+why)
				return true
			}
			if loop.Cond == nil {
				c.bad(rule, key, loop.Pos(), "unconditional loop "+where+": its bound depends on run-time data and cannot be established")
				return true
			}
			// condition: v < X, v <= X, v > X, v >= X, X > v ...
			be, ok := ast.Unparen(loop.Cond).(*ast.BinaryExpr)
			if !ok {
				c.bad(rule, key, loop.Pos(), "loop condition "+exprKey(loop.Cond)+" is not a comparison of a counter with a bound")
				return true
			}
			var v types.Object
			dir := 0 // +1: continues while v is below the bound
			if id, isID := ast.Unparen(be.X).(*ast.Ident); isID {
				v = info.Uses[id]
				switch be.Op {
				case token.LSS, token.LEQ:
					dir = 1
				case token.GTR, token.GEQ:
					dir = -1
				}
			}
			if v == nil || dir == 0 {
				if id, isID := ast.Unparen(be.Y).(*ast.Ident); isID {
					v = info.Uses[id]
					switch be.Op {
					case token.GTR, token.GEQ:
						dir = 1
					case token.LSS, token.LEQ:
						dir = -1
					}
				}
			}
			if v == nil || dir == 0 {
				c.bad(rule, key, loop.Pos(), "loop condition "+exprKey(loop.Cond)+" does not compare a counter variable with a bound")
				return true
			}
			sign, varStep, okStep := stepSign(loop, v, info)
			switch {
			case !okStep:
				c.bad(rule, key, loop.Pos(), "the counter "+v.Name()+" is assigned in ways other than a fixed-sign step")
			case varStep != nil:
				need := exprKey(varStep)
				facts := loopFacts[loop]
				guard := "0 < " + need
				if dir < 0 {
					guard = need + " < 0"
				}
				if facts[guard] || (dir > 0 && facts["1 <= "+need]) {
					c.ok(rule, key, loop.Pos(), "variable step "+need+" with a dominating sign guard ("+guard+")")
				} else {
					c.bad(rule, key, loop.Pos(), "the step "+need+" is run-time data and nothing establishes its sign: with a zero or wrong-signed step the loop never ends and memory grows without bound")
				}
			case sign == dir:
				c.ok(rule, key, loop.Pos(), fmt.Sprintf("counted loop: %s moves by a constant of sign %+d towards its bound", v.Name(), sign))
			default:
				c.bad(rule, key, loop.Pos(), "the counter "+v.Name()+" does not move towards the bound in "+exprKey(loop.Cond))
			}
			return true
		})
	}
	c.floor(rule, floorWhat, floor, n)
}

// guardWalkStmts2 visits statements with comparison/nil facts (guardWalk's facts, statement level).
func guardWalkStmts2(body *ast.BlockStmt, noret noReturnFunc, visit func(s ast.Stmt, facts factSet)) {
	var walk func(list []ast.Stmt, facts factSet)
	walk = func(list []ast.Stmt, facts factSet) {
		for _, s := range list {
			visit(s, facts)
			switch s := s.(type) {
			case *ast.IfStmt:
				pos, neg := condFacts(s.Cond)
				walk(s.Body.List, facts.with(pos...))
				if els, ok := s.Else.(*ast.BlockStmt); ok {
					walk(els.List, facts.with(neg...))
				}
				if terminates(s.Body.List, noret) {
					facts = facts.with(neg...)
				}
			case *ast.ForStmt:
				walk(s.Body.List, facts)
			case *ast.RangeStmt:
				walk(s.Body.List, facts)
			case *ast.BlockStmt:
				walk(s.List, facts)
			case *ast.SwitchStmt:
				for _, cs := range s.Body.List {
					walk(cs.(*ast.CaseClause).Body, facts)
				}
			case *ast.TypeSwitchStmt:
				for _, cs := range s.Body.List {
					walk(cs.(*ast.CaseClause).Body, facts)
				}
			}
		}
	}
	walk(body.List, factSet{})
}

// raiseExceptions: explicit raising constructs that run outside any recover, one reason each.
var raiseExceptions = map[string]string{
	// keyed by package and the raise's constant message (or the asserted expression), not by the function
	// that happens to contain it: extracting a helper does not move an exception
	"data single-value type assertion v.Interface().(time.Time)": "dominated by the test v.Type() == timeType on the preceding line, so the assertion cannot fail",
	"data panic \"map keys must be strings\"":                    "the property's quantifier ranges over JSON-like values, whose maps are string-keyed",
	"data panic \"unexpected data type: %T (%v)\"":               "reached only for channels, functions, complex numbers and the like, which are not JSON-like values",
	"soyhtml panic \"impossible\"":                               "every scope built by Execute/evalCall has an entered frame (R02c checks that each state is given an enter()ed scope); alldata is only called on such a scope",
}

// R06e: explicit raising constructs that can run before (outside) the entry's recover.
func ruleR06e(c *Ctx) {
	c.buildSSA()
	p := c.pkg("soyhtml")
	if p == nil {
		return
	}
	cg := c.VTA()
	handlers := recoverHandlers(c, "soyhtml")
	nr := newNoRet(c)
	// unprotected call sites: calls made by exported entries before they defer the handler, and calls made by
	// exported functions that never install one.
	type root struct {
		fn   *ssa.Function
		from string
	}
	var roots []root
	addCalls := func(rel string, fd *ast.FuncDecl, onlyBeforeDefer bool) {
		info := c.Pkgs[rel].TypesInfo
		deferPos := token.Pos(1 << 40)
		if onlyBeforeDefer {
			ast.Inspect(fd.Body, func(x ast.Node) bool {
				if d, ok := x.(*ast.DeferStmt); ok {
					if cal := calleeFunc(d.Call, info); cal != nil && handlers[cal] && d.Pos() < deferPos {
						deferPos = d.Pos()
					}
				}
				return true
			})
		}
		// the entry's own statements that run before the handler is installed
		ordOwn := 0
		ast.Inspect(fd.Body, func(x ast.Node) bool {
			if _, ok := x.(*ast.FuncLit); ok {
				return false
			}
			if call, ok := x.(*ast.CallExpr); ok && call.Pos() < deferPos && nr.callNoReturn(call, info) {
				ordOwn++
				c.bad("R06e", fmt.Sprintf("%s own-panic#%d", c.declKey(rel, fd), ordOwn), call.Pos(), "the entry itself raises before/without installing its recover handler: the panic reaches the caller")
			}
			return true
		})
		ast.Inspect(fd.Body, func(x ast.Node) bool {
			call, ok := x.(*ast.CallExpr)
			if !ok || call.Pos() >= deferPos {
				return true
			}
			cal := calleeFunc(call, info)
			if cal == nil || cal.Pkg() == nil || !isSoyPkg(cal.Pkg()) {
				return true
			}
			rel2, _ := relOf(cal.Pkg())
			name := cal.Name()
			if sig := cal.Type().(*types.Signature); sig.Recv() != nil {
				rt := sig.Recv().Type()
				ptr := ""
				if pt, ok := rt.(*types.Pointer); ok {
					rt = pt.Elem()
					ptr = "*"
				}
				name = "(" + ptr + rt.(*types.Named).Obj().Name() + ")." + name
			}
			if f := c.ssaFunc(rel2, name); f != nil {
				roots = append(roots, root{f, c.declKey(rel, fd)})
			}
			return true
		})
	}
	protectedEntry := map[*types.Func]bool{}
	for _, fd := range c.allFuncDecls("soyhtml") {
		fn := p.TypesInfo.Defs[fd.Name].(*types.Func)
		ast.Inspect(fd.Body, func(x ast.Node) bool {
			if d, ok := x.(*ast.DeferStmt); ok {
				if cal := calleeFunc(d.Call, p.TypesInfo); cal != nil && handlers[cal] {
					protectedEntry[fn] = true
				}
			}
			return true
		})
	}
	for _, fd := range c.allFuncDecls("soyhtml") {
		fn := p.TypesInfo.Defs[fd.Name].(*types.Func)
		if !fd.Name.IsExported() {
			continue
		}
		if fd.Recv != nil && !ast.IsExported(recvTypeName(fd.Recv.List[0].Type)) {
			continue
		}
		addCalls("soyhtml", fd, protectedEntry[fn])
	}
	if fd := c.funcDecl("", "ParseGlobals"); fd != nil {
		addCalls("", fd, false)
	} else {
		c.fatalf("anchor: soy.ParseGlobals not found")
	}
	// closure of the unprotected roots, not entering protected entries or parse (C05's subject)
	seen := map[*ssa.Function]string{}
	var work []root
	for _, r := range roots {
		if o, ok := r.fn.Object().(*types.Func); ok && protectedEntry[o] {
			continue
		}
		if _, ok := seen[r.fn]; !ok {
			seen[r.fn] = r.from
			work = append(work, r)
		}
	}
	for len(work) > 0 {
		r := work[len(work)-1]
		work = work[:len(work)-1]
		if n := cg.Nodes[r.fn]; n != nil {
			for _, e := range n.Out {
				g := e.Callee.Func
				if g == nil || !isSoyFunc(g) {
					continue
				}
				if o, ok := g.Object().(*types.Func); ok && (protectedEntry[o] || (o.Pkg() != nil && strings.HasSuffix(o.Pkg().Path(), "/parse"))) {
					continue
				}
				if _, ok := seen[g]; !ok {
					seen[g] = r.from
					work = append(work, root{g, r.from})
				}
			}
		}
	}
	var fns []*ssa.Function
	for f := range seen {
		fns = append(fns, f)
	}
	sort.Slice(fns, func(i, j int) bool { return fns[i].String() < fns[j].String() })
	nfun := 0
	for _, f := range fns {
		rel, fd := c.declOfSSA(f)
		if fd == nil {
			continue
		}
		nfun++
		info := c.Pkgs[rel].TypesInfo
		c.seen(c.declKey(rel, fd))
		ordP := 0
		found := false
		ast.Inspect(fd.Body, func(x ast.Node) bool {
			if _, ok := x.(*ast.FuncLit); ok {
				return false
			}
			call, ok := x.(*ast.CallExpr)
			if !ok || !nr.callNoReturn(call, info) {
				return true
			}
			ordP++
			found = true
			key := fmt.Sprintf("%s panic#%d", c.declKey(rel, fd), ordP)
			// the raise's constant message identifies it wherever it is moved within the package
			msg := ""
			ast.Inspect(call, func(y ast.Node) bool {
				if e, ok := y.(ast.Expr); ok && msg == "" {
					if tv, ok := info.Types[e]; ok && tv.Value != nil && tv.Value.Kind() == constant.String {
						msg = constant.StringVal(tv.Value)
					}
				}
				return true
			})
			if msg != "" {
				key = fmt.Sprintf("%s panic %q", rel, msg)
			}
			if why, ok := raiseExceptions[key]; ok {
				c.ok("R06e", key, call.Pos(), "named exception: "+why)
			} else {
				c.bad("R06e", key, call.Pos(), "raises outside any recover: called from "+seen[f]+" before/without the render's recover handler, so the panic reaches the caller")
			}
			return true
		})
		for _, ft := range unguardedFaults(fd.Body, info, nr.forInfo(info), false) {
			if ft.kind != "type-assert" {
				continue
			}
			found = true
			if why, ok := raiseExceptions[rel+" "+ft.what]; ok {
				c.ok("R06e", rel+" "+ft.what, ft.pos, "named exception: "+why)
				continue
			}
			c.bad("R06e", c.declKey(rel, fd)+" "+ft.what, ft.pos, "unchecked type assertion outside any recover (reached from "+seen[f]+")")
		}
		if !found {
			c.okTrivial("R06e", c.declKey(rel, fd)+"#no-explicit-raise", fd.Pos(), "runs outside the recover but contains no panic call and no single-value type assertion")
		}
	}
	c.floor("R06e", "functions that run outside the entry's recover", 5, nfun)
}

// R06f: caller-supplied callbacks run under a recover.
func ruleR06f(c *Ctx) {
	p := c.pkg("soyhtml")
	if p == nil {
		return
	}
	info := p.TypesInfo
	n := 0
	for _, fd := range c.allFuncDecls("soyhtml") {
		ord := 0
		// function bodies (decl or literal) that defer a recover
		var visit func(body *ast.BlockStmt, protected bool)
		visit = func(body *ast.BlockStmt, protected bool) {
			// deferred recovers of this function body (not of nested literals), by position
			var recoverAt []token.Pos
			ast.Inspect(body, func(x ast.Node) bool {
				switch x := x.(type) {
				case *ast.FuncLit:
					return false
				case *ast.DeferStmt:
					ast.Inspect(x, func(y ast.Node) bool {
						if call, ok := y.(*ast.CallExpr); ok {
							if id, ok := call.Fun.(*ast.Ident); ok && id.Name == "recover" {
								recoverAt = append(recoverAt, x.Pos())
							}
						}
						return true
					})
					return false
				}
				return true
			})
			ast.Inspect(body, func(x ast.Node) bool {
				prot := protected
				if x != nil {
					for _, p := range recoverAt {
						if p < x.Pos() {
							prot = true
						}
					}
				}
				switch x := x.(type) {
				case *ast.DeferStmt:
					return false
				case *ast.FuncLit:
					visit(x.Body, prot)
					return false
				case *ast.CallExpr:
					se, ok := ast.Unparen(x.Fun).(*ast.SelectorExpr)
					if !ok {
						return true
					}
					sel, ok := info.Selections[se]
					if !ok || sel.Kind() != types.FieldVal {
						return true
					}
					if _, ok := sel.Type().Underlying().(*types.Signature); !ok {
						return true
					}
					// a call through a function-typed field of an exported struct (Func.Apply, PrintDirective.Apply)
					ord++
					n++
					key := fmt.Sprintf("%s calls %s#%d", c.declKey("soyhtml", fd), exprKey(se), ord)
					c.check(prot, "R06f", key, x.Pos(), "the callback is invoked inside a function that defers a recover", "a caller-supplied callback is invoked with no local recover: its panic is reported against the wrong command or escapes")
				}
				return true
			})
		}
		visit(fd.Body, false)
	}
	c.floor("R06f", "callback invocations", 2, n)
}

// boundedLoopIdiom recognises three loops that are bounded by the data they consume rather than by a counter.
func boundedLoopIdiom(loop *ast.ForStmt, info *types.Info) string {
	if loop.Cond == nil {
		// for { i := strings.Index..(X, ..); if i < 0 { break }; ...; X = X[i+K:] } with K >= 1: X gets shorter every time round
		if loop.Init == nil && loop.Post == nil && len(loop.Body.List) >= 3 {
			var idx, x string
			if as, ok := loop.Body.List[0].(*ast.AssignStmt); ok && len(as.Lhs) == 1 && len(as.Rhs) == 1 {
				idx = exprKey(as.Lhs[0])
				if call, ok := ast.Unparen(as.Rhs[0]).(*ast.CallExpr); ok && len(call.Args) >= 1 {
					if cal := calleeFunc(call, info); cal != nil && cal.Pkg() != nil && cal.Pkg().Path() == "strings" && strings.HasPrefix(cal.Name(), "Index") {
						x = exprKey(call.Args[0])
					}
				}
			} else if ds, ok := loop.Body.List[0].(*ast.DeclStmt); ok {
				if gd, ok := ds.Decl.(*ast.GenDecl); ok && len(gd.Specs) == 1 {
					if vs, ok := gd.Specs[0].(*ast.ValueSpec); ok && len(vs.Names) == 1 && len(vs.Values) == 1 {
						idx = vs.Names[0].Name
						if call, ok := ast.Unparen(vs.Values[0]).(*ast.CallExpr); ok && len(call.Args) >= 1 {
							if cal := calleeFunc(call, info); cal != nil && cal.Pkg() != nil && cal.Pkg().Path() == "strings" && strings.HasPrefix(cal.Name(), "Index") {
								x = exprKey(call.Args[0])
							}
						}
					}
				}
			}
			leaves := false
			if ifs, ok := loop.Body.List[1].(*ast.IfStmt); ok && len(ifs.Body.List) == 1 {
				if br, ok := ifs.Body.List[0].(*ast.BranchStmt); ok && br.Tok == token.BREAK {
					if k := exprKey(ifs.Cond); k == idx+" < 0" || k == idx+" == -1" {
						leaves = true
					}
				}
			}
			if x != "" && leaves {
				if as, ok := loop.Body.List[len(loop.Body.List)-1].(*ast.AssignStmt); ok && len(as.Lhs) == 1 && len(as.Rhs) == 1 && exprKey(as.Lhs[0]) == x {
					if se, ok := ast.Unparen(as.Rhs[0]).(*ast.SliceExpr); ok && exprKey(se.X) == x && se.High == nil && se.Low != nil {
						if lb, ok := ast.Unparen(se.Low).(*ast.BinaryExpr); ok && lb.Op == token.ADD && exprKey(lb.X) == idx {
							if tv, ok := info.Types[lb.Y]; ok && tv.Value != nil && tv.Value.Kind() == constant.Int && constant.Sign(tv.Value) > 0 {
								return "search-and-cut loop: left when the search finds nothing, and otherwise " + x + " is cut after the position found, so it gets shorter every time round"
							}
						}
					}
				}
			}
		}
		return ""
	}
	cond := exprKey(loop.Cond)
	// for len(Q) > 0 { x := Q[0]; Q = Q[1:]; ...append(Q, children...) }
	if be, ok := ast.Unparen(loop.Cond).(*ast.BinaryExpr); ok && be.Op == token.GTR && exprKey(be.Y) == "0" {
		if call, ok := ast.Unparen(be.X).(*ast.CallExpr); ok && len(call.Args) == 1 {
			if id, ok := call.Fun.(*ast.Ident); ok && id.Name == "len" {
				q := exprKey(call.Args[0])
				pops := false
				ast.Inspect(loop.Body, func(x ast.Node) bool {
					if as, ok := x.(*ast.AssignStmt); ok {
						for i, l := range as.Lhs {
							if exprKey(l) == q && i < len(as.Rhs) && exprKey(as.Rhs[i]) == q+"[1:]" {
								pops = true
							}
						}
					}
					return true
				})
				if pops {
					return "work queue over the finite parse tree: every iteration removes the head of " + q + " and adds only that node's children"
				}
			}
		}
	}
	// for v.Kind() == reflect.Ptr || v.Kind() == reflect.Interface { v = v.Elem() }
	if strings.Contains(cond, ".Kind() == reflect.Ptr") || strings.Contains(cond, ".Kind() == reflect.Interface") {
		elem := false
		ast.Inspect(loop.Body, func(x ast.Node) bool {
			if call, ok := x.(*ast.CallExpr); ok {
				if se, ok := call.Fun.(*ast.SelectorExpr); ok && se.Sel.Name == "Elem" {
					elem = true
				}
			}
			return true
		})
		if elem {
			return "unwraps the pointer/interface chain of the caller's value, which is finite (and acyclic for JSON-like data)"
		}
	}
	// for X != nil { X = X(arg) }: the driver of a state machine (the scanner's; R05f decides that it reaches nil)
	if be, ok := ast.Unparen(loop.Cond).(*ast.BinaryExpr); ok && be.Op == token.NEQ && exprKey(be.Y) == "nil" && len(loop.Body.List) == 1 {
		if tv, ok := info.Types[be.X]; ok {
			if _, isFunc := tv.Type.Underlying().(*types.Signature); isFunc {
				if as, ok := loop.Body.List[0].(*ast.AssignStmt); ok && len(as.Lhs) == 1 && len(as.Rhs) == 1 && exprKey(as.Lhs[0]) == exprKey(be.X) {
					if call, ok := ast.Unparen(as.Rhs[0]).(*ast.CallExpr); ok && exprKey(call.Fun) == exprKey(be.X) {
						return "driver of a state machine: each iteration runs the current state function and ends when one returns nil (R05f: at end of input the states reach nil)"
					}
				}
			}
		}
	}
	// for len(X) > 0 { ...; X = X[e:] }: consumes the text it loops over
	if be, ok := ast.Unparen(loop.Cond).(*ast.BinaryExpr); ok && be.Op == token.GTR && exprKey(be.Y) == "0" && len(loop.Body.List) > 0 {
		if call, ok := ast.Unparen(be.X).(*ast.CallExpr); ok && len(call.Args) == 1 {
			if id, ok := call.Fun.(*ast.Ident); ok && id.Name == "len" {
				q := exprKey(call.Args[0])
				if as, ok := loop.Body.List[len(loop.Body.List)-1].(*ast.AssignStmt); ok && len(as.Lhs) == 1 && len(as.Rhs) == 1 && exprKey(as.Lhs[0]) == q {
					if se, ok := ast.Unparen(as.Rhs[0]).(*ast.SliceExpr); ok && exprKey(se.X) == q && se.Low != nil && se.High == nil {
						return "consumes the text it loops over: every iteration ends by cutting " + q + " to " + exprKey(as.Rhs[0]) + " (that the cut is not empty is not decided here)"
					}
				}
			}
		}
	}
	// for i < len(s) { r, size := utf8.DecodeRune..(s[i:]); i += size }: advances by the width of a character
	if be, ok := ast.Unparen(loop.Cond).(*ast.BinaryExpr); ok && be.Op == token.LSS && loop.Post == nil {
		iv := exprKey(be.X)
		var width string
		ast.Inspect(loop.Body, func(x ast.Node) bool {
			if as, ok := x.(*ast.AssignStmt); ok && len(as.Rhs) == 1 && len(as.Lhs) == 2 {
				if call, ok := ast.Unparen(as.Rhs[0]).(*ast.CallExpr); ok {
					if cal := calleeFunc(call, info); cal != nil && cal.Pkg() != nil && cal.Pkg().Path() == "unicode/utf8" && strings.HasPrefix(cal.Name(), "DecodeRune") && len(call.Args) == 1 {
						if se, ok := ast.Unparen(call.Args[0]).(*ast.SliceExpr); ok && se.Low != nil && exprKey(se.Low) == iv {
							width = exprKey(as.Lhs[1])
						}
					}
				}
			}
			return true
		})
		if width != "" {
			steps := false
			for _, st := range loop.Body.List {
				if as, ok := st.(*ast.AssignStmt); ok && as.Tok == token.ADD_ASSIGN && len(as.Lhs) == 1 && exprKey(as.Lhs[0]) == iv && exprKey(as.Rhs[0]) == width {
					steps = true
				}
			}
			if steps {
				return "advances " + iv + " by the width of the character decoded at " + iv + " on every iteration (at least 1 while " + iv + " is inside the text)"
			}
		}
	}
	// for scanner.Scan() { ... }
	if call, ok := ast.Unparen(loop.Cond).(*ast.CallExpr); ok {
		if cal := calleeFunc(call, info); cal != nil && cal.FullName() == "(*bufio.Scanner).Scan" {
			return "bufio.Scanner over the caller's finite reader: Scan returns false at end of input or on error"
		}
	}
	return ""
}

// R06g: the value methods of package data do not call each other in a cycle. Such a cycle (Int.Equals handing
// a Float to Float.Equals, which hands the Int back) has nothing that gets smaller: it recurses until the
// goroutine stack overflows, which no recover can catch. Containers recurse into their elements through the
// Value interface (a dynamic call on a smaller value), which is not a static cycle and is not reported.
func ruleR06g(c *Ctx) {
	c.buildSSA()
	pkg := c.SSA["data"]
	if pkg == nil {
		c.fatalf("anchor: package data not loaded")
		return
	}
	fns := allPkgFunctions(c, pkg)
	edges := map[*ssa.Function][]*ssa.Function{}
	inPkg := map[*ssa.Function]bool{}
	for _, f := range fns {
		inPkg[f] = true
	}
	for _, f := range fns {
		for _, b := range f.Blocks {
			for _, in := range b.Instrs {
				if ci, ok := in.(ssa.CallInstruction); ok {
					if sc := ci.Common().StaticCallee(); sc != nil && inPkg[sc] {
						edges[f] = append(edges[f], sc)
					}
				}
			}
		}
	}
	// cycles by DFS
	state := map[*ssa.Function]int{}
	var stack []*ssa.Function
	reported := map[string]bool{}
	var dfs func(f *ssa.Function)
	dfs = func(f *ssa.Function) {
		state[f] = 1
		stack = append(stack, f)
		for _, g := range edges[f] {
			switch state[g] {
			case 0:
				dfs(g)
			case 1:
				// cycle: from g's position in the stack to the top
				var names []string
				started := false
				for _, s := range stack {
					if s == g {
						started = true
					}
					if started {
						names = append(names, strings.ReplaceAll(s.String(), modPath+"/", ""))
					}
				}
				// conversion and container code recurses on the parts of a value (bounded by the value); a cycle made
				// only of methods of scalar value types has nothing that gets smaller
				scalarOnly := true
				started = false
				for _, s := range stack {
					if s == g {
						started = true
					}
					if !started {
						continue
					}
					recv := s.Signature.Recv()
					if recv == nil {
						scalarOnly = false
						continue
					}
					switch u := recv.Type().Underlying().(type) {
					case *types.Basic:
					case *types.Struct:
						if u.NumFields() != 0 {
							scalarOnly = false
						}
					default:
						scalarOnly = false
					}
				}
				if !scalarOnly {
					continue
				}
				sort.Strings(names)
				key := strings.Join(names, " <-> ")
				if !reported[key] {
					reported[key] = true
					c.bad("R06g", "data static-call-cycle "+key, g.Pos(), "these functions of package data call each other in a cycle through static calls with nothing that decreases: for some operands (an Int compared with a fractional Float) the recursion never ends and the process dies of stack overflow")
				}
			}
		}
		stack = stack[:len(stack)-1]
		state[f] = 2
	}
	sort.Slice(fns, func(i, j int) bool { return fns[i].String() < fns[j].String() })
	for _, f := range fns {
		if state[f] == 0 {
			dfs(f)
		}
	}
	if len(reported) == 0 {
		c.ok("R06g", "data no-static-call-cycle", pkg.Pkg.Scope().Pos(), fmt.Sprintf("no cycle of static calls among the methods of the scalar value types (%d functions of package data examined)", len(fns)))
	}
	c.floor("R06g", "functions of package data", 25, len(fns))
}
