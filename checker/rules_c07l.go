package main

import (
	"go/ast"
	"go/types"
	"sort"
)

// R07l: a flag that describes one item of a list the parser is reading is per-iteration state. A variable
// declared outside a loop, assigned only constants inside it and only under conditions, never reset at the
// top of the body, and used inside the loop to build the item being recorded (a field of a composite
// literal or of an append) carries the value of an earlier item into the later ones.
func ruleR07l(c *Ctx) {
	rels := []string{"parse", "parsepasses", "template"} // what decides acceptance and what the checker reads
	sort.Strings(rels)
	loops := 0
	for _, rel := range rels {
		p := c.Pkgs[rel]
		if p == nil {
			c.fatalf("anchor: package %s not loaded", rel)
			continue
		}
		info := p.TypesInfo
		for _, fd := range c.allFuncDecls(rel) {
			ast.Inspect(fd.Body, func(x ast.Node) bool {
				var body *ast.BlockStmt
				switch l := x.(type) {
				case *ast.ForStmt:
					body = l.Body
				case *ast.RangeStmt:
					body = l.Body
				default:
					return true
				}
				loops++
				// candidates: objects assigned in the body but declared outside it
				type cand struct {
					constOnly, uncond bool
					n                 int
				}
				cands := map[types.Object]*cand{}
				declaredIn := func(o types.Object) bool { return o.Pos() >= body.Pos() && o.Pos() <= body.End() }
				var visit func(n ast.Node, conditional bool)
				visit = func(n ast.Node, conditional bool) {
					ast.Inspect(n, func(y ast.Node) bool {
						switch s := y.(type) {
						case *ast.FuncLit:
							return false
						case *ast.IfStmt:
							if s.Init != nil {
								visit(s.Init, conditional)
							}
							visit(s.Body, true)
							if s.Else != nil {
								visit(s.Else, true)
							}
							return false
						case *ast.CaseClause:
							for _, b := range s.Body {
								visit(b, true)
							}
							return false
						case *ast.CommClause:
							for _, b := range s.Body {
								visit(b, true)
							}
							return false
						case *ast.ForStmt:
							visit(s.Body, true)
							return false
						case *ast.RangeStmt:
							visit(s.Body, true)
							return false
						case *ast.AssignStmt:
							for i, l := range s.Lhs {
								id, ok := l.(*ast.Ident)
								if !ok {
									continue
								}
								o := info.Uses[id]
								if o == nil || declaredIn(o) {
									continue
								}
								if _, isVar := o.(*types.Var); !isVar || o.Parent() == o.Pkg().Scope() {
									continue
								}
								cd := cands[o]
								if cd == nil {
									cd = &cand{constOnly: true}
									cands[o] = cd
								}
								cd.n++
								isConst := false
								if len(s.Lhs) == len(s.Rhs) {
									if tv, ok := info.Types[s.Rhs[i]]; ok && tv.Value != nil {
										isConst = true
									}
								}
								if !isConst {
									cd.constOnly = false
								}
								if !conditional {
									cd.uncond = true
								}
							}
						case *ast.IncDecStmt:
							if id, ok := s.X.(*ast.Ident); ok {
								if o := info.Uses[id]; o != nil {
									if cd := cands[o]; cd != nil {
										cd.constOnly = false
									} else {
										cands[o] = &cand{}
									}
								}
							}
						}
						return true
					})
				}
				visit(body, false)
				for o, cd := range cands {
					if !cd.constOnly || cd.uncond || cd.n == 0 {
						continue
					}
					// used inside the loop to build a record
					builds := false
					ast.Inspect(body, func(y ast.Node) bool {
						cl, ok := y.(*ast.CompositeLit)
						if !ok {
							return true
						}
						ast.Inspect(cl, func(z ast.Node) bool {
							if id, ok := z.(*ast.Ident); ok && info.Uses[id] == o {
								builds = true
							}
							return true
						})
						return true
					})
					if !builds {
						continue
					}
					c.bad("R07l", c.declKey(rel, fd)+" sticky "+o.Name(), o.Pos(),
						"the flag "+o.Name()+" is declared outside the loop, set to a constant under a condition inside it and never reset, and it is recorded in the item built by each iteration: once set for one item it stays set for every later one")
				}
				return true
			})
		}
	}
	c.floor("R07l", "loops examined for sticky per-item flags", 40, loops)
}
