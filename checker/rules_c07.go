package main

import (
	"fmt"
	"go/ast"
	"go/token"
	"go/types"
	"sort"
	"strings"

	"golang.org/x/tools/go/ssa"
)

// R07a: Compile runs every pass and honours every error before it reports success.
func ruleR07a(c *Ctx) {
	c.buildSSA()
	fd := c.mustFunc("", "Bundle.Compile")
	p := c.pkg("")
	if fd == nil || p == nil {
		return
	}
	info := p.TypesInfo
	nr := newNoRet(c)
	c.seen("soy.Bundle.Compile")
	stages := []struct{ pkg, name string }{
		{"parse", "SoyFile"}, {"template", "Add"}, {"parsepasses", "CheckDataRefs"}, {"parsepasses", "SetGlobals"}, {"parsepasses", "ProcessMessages"},
	}
	stageOf := func(call *ast.CallExpr) int {
		cal := calleeFunc(call, info)
		if cal == nil || cal.Pkg() == nil {
			return -1
		}
		for i, s := range stages {
			if cal.Name() == s.name && strings.HasSuffix(cal.Pkg().Path(), "/"+s.pkg) {
				return i
			}
		}
		return -1
	}
	// helpers of Compile (unexported functions of the package it calls): a call to one counts for the stages
	// that the helper has run on every path on which it returns a nil error
	helpers := c.withHelpers("", fd, 2)
	guaranteed := map[*types.Func]map[int]bool{}
	runsStage := map[*types.Func]bool{}
	var analyse func(body *ast.BlockStmt, self *types.Func) map[int]bool // stages possibly missing at a success return
	analyse = func(body *ast.BlockStmt, self *types.Func) map[int]bool {
		init := flowState{}
		for i := range stages {
			init[fmt.Sprint(i)] = 1 // 1 = possibly not yet run
		}
		missingAt := map[int]bool{}
		runFlow(body, nr.forInfo(info), init, func(n ast.Node, st flowState, report bool) flowState {
			ast.Inspect(n, func(x ast.Node) bool {
				if _, ok := x.(*ast.FuncLit); ok {
					return false
				}
				if call, ok := x.(*ast.CallExpr); ok {
					if i := stageOf(call); i >= 0 {
						st[fmt.Sprint(i)] = 0
					}
					if cal := calleeFunc(call, info); cal != nil && cal != self {
						for i := range guaranteed[cal] {
							st[fmt.Sprint(i)] = 0
						}
					}
				}
				return true
			})
			if rs, ok := n.(*ast.ReturnStmt); ok && report && len(rs.Results) >= 1 {
				if id, ok := ast.Unparen(rs.Results[len(rs.Results)-1]).(*ast.Ident); ok && id.Name == "nil" {
					for i := range stages {
						if st[fmt.Sprint(i)]&1 != 0 {
							missingAt[i] = true
						}
					}
				}
			}
			return st
		})
		return missingAt
	}
	for i := len(helpers) - 1; i >= 1; i-- { // callees before callers (withHelpers lists breadth-first)
		hd := helpers[i]
		hfn, _ := info.Defs[hd.Name].(*types.Func)
		if hfn == nil || hd.Type.Results == nil {
			continue
		}
		miss := analyse(hd.Body, hfn)
		g := map[int]bool{}
		for si := range stages {
			if !miss[si] {
				// only stages the helper actually calls (directly or through its own helpers)
				calls := false
				ast.Inspect(hd.Body, func(x ast.Node) bool {
					if call, ok := x.(*ast.CallExpr); ok {
						if stageOf(call) == si {
							calls = true
						}
						if cal := calleeFunc(call, info); cal != nil && guaranteed[cal][si] {
							calls = true
						}
					}
					return true
				})
				if calls {
					g[si] = true
				}
			}
		}
		guaranteed[hfn] = g
		// does the helper run a stage at all (perhaps only per file, so that nothing is guaranteed for an empty bundle)?
		ast.Inspect(hd.Body, func(x ast.Node) bool {
			if call, ok := x.(*ast.CallExpr); ok {
				if stageOf(call) >= 0 {
					runsStage[hfn] = true
				}
				if cal := calleeFunc(call, info); cal != nil && runsStage[cal] {
					runsStage[hfn] = true
				}
			}
			return true
		})
	}
	var missing []string
	var mpos token.Pos
	missAt := analyse(fd.Body, nil)
	for i, s := range stages {
		if i < 2 {
			continue // per-file stages: checked structurally below
		}
		if missAt[i] {
			missing = append(missing, s.pkg+"."+s.name)
		}
	}
	c.check(len(missing) == 0, "R07a", "soy.Bundle.Compile#passes-before-success", fd.Pos(),
		"every path that returns success has run CheckDataRefs, SetGlobals and ProcessMessages",
		"a path returns success without running "+strings.Join(missing, ", ")+": bundles violating the data-reference rules compile")
	_ = mpos
	// per-file stages inside a range over the files
	perFile := map[int]bool{}
	for _, hd := range helpers { // Compile itself, or the helper the loop was moved into
		ast.Inspect(hd.Body, func(x ast.Node) bool {
			rs, ok := x.(*ast.RangeStmt)
			if !ok {
				return true
			}
			if !strings.HasSuffix(exprKey(rs.X), ".files") {
				return true
			}
			ast.Inspect(rs.Body, func(y ast.Node) bool {
				if call, ok := y.(*ast.CallExpr); ok {
					if i := stageOf(call); i >= 0 {
						perFile[i] = true
					}
				}
				return true
			})
			return true
		})
	}
	c.check(perFile[0] && perFile[1], "R07a", "soy.Bundle.Compile#every-file-parsed-and-registered", fd.Pos(),
		"each file of the bundle is parsed and added to the registry", "the loop over the bundle's files does not both parse and register each file")
	// errors of the stages are honoured (SSA error discipline)
	f := c.ssaFunc("", "(*Bundle).Compile")
	if f == nil {
		c.fatalf("anchor: SSA for (*Bundle).Compile not found")
		return
	}
	helperFns := map[*ssa.Function]bool{}
	ssaFuncs := []*ssa.Function{f}
	for _, hd := range helpers[1:] {
		for _, cand := range allPkgFunctions(c, c.SSA[""]) {
			if cand.Syntax() == ast.Node(hd) && (len(guaranteed[typesFuncOf(cand)]) > 0 || runsStage[typesFuncOf(cand)]) {
				helperFns[cand] = true
				ssaFuncs = append(ssaFuncs, cand)
			}
		}
	}
	n := 0
	for _, sf := range ssaFuncs {
		for _, b := range sf.Blocks {
			for _, in := range b.Instrs {
				ci, ok := in.(ssa.CallInstruction)
				if !ok {
					continue
				}
				sc := ci.Common().StaticCallee()
				name := ""
				if sc != nil {
					name = sc.Name()
				}
				sig := ci.Common().Signature()
				eidx := -2
				for i := 0; i < sig.Results().Len(); i++ {
					if isErrorType(sig.Results().At(i).Type()) {
						eidx = i
					}
				}
				if eidx == -2 {
					continue
				}
				isStage := false
				for _, s := range stages {
					if name == s.name {
						isStage = true
					}
				}
				if !isStage && sc != nil && !helperFns[sc] {
					continue
				}
				// dynamic calls returning error are the user's extra parse passes
				if sig.Results().Len() == 1 {
					eidx = -1
				}
				n++
				what := name
				if what == "" {
					what = "parse pass callback"
				}
				ok2, ret, why := errHandled(c, nr, ci, eidx)
				key := fmt.Sprintf("soy.Bundle.Compile error-of %s#%d", what, n)
				if ok2 && len(ret) > 0 {
					c.ok("R07a", key, in.Pos(), "the error is returned to the caller of Compile")
				} else if ok2 {
					c.ok("R07a", key, in.Pos(), "the error is tested and raises")
				} else {
					c.bad("R07a", key, in.Pos(), "the error of "+what+" is not honoured ("+why+"): Compile can report success for a bundle the pass rejected")
				}
			}
		}
	}
	c.floor("R07a", "error-returning stages in Compile", 4, n)
	// CompileToTofu returns Compile's error
	ct := c.mustFunc("", "Bundle.CompileToTofu")
	if ct != nil {
		okc := false
		ast.Inspect(ct.Body, func(x ast.Node) bool {
			if rs, ok := x.(*ast.ReturnStmt); ok && len(rs.Results) == 2 {
				if id, ok := ast.Unparen(rs.Results[1]).(*ast.Ident); ok && id.Name != "nil" {
					okc = true
				}
			}
			return true
		})
		c.check(okc, "R07a", "soy.Bundle.CompileToTofu#returns-error", ct.Pos(), "the compile error is returned", "CompileToTofu drops the compile error")
	}
}

// binderFields extracts, from a tree walker's type switch, the (NodeType.Field) pairs whose value is
// passed to one of the given binder functions (identified by predicate).
func binderFields(c *Ctx, rel, fn string, isBinder func(call *ast.CallExpr, info *types.Info) bool) map[string]bool {
	out := map[string]bool{}
	fd := c.mustFunc(rel, fn)
	if fd == nil {
		return out
	}
	info := c.Pkgs[rel].TypesInfo
	// follow one level of helper calls (visitFor -> visitForRange/visitForeach)
	var scan func(body ast.Node, depth int)
	seen := map[*ast.FuncDecl]bool{}
	scan = func(body ast.Node, depth int) {
		ast.Inspect(body, func(x ast.Node) bool {
			call, ok := x.(*ast.CallExpr)
			if !ok {
				return true
			}
			if isBinder(call, info) {
				for _, a := range call.Args {
					a = resolveLocalInit(a, body, info)
					if fv := fieldOfExpr(a, info); fv != nil {
						if se, ok := ast.Unparen(a).(*ast.SelectorExpr); ok {
							if tv, ok := info.Types[se.X]; ok {
								if r, tn, ok := relPkgOfType(tv.Type); ok && r == "ast" {
									out[tn+"."+fv.Name()] = true
								}
							}
						}
					}
				}
				return true
			}
			if depth < 2 {
				if cal := calleeFunc(call, info); cal != nil && cal.Pkg() != nil && cal.Pkg().Path() == modPath+"/"+rel {
					for _, hd := range c.allFuncDecls(rel) {
						if info.Defs[hd.Name] == cal && !seen[hd] {
							seen[hd] = true
							scan(hd.Body, depth+1)
						}
					}
				}
			}
			return true
		})
	}
	scan(fd.Body, 0)
	return out
}

// resolveLocalInit replaces an identifier by its single initialiser (`var x = node.F`) when it has one.
func resolveLocalInit(e ast.Expr, scope ast.Node, info *types.Info) ast.Expr {
	id, ok := ast.Unparen(e).(*ast.Ident)
	if !ok {
		return e
	}
	obj := info.Uses[id]
	if obj == nil {
		return e
	}
	var init ast.Expr
	n := 0
	ast.Inspect(scope, func(x ast.Node) bool {
		switch s := x.(type) {
		case *ast.ValueSpec:
			for i, nm := range s.Names {
				if info.Defs[nm] == obj && i < len(s.Values) {
					init = s.Values[i]
					n++
				}
			}
		case *ast.AssignStmt:
			for i, l := range s.Lhs {
				if li, ok := l.(*ast.Ident); ok && (info.Defs[li] == obj || info.Uses[li] == obj) && i < len(s.Rhs) {
					init = s.Rhs[i]
					n++
				}
			}
		}
		return true
	})
	if n == 1 && init != nil {
		return init
	}
	return e
}

// R07b: the kinds of node that bind a name agree between the checker and both backends.
func ruleR07b(c *Ctx) { ruleR07bFor(c, true, true) }

// ruleR07bFor compares the renderer's binder kinds with the compile-time checker's (withChecker) and/or
// the JavaScript generator's (withJS): a property is only told about the sides it speaks of.
func ruleR07bFor(c *Ctx, withChecker, withJS bool) {
	sfH := getScopeFacts(c, "soyhtml")
	if sfH == nil {
		return
	}
	run := binderFields(c, "soyhtml", "state.walk", func(call *ast.CallExpr, info *types.Info) bool {
		cal := calleeFunc(call, info)
		if cal == nil || !sfH.set[cal] {
			return false
		}
		// only bindings made in the renderer's own scope (s.context), not in the data being built for a callee
		se, ok := ast.Unparen(call.Fun).(*ast.SelectorExpr)
		if !ok {
			return false
		}
		_, isField := ast.Unparen(se.X).(*ast.SelectorExpr)
		return isField
	})
	jsBind := scopeBinderMethods(c, "soyjs", "scope")
	js := binderFields(c, "soyjs", "state.walk", func(call *ast.CallExpr, info *types.Info) bool {
		cal := calleeFunc(call, info)
		if cal == nil || cal.Type().(*types.Signature).Recv() == nil {
			return false
		}
		rt := namedOf(cal.Type().(*types.Signature).Recv().Type())
		if rt == nil || rt.Obj().Name() != "scope" {
			return false
		}
		// scope methods that take a variable name and create a binding under it
		return jsBind[cal]
	})
	// the checker: appends of node.Field to its binder lists
	chk := map[string]bool{}
	uses := map[string]bool{}
	ck := c.mustFunc("parsepasses", "templateChecker.checkTemplate")
	if ck == nil {
		return
	}
	cinfo := c.Pkgs["parsepasses"].TypesInfo
	// arms moved into methods of their own: their parameters stand for the arguments at the call sites
	paramArgs := map[types.Object][]ast.Expr{}
	ckScope := &ast.BlockStmt{}
	for _, hd := range c.withHelpers("parsepasses", ck, 1) {
		ckScope.List = append(ckScope.List, hd.Body)
	}
	ast.Inspect(ckScope, func(x ast.Node) bool {
		call, ok := x.(*ast.CallExpr)
		if !ok {
			return true
		}
		for _, hd := range c.allFuncDecls("parsepasses") {
			if cinfo.Defs[hd.Name] != types.Object(calleeFunc(call, cinfo)) || calleeFunc(call, cinfo) == nil {
				continue
			}
			k := 0
			for _, fl := range hd.Type.Params.List {
				for _, nm := range fl.Names {
					if k < len(call.Args) {
						paramArgs[cinfo.Defs[nm]] = append(paramArgs[cinfo.Defs[nm]], call.Args[k])
					}
					k++
				}
			}
		}
		return true
	})
	// appends to the list the entry consults for unused params (uses, not bindings) are not binder appends
	useAppends := map[*ast.CallExpr]bool{}
	if entry := c.mustFunc("parsepasses", "CheckDataRefs"); entry != nil {
		U := map[*types.Var]bool{}
		assigned := map[ast.Expr]bool{} // selectors that are only being (re)set there, not read
		ast.Inspect(entry.Body, func(x ast.Node) bool {
			if as, ok := x.(*ast.AssignStmt); ok {
				for _, l := range as.Lhs {
					assigned[ast.Unparen(l)] = true
				}
			}
			return true
		})
		ast.Inspect(entry.Body, func(x ast.Node) bool {
			if se, ok := x.(*ast.SelectorExpr); ok && !assigned[se] {
				if fv := fieldOf(se, cinfo); fv != nil && fv.Name() != "params" {
					if _, ok := fv.Type().Underlying().(*types.Slice); ok {
						U[fv] = true
					}
				}
			}
			return true
		})
		ast.Inspect(ckScope, func(x ast.Node) bool {
			if as, ok := x.(*ast.AssignStmt); ok && len(as.Lhs) == 1 && len(as.Rhs) == 1 {
				if call, ok := as.Rhs[0].(*ast.CallExpr); ok {
					if fv := fieldOf(as.Lhs[0], cinfo); fv != nil && U[fv] {
						useAppends[call] = true
					}
				}
			}
			return true
		})
	}
	ast.Inspect(ckScope, func(x ast.Node) bool {
		call, ok := x.(*ast.CallExpr)
		if !ok || useAppends[call] {
			return true
		}
		isAppend := false
		if id, ok := call.Fun.(*ast.Ident); ok && id.Name == "append" && len(call.Args) > 0 && fieldOf(call.Args[0], cinfo) != nil {
			isAppend = true // to a list kept in the checker (not to a local slice of a helper)
		}
		if _, ok := appendHelpers(c, "parsepasses")[calleeFunc(call, cinfo)]; ok {
			isAppend = true // tc.declareLet(node.Name): the append, moved into a method
		}
		for _, a := range call.Args {
			// the node field handed over, directly or inside the record that is appended
			var sels []*ast.SelectorExpr
			if isAppend {
				ast.Inspect(a, func(y ast.Node) bool {
					if se, ok := y.(*ast.SelectorExpr); ok && fieldOfExpr(se, cinfo) != nil {
						sels = append(sels, se)
					}
					if id, ok := y.(*ast.Ident); ok {
						for _, arg := range paramArgs[cinfo.Uses[id]] {
							if se, ok := ast.Unparen(arg).(*ast.SelectorExpr); ok && fieldOfExpr(se, cinfo) != nil {
								sels = append(sels, se)
							}
						}
					}
					return true
				})
			} else if se, ok := ast.Unparen(a).(*ast.SelectorExpr); ok && fieldOfExpr(se, cinfo) != nil {
				sels = append(sels, se)
			}
			for _, se := range sels {
				fv := fieldOfExpr(se, cinfo)
				tv, ok := cinfo.Types[se.X]
				if !ok {
					continue
				}
				if r, tn, ok := relPkgOfType(tv.Type); ok && r == "ast" {
					if isAppend {
						chk[tn+"."+fv.Name()] = true
					} else if cal := calleeFunc(call, cinfo); cal != nil && strings.Contains(strings.ToLower(cal.Name()), "key") {
						uses[tn+"."+fv.Name()] = true
					}
				}
			}
		}
		return true
	})
	c.seen("parsepasses.templateChecker.checkTemplate")
	c.seen("soyhtml.state.walk")
	c.seen("soyjs.state.walk")
	all := map[string]bool{}
	for k := range run {
		all[k] = true
	}
	for k := range js {
		all[k] = true
	}
	for k := range chk {
		all[k] = true
	}
	if !withJS {
		for k := range js {
			if !run[k] && !chk[k] {
				delete(all, k)
			}
		}
	}
	if !withChecker {
		for k := range chk {
			if !run[k] && !js[k] {
				delete(all, k)
			}
		}
	}
	for _, k := range sortedKeys(all) {
		key := "binder " + k
		c.check(run[k] && (js[k] || !withJS) && (chk[k] || !withChecker), "R07b", key, ck.Pos(),
			"bound by the Go renderer, by the JavaScript generator and recorded as a binder by the compile-time checker",
			fmt.Sprintf("binder disagreement: renderer=%v generator=%v checker=%v; a name bound at run time but unknown to the checker is rejected, one known only to the checker is looked up unbound", run[k], js[k], chk[k]))
	}
	c.floor("R07b", "binder kinds", 3, len(all))
	if !withChecker {
		return
	}
	c.check(uses["DataRefNode.Key"], "R07b", "use DataRefNode.Key", ck.Pos(), "every data reference's key is checked against the bindings", "the checker no longer checks DataRefNode.Key against the bindings")
}

// nodeLike: the type can hold AST nodes.
func nodeLike(t types.Type, nodeIface *types.Interface) bool {
	switch u := t.(type) {
	case *types.Slice:
		return nodeLike(u.Elem(), nodeIface)
	case *types.Map:
		return nodeLike(u.Elem(), nodeIface)
	case *types.Array:
		return nodeLike(u.Elem(), nodeIface)
	}
	if _, tn, ok := relPkgOfType(t); ok && (tn == "Pos" || tn == "TypeNode" || tn == "AutoescapeType") {
		return false
	}
	if rel, _, ok := relPkgOfType(t); ok && rel != "ast" {
		return false
	}
	if _, ok := t.Underlying().(*types.Interface); ok {
		return types.Implements(t, nodeIface) || types.AssignableTo(t, nodeIface)
	}
	if types.Implements(t, nodeIface) {
		return true
	}
	if _, ok := t.(*types.Pointer); !ok {
		return types.Implements(types.NewPointer(t), nodeIface)
	}
	return false
}

// childExceptions: node-typed fields deliberately not returned by Children().
var childExceptions = map[string]string{
	"HeaderParamNode.Default": "header params are moved into the soydoc by Registry.Add and stripped from the body before any pass or backend sees them; the default expression is not evaluated by either backend",
	"GlobalNode.Value":        "a data value, not a node",
}

// R07c: every node-typed field of every AST node is returned by its Children(), so the tree passes
// (data-reference check, globals, message ids) see every reference.
func ruleR07c(c *Ctx) {
	p := c.pkg("ast")
	if p == nil {
		return
	}
	nodeObj := p.Types.Scope().Lookup("Node")
	if nodeObj == nil {
		c.fatalf("anchor: ast.Node not found")
		return
	}
	nodeIface := nodeObj.Type().Underlying().(*types.Interface)
	children := map[string]*ast.FuncDecl{}
	for _, fd := range c.allFuncDecls("ast") {
		if fd.Name.Name == "Children" && fd.Recv != nil {
			children[recvTypeName(fd.Recv.List[0].Type)] = fd
		}
	}
	n := 0
	names := p.Types.Scope().Names()
	sort.Strings(names)
	for _, tn := range names {
		obj, ok := p.Types.Scope().Lookup(tn).(*types.TypeName)
		if !ok {
			continue
		}
		st, ok := obj.Type().Underlying().(*types.Struct)
		if !ok {
			continue
		}
		if !types.Implements(types.NewPointer(obj.Type()), nodeIface) && !types.Implements(obj.Type(), nodeIface) {
			continue
		}
		fd := children[tn]
		for i := 0; i < st.NumFields(); i++ {
			f := st.Field(i)
			if f.Embedded() {
				// embedded BinaryOpNode: its own Children() covers its fields
				continue
			}
			if !nodeLike(f.Type(), nodeIface) {
				continue
			}
			n++
			key := tn + "." + f.Name()
			if why, ok := childExceptions[key]; ok {
				c.ok("R07c", "children "+key, f.Pos(), "named exception: "+why)
				continue
			}
			// embedded struct providing Children (XNode struct{ BinaryOpNode })
			if fd == nil {
				c.bad("R07c", "children "+key, f.Pos(), tn+" holds nodes in "+f.Name()+" but has no Children(): the data-reference check, SetGlobals and ProcessMessages never see what is inside")
				continue
			}
			mentioned := false
			ast.Inspect(fd.Body, func(x ast.Node) bool {
				if se, ok := x.(*ast.SelectorExpr); ok && se.Sel.Name == f.Name() {
					mentioned = true
				}
				return true
			})
			c.check(mentioned, "R07c", "children "+key, f.Pos(), "returned by "+tn+".Children()",
				tn+".Children() does not return the nodes in "+f.Name()+": references inside them escape the data-reference check (and globals / message ids inside are never set)")
			// a field that holds a list of nodes is returned element for element
			if _, isSlice := f.Type().Underlying().(*types.Slice); isSlice && mentioned {
				c.check(coversAllElements(fd, f.Name()), "R07c", "children "+key+" all-elements", f.Pos(), "every element of "+f.Name()+" is returned",
					tn+".Children() does not visibly return every element of "+f.Name()+" (a whole-slice use, a range over it, or a counted loop from 0 to its length): the elements left out are invisible to the data-reference check and the other tree passes")
			}
		}
	}
	c.floor("R07c", "node-typed fields of AST nodes", 35, n)
}

// R07d: Registry.Add refuses a template that declares params both ways before recording it.
func ruleR07d(c *Ctx) {
	fd := c.mustFunc("template", "Registry.Add")
	p := c.pkg("template")
	if fd == nil || p == nil {
		return
	}
	info := p.TypesInfo
	nr := newNoRet(c)
	guardSeen := false
	okAll, any := true, false
	guardWalkStmts(fd.Body, nr.forInfo(info), func(s ast.Stmt, facts factSet) {
		if ifs, ok := s.(*ast.IfStmt); ok && terminates(ifs.Body.List, nr.forInfo(info)) {
			// a guard mentioning the collected header params (a slice of *ast.HeaderParamNode)
			ast.Inspect(ifs.Cond, func(x ast.Node) bool {
				if id, ok := x.(*ast.Ident); ok {
					if v, ok := info.Uses[id].(*types.Var); ok {
						if sl, ok := v.Type().(*types.Slice); ok {
							if _, tn, ok := relPkgOfType(sl.Elem()); ok && tn == "HeaderParamNode" {
								if ret, ok := ifs.Body.List[len(ifs.Body.List)-1].(*ast.ReturnStmt); ok && len(ret.Results) == 1 {
									if id2, ok := ret.Results[0].(*ast.Ident); !ok || id2.Name != "nil" {
										guardSeen = true
									}
								}
							}
						}
					}
				}
				return true
			})
		}
		if as, ok := s.(*ast.AssignStmt); ok && len(as.Lhs) == 1 && strings.HasSuffix(exprKey(as.Lhs[0]), ".Templates") {
			any = true
			if !guardSeen {
				okAll = false
			}
		}
	})
	c.check(any && okAll, "R07d", "template.Registry.Add#one-declaration-mechanism", fd.Pos(),
		"the soydoc/header-param exclusivity test precedes recording the template", "a template declaring params both in soydoc and in headers is recorded without the exclusivity test")
}

// binderScopes: for each binder node kind, which of its children are evaluated outside the new
// variable's scope before it is bound, inside it, and outside after it ends (the language's scoping).
var binderScopes = map[string]struct{ before, inside, after []string }{
	"LetValueNode":   {before: []string{"Expr"}},
	"LetContentNode": {before: []string{"Body"}},
	"ForNode":        {before: []string{"List"}, inside: []string{"Body"}, after: []string{"IfEmpty"}},
}

// R07e: the checker brings a binder into scope exactly where the language does.
func ruleR07e(c *Ctx) {
	ck := c.mustFunc("parsepasses", "templateChecker.checkTemplate")
	p := c.pkg("parsepasses")
	if ck == nil || p == nil {
		return
	}
	info := p.TypesInfo
	var sw *ast.TypeSwitchStmt
	ast.Inspect(ck.Body, func(x ast.Node) bool {
		if ts, ok := x.(*ast.TypeSwitchStmt); ok && sw == nil {
			sw = ts
		}
		return true
	})
	if sw == nil {
		c.fatalf("anchor: type switch of checkTemplate not found")
		return
	}
	n := 0
	for _, cs := range sw.Body.List {
		cc := cs.(*ast.CaseClause)
		if len(cc.List) != 1 {
			continue
		}
		tv, ok := info.Types[cc.List[0]]
		if !ok {
			continue
		}
		_, tn, ok := relPkgOfType(tv.Type)
		spec, isBinder := binderScopes[tn]
		if !ok || !isBinder {
			continue
		}
		n++
		key := "parsepasses.checkTemplate binder-scope " + tn
		// statement indices
		appendAt, truncAt := -1, -1
		visitAt := map[string]int{}
		// the arm, with a call that hands the node to a method of its own (checkFor(node)) replaced by that method's body
		arm := c.expandArm("parsepasses", cc.Body)
		returns := arm.returns
		for i, s := range arm.stmts {
			if _, ok := s.(*ast.ReturnStmt); ok {
				returns = true
			}
			if es, ok := s.(*ast.ExprStmt); ok {
				if call, ok := es.X.(*ast.CallExpr); ok {
					if _, isHelper := appendHelpers(c, "parsepasses")[calleeFunc(call, info)]; isHelper && appendAt < 0 {
						appendAt = i
					}
				}
			}
			if as, ok := s.(*ast.AssignStmt); ok && len(as.Rhs) == 1 {
				switch r := ast.Unparen(as.Rhs[0]).(type) {
				case *ast.CallExpr:
					if id, ok := r.Fun.(*ast.Ident); ok && id.Name == "append" && appendAt < 0 {
						appendAt = i
					}
				case *ast.SliceExpr:
					if truncAt < 0 {
						truncAt = i
					}
				}
			}
			ast.Inspect(s, func(x ast.Node) bool {
				call, ok := x.(*ast.CallExpr)
				if !ok {
					return true
				}
				if id, ok := call.Fun.(*ast.Ident); ok && id.Name == "append" {
					return true
				}
				for _, a := range call.Args {
					if se, ok := ast.Unparen(arm.substArg(a, info)).(*ast.SelectorExpr); ok {
						if fv := fieldOfExpr(se, info); fv != nil {
							if _, seen := visitAt[fv.Name()]; !seen {
								visitAt[fv.Name()] = i
							}
						}
					}
				}
				return true
			})
		}
		var problems []string
		if appendAt < 0 {
			problems = append(problems, "the variable is never recorded as bound")
		}
		if !returns {
			problems = append(problems, "the case falls through to the generic traversal, which visits every child with the variable already in scope")
		}
		for _, f := range spec.before {
			if v, ok := visitAt[f]; !ok || v > appendAt {
				problems = append(problems, f+" is not checked before the variable is bound: a reference to the variable inside its own "+f+" is accepted")
			}
		}
		for _, f := range spec.inside {
			if v, ok := visitAt[f]; !ok || v < appendAt || (truncAt >= 0 && v > truncAt) {
				problems = append(problems, f+" is not checked while the variable is in scope")
			}
		}
		if len(spec.inside) > 0 && truncAt < 0 {
			problems = append(problems, "the variable is not removed when its body ends: references after the loop are accepted and then fail at render time")
		}
		for _, f := range spec.after {
			if v, ok := visitAt[f]; ok && truncAt >= 0 && v < truncAt {
				problems = append(problems, f+" is checked with the variable still in scope")
			} else if !ok {
				problems = append(problems, f+" is not checked")
			}
		}
		if len(problems) > 0 {
			c.bad("R07e", key, cc.Pos(), strings.Join(problems, "; "))
		} else {
			c.ok("R07e", key, cc.Pos(), "children are checked before / inside / after the variable's scope as the language defines it")
		}
	}
	c.floor("R07e", "binder kinds in the checker", 3, n)
}

// scopeBinderMethods: the methods of the generator's scope type that store a binding keyed by their
// (string) parameter: m[param] = ... or a map literal {param: ...}. Look-ups only read.
func scopeBinderMethods(c *Ctx, rel, typeName string) map[*types.Func]bool {
	out := map[*types.Func]bool{}
	p := c.pkg(rel)
	if p == nil {
		return out
	}
	info := p.TypesInfo
	for _, fd := range c.allFuncDecls(rel) {
		if fd.Recv == nil || len(fd.Recv.List) != 1 || recvTypeName(fd.Recv.List[0].Type) != typeName {
			continue
		}
		params := map[types.Object]bool{}
		for _, fl := range fd.Type.Params.List {
			for _, nm := range fl.Names {
				if o := info.Defs[nm]; o != nil {
					params[o] = true
				}
			}
		}
		isParam := func(e ast.Expr) bool {
			id, ok := ast.Unparen(e).(*ast.Ident)
			return ok && params[info.Uses[id]]
		}
		binds := false
		ast.Inspect(fd.Body, func(x ast.Node) bool {
			switch n := x.(type) {
			case *ast.AssignStmt:
				for _, l := range n.Lhs {
					// a store into a frame of the stack: stack[i][param] = ... (a store into a table
					// kept beside the frames is not a binding)
					if ix, ok := l.(*ast.IndexExpr); ok && isParam(ix.Index) {
						if _, frame := ast.Unparen(ix.X).(*ast.IndexExpr); frame {
							binds = true
						}
					}
				}
			case *ast.KeyValueExpr:
				if isParam(n.Key) {
					binds = true
				}
			}
			return true
		})
		if fn, ok := info.Defs[fd.Name].(*types.Func); ok && binds {
			out[fn] = true
		}
	}
	return out
}

func typesFuncOf(f *ssa.Function) *types.Func {
	if f == nil {
		return nil
	}
	fn, _ := f.Object().(*types.Func)
	return fn
}

// appendHelpers: unexported functions of a package whose body appends a value built from one of their
// parameters to a field of their receiver (tc.locals = append(tc.locals, &local{name: name})): a call to one
// is the append itself, moved into a function. Returns the field appended to, per function.
func appendHelpers(c *Ctx, rel string) map[*types.Func]*types.Var {
	out := map[*types.Func]*types.Var{}
	p := c.Pkgs[rel]
	if p == nil {
		return out
	}
	info := p.TypesInfo
	for _, fd := range c.allFuncDecls(rel) {
		if fd.Name.IsExported() || len(fd.Body.List) != 1 {
			continue
		}
		params := map[types.Object]bool{}
		for _, fl := range fd.Type.Params.List {
			for _, nm := range fl.Names {
				params[info.Defs[nm]] = true
			}
		}
		for _, st := range fd.Body.List {
			as, ok := st.(*ast.AssignStmt)
			if !ok || len(as.Lhs) != 1 || len(as.Rhs) != 1 {
				continue
			}
			fv := fieldOf(as.Lhs[0], info)
			call, isCall := as.Rhs[0].(*ast.CallExpr)
			if fv == nil || !isCall || len(call.Args) < 2 {
				continue
			}
			if id, ok := call.Fun.(*ast.Ident); !ok || id.Name != "append" {
				continue
			}
			usesParam := false
			ast.Inspect(call.Args[1], func(x ast.Node) bool {
				if id, ok := x.(*ast.Ident); ok && params[info.Uses[id]] {
					usesParam = true
				}
				return true
			})
			if usesParam {
				if fn, ok := info.Defs[fd.Name].(*types.Func); ok {
					out[fn] = fv
				}
			}
		}
	}
	return out
}

// coversAllElements: the function uses every element of the receiver's slice field: it ranges over it, appends
// it whole (x...), hands or returns it whole, or indexes it in a loop counted from 0 while i < len(field).
func coversAllElements(fd *ast.FuncDecl, field string) bool {
	isField := func(e ast.Expr) bool {
		se, ok := ast.Unparen(e).(*ast.SelectorExpr)
		return ok && se.Sel.Name == field
	}
	covered := false
	var stack []ast.Node
	ast.Inspect(fd.Body, func(x ast.Node) bool {
		if x == nil {
			stack = stack[:len(stack)-1]
			return true
		}
		stack = append(stack, x)
		switch n := x.(type) {
		case *ast.RangeStmt:
			if isField(n.X) {
				covered = true
			}
		case *ast.CallExpr:
			for i, a := range n.Args {
				if isField(a) {
					if id, ok := n.Fun.(*ast.Ident); ok && (id.Name == "len" || id.Name == "cap") {
						continue
					}
					if i == len(n.Args)-1 && n.Ellipsis.IsValid() {
						covered = true // append(nodes, n.F...)
					} else if id, ok := n.Fun.(*ast.Ident); !ok || id.Name != "append" || i > 0 {
						covered = true // handed on whole
					}
				}
			}
		case *ast.ReturnStmt:
			for _, r := range n.Results {
				if isField(r) {
					covered = true
				}
			}
		case *ast.ForStmt:
			// for i := 0; i < len(n.F); i++ { ... n.F[i] ... }
			init, ok1 := n.Init.(*ast.AssignStmt)
			cond, ok2 := n.Cond.(*ast.BinaryExpr)
			post, ok3 := n.Post.(*ast.IncDecStmt)
			if ok1 && ok2 && ok3 && len(init.Lhs) == 1 && len(init.Rhs) == 1 && exprKey(init.Rhs[0]) == "0" && post.Tok == token.INC &&
				cond.Op == token.LSS && exprKey(cond.X) == exprKey(init.Lhs[0]) {
				if call, ok := ast.Unparen(cond.Y).(*ast.CallExpr); ok && len(call.Args) == 1 && isField(call.Args[0]) {
					indexed := false
					ast.Inspect(n.Body, func(y ast.Node) bool {
						if ix, ok := y.(*ast.IndexExpr); ok && isField(ix.X) && exprKey(ix.Index) == exprKey(init.Lhs[0]) {
							indexed = true
						}
						return true
					})
					if indexed {
						covered = true
					}
				}
			}
		}
		return true
	})
	return covered
}
