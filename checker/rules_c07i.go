package main

import (
	"go/ast"
	"go/types"
	"sort"
	"strings"
)

// R07i: a generic tree pass (a function that type-switches on an ast.Node and descends through
// Children()) does not prune a parent node: every arm naming a node type that has children either
// descends itself (Children(), or a call that is handed the node or one of its fields), or runs on
// into the generic descent after the switch, or does not complete (panic).
func ruleR07i(c *Ctx) { ruleR07iFor(c, nil, 3, 4) }

// ruleR07iFor restricts the rule to the passes whose declaration key satisfies only (nil = all).
func ruleR07iFor(c *Ctx, only func(string) bool, floorPasses, floorArms int) {
	astPkg := c.pkg("ast")
	if astPkg == nil {
		return
	}
	parentIface, _ := astPkg.Types.Scope().Lookup("ParentNode").Type().Underlying().(*types.Interface)
	nodeIface, _ := astPkg.Types.Scope().Lookup("Node").Type().Underlying().(*types.Interface)
	if parentIface == nil || nodeIface == nil {
		c.fatalf("anchor: ast.ParentNode / ast.Node interfaces not found")
		return
	}
	nr := newNoRet(c)
	passes, arms := 0, 0
	var rels []string
	for rel := range c.Pkgs {
		rels = append(rels, rel)
	}
	sort.Strings(rels)
	for _, rel := range rels {
		if rel == "ast" {
			continue
		}
		p := c.Pkgs[rel]
		info := p.TypesInfo
		for _, fd := range c.allFuncDecls(rel) {
			if strings.HasSuffix(c.Fset.Position(fd.Pos()).Filename, "_test.go") {
				continue
			}
			if only != nil && !only(c.declKey(rel, fd)) {
				continue
			}
			callsChildren := func(n ast.Node) bool {
				found := false
				ast.Inspect(n, func(x ast.Node) bool {
					if call, ok := x.(*ast.CallExpr); ok {
						if se, ok := call.Fun.(*ast.SelectorExpr); ok && se.Sel.Name == "Children" && len(call.Args) == 0 {
							if tv, ok := info.Types[se.X]; ok && types.Implements(tv.Type, nodeIface) {
								found = true
							}
						}
					}
					return !found
				})
				return found
			}
			// the same pass written as a chain of comma-ok assertions: if x, ok := node.(T); ok { ...; return }
			// followed by the generic descent
			{
				var nodeParams []types.Object
				for _, fl := range fd.Type.Params.List {
					for _, nm := range fl.Names {
						if o := info.Defs[nm]; o != nil {
							if _, isIface := o.Type().Underlying().(*types.Interface); isIface && types.Implements(o.Type(), nodeIface) {
								nodeParams = append(nodeParams, o)
							}
						}
					}
				}
				hasSwitch := false
				for _, st := range fd.Body.List {
					if _, ok := st.(*ast.TypeSwitchStmt); ok {
						hasSwitch = true
					}
				}
				for _, sobj := range nodeParams {
					if hasSwitch {
						break
					}
					type ifArm struct {
						at   int
						ifs  *ast.IfStmt
						typ  types.Type
						bind types.Object
					}
					var arms2 []ifArm
					for si, st := range fd.Body.List {
						ifs, ok := st.(*ast.IfStmt)
						if !ok || ifs.Init == nil || ifs.Else != nil {
							continue
						}
						as, ok := ifs.Init.(*ast.AssignStmt)
						if !ok || len(as.Lhs) != 2 || len(as.Rhs) != 1 {
							continue
						}
						ta, ok := ast.Unparen(as.Rhs[0]).(*ast.TypeAssertExpr)
						if !ok || ta.Type == nil {
							continue
						}
						if id, ok := ast.Unparen(ta.X).(*ast.Ident); !ok || info.Uses[id] != sobj {
							continue
						}
						okID, isOK := as.Lhs[1].(*ast.Ident)
						cid, condIsID := ast.Unparen(ifs.Cond).(*ast.Ident)
						if !isOK || !condIsID || info.Uses[cid] != info.Defs[okID] {
							continue
						}
						tv, ok := info.Types[ta.Type]
						if !ok {
							continue
						}
						var bind types.Object
						if bid, ok := as.Lhs[0].(*ast.Ident); ok {
							bind = info.Defs[bid]
						}
						arms2 = append(arms2, ifArm{si, ifs, tv.Type, bind})
					}
					if len(arms2) == 0 {
						continue
					}
					last := arms2[len(arms2)-1].at
					after := &ast.BlockStmt{List: fd.Body.List[last+1:]}
					// the descent may itself be the last arm (if parent, ok := node.(ast.ParentNode); ok { for ... Children() })
					descent := callsChildren(after) || passesNode(after, sobj, nil, info)
					for _, a := range arms2 {
						if types.IsInterface(a.typ) && callsChildren(a.ifs.Body) {
							descent = true
						}
					}
					if !descent {
						continue
					}
					passes++
					c.seen(c.declKey(rel, fd))
					for _, a := range arms2 {
						if types.IsInterface(a.typ) || !types.Implements(a.typ, parentIface) {
							continue
						}
						arms++
						tname := types.TypeString(a.typ, func(p *types.Package) string { return p.Name() })
						ok := callsChildren(a.ifs.Body) || passesNode(a.ifs.Body, sobj, a.bind, info)
						how := "descends itself"
						if !ok {
							completes, returns := armEnds(a.ifs.Body.List, nr.forInfo(info))
							if !completes && !returns {
								ok, how = true, "does not complete (raises)"
							} else if !returns {
								ok, how = true, "runs on into the descent that follows"
							}
						}
						c.check(ok, "R07i", c.declKey(rel, fd)+" arm "+tname, a.ifs.Pos(), how,
							"the pass returns for "+tname+" without descending into its children: whatever the pass does (bind a global, check a reference, assign a message id) is skipped for every node below")
					}
				}
			}
			for si, st := range fd.Body.List {
				ts, ok := st.(*ast.TypeSwitchStmt)
				if !ok {
					continue
				}
				// the switched value is a parameter of the node interface type
				var subj ast.Expr
				switch a := ts.Assign.(type) {
				case *ast.AssignStmt:
					if ta, ok := a.Rhs[0].(*ast.TypeAssertExpr); ok {
						subj = ta.X
					}
				case *ast.ExprStmt:
					if ta, ok := a.X.(*ast.TypeAssertExpr); ok {
						subj = ta.X
					}
				}
				sid, ok := ast.Unparen(subj).(*ast.Ident)
				if !ok {
					continue
				}
				sobj := info.Uses[sid]
				if sobj == nil {
					continue
				}
				if _, isIface := sobj.Type().Underlying().(*types.Interface); !isIface || !types.Implements(sobj.Type(), nodeIface) {
					continue
				}
				// generic descent: in the switch's default arm or after the switch
				after := &ast.BlockStmt{List: fd.Body.List[si+1:]}
				descentAfter := callsChildren(after) || passesNode(after, sobj, nil, info)
				descentDefault := false
				for _, cl := range ts.Body.List {
					cc := cl.(*ast.CaseClause)
					if cc.List == nil && callsChildren(&ast.BlockStmt{List: cc.Body}) {
						descentDefault = true
					}
				}
				if !descentAfter && !descentDefault {
					continue // an explicit-descent walker: covered by the block-field rules (R02g, R04d, R10h)
				}
				passes++
				c.seen(c.declKey(rel, fd))
				for _, cl := range ts.Body.List {
					cc := cl.(*ast.CaseClause)
					if cc.List == nil {
						continue
					}
					var parents []string
					for _, te := range cc.List {
						tv, ok := info.Types[te]
						if !ok || tv.Type == nil {
							continue
						}
						if _, isIface := tv.Type.Underlying().(*types.Interface); isIface {
							continue
						}
						if types.Implements(tv.Type, parentIface) {
							parents = append(parents, types.TypeString(tv.Type, func(p *types.Package) string { return p.Name() }))
						}
					}
					if len(parents) == 0 {
						continue
					}
					arms++
					body := &ast.BlockStmt{List: cc.Body}
					bound := info.Implicits[cc]
					ok := callsChildren(body) || passesNode(body, sobj, bound, info)
					how := "descends itself"
					if !ok {
						// runs on into the generic descent after the switch?
						completes, returns := armEnds(cc.Body, nr.forInfo(info))
						if !completes && !returns {
							ok, how = true, "does not complete (raises)"
						} else if !returns && descentAfter {
							ok, how = true, "runs on into the descent after the switch"
						}
					}
					key := c.declKey(rel, fd) + " arm " + strings.Join(parents, ",")
					c.check(ok, "R07i", key, cc.Pos(), how,
						"the pass returns for "+strings.Join(parents, ", ")+" without descending into its children: whatever the pass does (bind a global, check a reference, assign a message id) is skipped for every node below")
				}
			}
		}
	}
	c.floor("R07i", "generic tree passes", floorPasses, passes)
	c.floor("R07i", "arms naming a node type with children", floorArms, arms)
}

// passesNode: n contains a call (to anything but a builtin/fmt) that is handed the node (the switched
// value or its arm-bound alias) or one of its fields.
func passesNode(n ast.Node, subj, bound types.Object, info *types.Info) bool {
	found := false
	isNode := func(e ast.Expr) bool {
		e = ast.Unparen(e)
		for {
			switch x := e.(type) {
			case *ast.SelectorExpr:
				e = x.X
				continue
			case *ast.TypeAssertExpr:
				e = x.X
				continue
			case *ast.Ident:
				o := info.Uses[x]
				return o != nil && (o == subj || (bound != nil && o == bound))
			}
			return false
		}
	}
	// aliases bound by asserting the node to another type (parent, ok := node.(ast.ParentNode))
	aliases := map[types.Object]bool{}
	ast.Inspect(n, func(x ast.Node) bool {
		if as, ok := x.(*ast.AssignStmt); ok && len(as.Rhs) == 1 {
			if ta, ok := ast.Unparen(as.Rhs[0]).(*ast.TypeAssertExpr); ok && isNode(ta.X) {
				if id, ok := as.Lhs[0].(*ast.Ident); ok && info.Defs[id] != nil {
					aliases[info.Defs[id]] = true
				}
			}
		}
		return true
	})
	isNodeOrAlias := func(e ast.Expr) bool {
		if isNode(e) {
			return true
		}
		e = ast.Unparen(e)
		for {
			switch x := e.(type) {
			case *ast.SelectorExpr:
				e = x.X
				continue
			case *ast.Ident:
				return aliases[info.Uses[x]]
			}
			return false
		}
	}
	ast.Inspect(n, func(x ast.Node) bool {
		call, ok := x.(*ast.CallExpr)
		if !ok || found {
			return !found
		}
		cal := calleeFunc(call, info)
		if cal == nil || cal.Pkg() == nil || !strings.Contains(cal.Pkg().Path(), "robfig/soy") {
			return true
		}
		for _, a := range call.Args {
			if tv, ok := info.Types[a]; ok && tv.Type != nil {
				if isNodeOrAlias(a) {
					// only node-typed (or node-slice) arguments count as a descent
					t := tv.Type
					if sl, ok := t.Underlying().(*types.Slice); ok {
						t = sl.Elem()
					}
					if _, _, isRel := relPkgOfType(t); isRel || types.IsInterface(t) {
						found = true
					}
				}
			}
		}
		return true
	})
	return found
}

// armEnds: whether the arm can complete normally (fall out of the switch) and whether it can return.
func armEnds(body []ast.Stmt, isNoRet noReturnFunc) (completes, returns bool) {
	completes = true
	for _, s := range body {
		ast.Inspect(s, func(x ast.Node) bool {
			if _, ok := x.(*ast.FuncLit); ok {
				return false
			}
			if _, ok := x.(*ast.ReturnStmt); ok {
				returns = true
			}
			return true
		})
	}
	if len(body) > 0 {
		switch last := body[len(body)-1].(type) {
		case *ast.ReturnStmt:
			completes = false
		case *ast.ExprStmt:
			if call, ok := last.X.(*ast.CallExpr); ok {
				if id, ok := call.Fun.(*ast.Ident); ok && id.Name == "panic" {
					completes = false
				} else if isNoRet != nil && isNoRet(call) {
					completes = false
				}
			}
		}
	}
	return
}

// nodeTypedFields lists the fields of struct type T (a node) that hold nodes: a node interface, a pointer
// to a node struct, or a slice of either.
func nodeTypedFields(t types.Type, nodeIface *types.Interface) []*types.Var {
	if p, ok := t.(*types.Pointer); ok {
		t = p.Elem()
	}
	st, ok := t.Underlying().(*types.Struct)
	if !ok {
		return nil
	}
	var out []*types.Var
	for i := 0; i < st.NumFields(); i++ {
		f := st.Field(i)
		if f.Embedded() {
			out = append(out, nodeTypedFields(f.Type(), nodeIface)...)
			continue
		}
		ft := f.Type()
		if sl, ok := ft.Underlying().(*types.Slice); ok {
			ft = sl.Elem()
		}
		if types.Implements(ft, nodeIface) || types.Implements(types.NewPointer(ft), nodeIface) {
			out = append(out, f)
		}
	}
	return out
}

// coversExceptions: arms of recursive walks that leave a field out on purpose (key + missing fields).
var coversExceptions = map[string]string{
	"soymsg.writeFingerprint arm *ast.MsgPlaceholderNode covers-fields Body": "a placeholder enters the fingerprint by its name, not by its content (official algorithm)",
	"soymsg.writeFingerprint arm *ast.MsgPluralNode covers-fields Value":     "the plural variable enters the fingerprint by its placeholder name, not by its expression (official algorithm)",
}

// R07j: an arm that handles a node type by hand (no Children(), node not handed on whole) mentions every
// node-holding field of that type: a field left out is a subtree the pass or backend never sees.
func ruleR07j(c *Ctx, rule string, rels []string, floorArms int, only ...string) {
	astPkg := c.pkg("ast")
	if astPkg == nil {
		return
	}
	nodeIface, _ := astPkg.Types.Scope().Lookup("Node").Type().Underlying().(*types.Interface)
	if nodeIface == nil {
		c.fatalf("anchor: ast.Node interface not found")
		return
	}
	arms := 0
	for _, rel := range rels {
		p := c.Pkgs[rel]
		if p == nil {
			c.fatalf("anchor: package %s not loaded", rel)
			continue
		}
		info := p.TypesInfo
		for _, fd := range c.allFuncDecls(rel) {
			if strings.HasSuffix(c.Fset.Position(fd.Pos()).Filename, "_test.go") {
				continue
			}
			if len(only) > 0 {
				keep := false
				for _, o := range only {
					if strings.HasPrefix(c.declKey(rel, fd), o) {
						keep = true
					}
				}
				if !keep {
					continue
				}
			}
			self, _ := info.Defs[fd.Name].(*types.Func)
			recursive := false
			// directly, or through the helpers it calls (a loop over the children extracted into a function)
			for _, hd := range c.withHelpers(rel, fd, 2) {
				ast.Inspect(hd.Body, func(x ast.Node) bool {
					if call, ok := x.(*ast.CallExpr); ok && self != nil && calleeFunc(call, info) == self {
						recursive = true
					}
					return !recursive
				})
			}
			if !recursive {
				continue // not a tree walk: a function that looks at one node picks the fields it needs
			}
			ast.Inspect(fd.Body, func(x ast.Node) bool {
				ts, ok := x.(*ast.TypeSwitchStmt)
				if !ok {
					return true
				}
				var subj ast.Expr
				switch a := ts.Assign.(type) {
				case *ast.AssignStmt:
					if ta, ok := a.Rhs[0].(*ast.TypeAssertExpr); ok {
						subj = ta.X
					}
				case *ast.ExprStmt:
					if ta, ok := a.X.(*ast.TypeAssertExpr); ok {
						subj = ta.X
					}
				}
				if subj == nil {
					return true
				}
				stv, ok := info.Types[subj]
				if !ok || !types.IsInterface(stv.Type) || !types.Implements(stv.Type, nodeIface) {
					return true
				}
				for _, cl := range ts.Body.List {
					cc := cl.(*ast.CaseClause)
					if len(cc.List) != 1 {
						continue
					}
					tv, ok := info.Types[cc.List[0]]
					if !ok || tv.Type == nil || types.IsInterface(tv.Type) {
						continue
					}
					fields := nodeTypedFields(tv.Type, nodeIface)
					if len(fields) == 0 {
						continue
					}
					bound := info.Implicits[cc]
					if bound == nil {
						continue // the arm cannot name the fields: it treats the node as opaque
					}
					// node handed on whole, or Children() used, or the arm raises at once
					analyseArm := func(body ast.Node, bound types.Object) (bool, map[*types.Var]bool) {
						whole, usesFields := false, map[*types.Var]bool{}
						ast.Inspect(body, func(y ast.Node) bool {
							switch e := y.(type) {
							case *ast.CallExpr:
								if se, ok := e.Fun.(*ast.SelectorExpr); ok {
									if id, ok := ast.Unparen(se.X).(*ast.Ident); ok && info.Uses[id] == bound {
										whole = true // a method of the node (Children(), String(), ...)
									}
								}
								for _, a := range e.Args {
									if id, ok := ast.Unparen(a).(*ast.Ident); ok && info.Uses[id] == bound {
										if id2, isBuiltin := e.Fun.(*ast.Ident); !isBuiltin || (id2.Name != "panic" && id2.Name != "print") {
											whole = true
										}
									}
								}
							case *ast.SelectorExpr:
								if id, ok := ast.Unparen(e.X).(*ast.Ident); ok && info.Uses[id] == bound {
									if fv, ok := info.Uses[e.Sel].(*types.Var); ok && fv.IsField() {
										usesFields[fv] = true
									}
								}
							case *ast.AssignStmt:
								for _, r := range e.Rhs {
									if id, ok := ast.Unparen(r).(*ast.Ident); ok && info.Uses[id] == bound {
										whole = true
									}
								}
							case *ast.ReturnStmt:
								for _, r := range e.Results {
									if id, ok := ast.Unparen(r).(*ast.Ident); ok && info.Uses[id] == bound {
										whole = true
									}
								}
							}
							return true
						})
						return whole, usesFields
					}
					whole, usesFields := analyseArm(&ast.BlockStmt{List: cc.Body}, bound)
					if whole {
						// handed whole to a method of its own (tc.checkFor(node)): that method is the arm
						for _, st := range cc.Body {
							es, ok := st.(*ast.ExprStmt)
							if !ok {
								continue
							}
							call, ok := es.X.(*ast.CallExpr)
							if !ok {
								continue
							}
							for _, hd := range c.allFuncDecls(rel) {
								if info.Defs[hd.Name] != types.Object(calleeFunc(call, info)) || calleeFunc(call, info) == self || hd.Name.IsExported() {
									continue
								}
								k := 0
								for _, fl := range hd.Type.Params.List {
									for _, nm := range fl.Names {
										if k < len(call.Args) {
											if id, ok := ast.Unparen(call.Args[k]).(*ast.Ident); ok && info.Uses[id] == bound {
												if ptv, ok := info.Types[fl.Type]; ok && types.Identical(ptv.Type, tv.Type) {
													whole, usesFields = analyseArm(hd.Body, info.Defs[nm])
												}
											}
										}
										k++
									}
								}
							}
						}
					}
					if whole || len(usesFields) == 0 {
						continue
					}
					// an arm that runs on into a generic descent after the switch (the function's own statements)
					if _, returns := armEnds(cc.Body, nil); !returns {
						exempt := false
						for si, st := range fd.Body.List {
							if st == ast.Stmt(ts) {
								after := &ast.BlockStmt{List: fd.Body.List[si+1:]}
								if sid, ok := ast.Unparen(subj).(*ast.Ident); ok && passesNode(after, info.Uses[sid], nil, info) {
									exempt = true
								}
							}
						}
						if exempt {
							continue
						}
					}
					arms++
					tname := types.TypeString(tv.Type, func(p *types.Package) string { return p.Name() })
					var missing []string
					for _, f := range fields {
						if !usesFields[f] {
							missing = append(missing, f.Name())
						}
					}
					key := c.declKey(rel, fd) + " arm " + tname + " covers-fields"
					if why, ok := coversExceptions[key+" "+strings.Join(missing, ",")]; ok && len(missing) > 0 {
						c.okTrivial(rule, key, cc.Pos(), "named exception: "+why)
						continue
					}
					c.check(len(missing) == 0, rule, key, cc.Pos(), "mentions every node-holding field",
						"handles "+tname+" by hand but never touches its field(s) "+strings.Join(missing, ", ")+": what lies below is never visited")
				}
				return true
			})
		}
	}
	c.floor(rule, "hand-written arms over node types with node-holding fields", floorArms, arms)
}
