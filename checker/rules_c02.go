package main

import (
	"fmt"
	"go/ast"
	"go/constant"
	"go/token"
	"go/types"
	"sort"
	"strings"
)

// scopeFacts resolves the scope API of one backend package.
type scopeFacts struct {
	rel       string
	info      *types.Info
	scopeType *types.Named
	push      map[*types.Func]bool // methods that add one frame (push, enter, pushForRange, ...)
	pop       map[*types.Func]bool
	set       map[*types.Func]bool
}

// methodsOf returns the declared methods of a named type by name.
func methodsOf(n *types.Named) map[string]*types.Func {
	out := map[string]*types.Func{}
	for i := 0; i < n.NumMethods(); i++ {
		out[n.Method(i).Name()] = n.Method(i)
	}
	return out
}

// getScopeFacts classifies the methods of the backend's scope type by what
// their bodies do to the frame stack: +1 (appends a frame), -1 (reslices off
// the last frame). Classification is structural, not by name.
func getScopeFacts(c *Ctx, rel string) *scopeFacts {
	p := c.pkg(rel)
	if p == nil {
		return nil
	}
	obj := p.Types.Scope().Lookup("scope")
	if obj == nil {
		c.fatalf("anchor: type %s.scope not found", rel)
		return nil
	}
	sf := &scopeFacts{rel: rel, info: p.TypesInfo, scopeType: obj.Type().(*types.Named),
		push: map[*types.Func]bool{}, pop: map[*types.Func]bool{}, set: map[*types.Func]bool{}}
	for _, fd := range c.allFuncDecls(rel) {
		if fd.Recv == nil || recvTypeName(fd.Recv.List[0].Type) != "scope" {
			continue
		}
		fn := p.TypesInfo.Defs[fd.Name].(*types.Func)
		delta := 0
		ast.Inspect(fd.Body, func(n ast.Node) bool {
			as, ok := n.(*ast.AssignStmt)
			if !ok || len(as.Rhs) != 1 {
				return true
			}
			switch r := ast.Unparen(as.Rhs[0]).(type) {
			case *ast.CallExpr:
				if id, ok := r.Fun.(*ast.Ident); ok && id.Name == "append" && len(r.Args) == 2 && r.Ellipsis == token.NoPos {
					delta++
				}
			case *ast.SliceExpr:
				// x = x[:len(x)-1]
				if r.Low == nil && r.High != nil {
					if be, ok := ast.Unparen(r.High).(*ast.BinaryExpr); ok && be.Op == token.SUB {
						if tv, ok := p.TypesInfo.Types[be.Y]; ok && tv.Value != nil && tv.Value.ExactString() == "1" {
							delta--
						}
					}
				}
			}
			return true
		})
		// methods that call a +1 method once (enter calls push)
		switch {
		case delta == 1:
			sf.push[fn] = true
		case delta == -1:
			sf.pop[fn] = true
		}
	}
	// one level of wrapping: a method whose body calls exactly one push method and no pop
	for _, fd := range c.allFuncDecls(rel) {
		if fd.Recv == nil || recvTypeName(fd.Recv.List[0].Type) != "scope" {
			continue
		}
		fn := p.TypesInfo.Defs[fd.Name].(*types.Func)
		if sf.push[fn] || sf.pop[fn] {
			continue
		}
		n := 0
		ast.Inspect(fd.Body, func(x ast.Node) bool {
			if call, ok := x.(*ast.CallExpr); ok {
				if cal := calleeFunc(call, p.TypesInfo); cal != nil && sf.push[cal] {
					n++
				}
			}
			return true
		})
		if n == 1 {
			sf.push[fn] = true
		}
		// a setter: stores into a map of the last frame
		ast.Inspect(fd.Body, func(x ast.Node) bool {
			if as, ok := x.(*ast.AssignStmt); ok && len(as.Lhs) == 1 {
				if ix, ok := as.Lhs[0].(*ast.IndexExpr); ok {
					if tv, ok := p.TypesInfo.Types[ix.X]; ok {
						if _, ok := tv.Type.Underlying().(*types.Map); ok {
							sf.set[fn] = true
						}
					}
				}
			}
			return true
		})
	}
	if len(sf.push) == 0 || len(sf.pop) == 0 {
		c.fatalf("anchor: %s.scope push/pop methods not identified (push=%d pop=%d)", rel, len(sf.push), len(sf.pop))
		return nil
	}
	return sf
}

const depthBase = 4 // bit index of depth 0; masks cover depths -4..+11

func depthMaskShift(m uint, d int) uint {
	if d > 0 {
		m <<= uint(d)
		if m >= 1<<16 {
			m = (m & (1<<16 - 1)) | 1<<15
		}
		return m
	}
	if d < 0 {
		lo := m & 1
		m >>= uint(-d)
		return m | lo
	}
	return m
}

func maskDepths(m uint) string {
	var ds []string
	for i := 0; i < 16; i++ {
		if m&(1<<uint(i)) != 0 {
			ds = append(ds, fmt.Sprint(i-depthBase))
		}
	}
	return "{" + strings.Join(ds, ",") + "}"
}

// depthFlow runs the push/pop depth analysis over a function body. onNode is
// called on the reporting pass with the state before each node.
func depthFlow(c *Ctx, sf *scopeFacts, nr *noRet, body *ast.BlockStmt, deferred map[string]int, onNode func(n ast.Node, st flowState)) *flowResult {
	apply := func(n ast.Node, st flowState) flowState {
		ast.Inspect(n, func(x ast.Node) bool {
			switch x := x.(type) {
			case *ast.FuncLit:
				return false
			case *ast.DeferStmt:
				return false
			case *ast.CallExpr:
				cal := calleeFunc(x, sf.info)
				if cal == nil {
					return true
				}
				d := 0
				if sf.push[cal] {
					d = 1
				} else if sf.pop[cal] {
					d = -1
				}
				if d != 0 {
					se := ast.Unparen(x.Fun).(*ast.SelectorExpr)
					k := types.ExprString(se.X)
					cur, ok := st[k]
					if !ok {
						cur = 1 << depthBase
					}
					st[k] = depthMaskShift(cur, d)
				}
			}
			return true
		})
		return st
	}
	return runFlow(body, nr.forInfo(sf.info), flowState{}, func(n ast.Node, st flowState, report bool) flowState {
		if report && onNode != nil {
			onNode(n, st)
		}
		return apply(n, st)
	})
}

// R02a / R04d-a: push and pop are paired in every function of the backend.
func rulePairing(c *Ctx, rule, rel string) {
	rulePairingSF(c, rule, rel, getScopeFacts(c, rel), 1)
}

// rulePairingSF is the pairing analysis for any acquire/release pair of methods (sf.push / sf.pop).
func rulePairingSF(c *Ctx, rule, rel string, sf *scopeFacts, floorSites int) {
	if sf == nil {
		return
	}
	nr := newNoRet(c)
	sites := 0
	type unit struct {
		fd   *ast.FuncDecl
		body *ast.BlockStmt
		key  string
	}
	var units []unit
	for _, fd := range c.allFuncDecls(rel) {
		if fd.Recv != nil && recvTypeName(fd.Recv.List[0].Type) == "scope" {
			continue // the scope API itself
		}
		units = append(units, unit{fd, fd.Body, c.declKey(rel, fd)})
		// a function literal that is not deferred is a unit of its own (it must balance by itself); a
		// deferred literal's pushes and pops count at the exits of the unit that defers it
		nlit := 0
		deferredLit := map[*ast.FuncLit]bool{}
		ast.Inspect(fd.Body, func(x ast.Node) bool {
			if d, ok := x.(*ast.DeferStmt); ok {
				if fl, ok := d.Call.Fun.(*ast.FuncLit); ok {
					deferredLit[fl] = true
				}
			}
			if fl, ok := x.(*ast.FuncLit); ok && !deferredLit[fl] {
				nlit++
				units = append(units, unit{fd, fl.Body, fmt.Sprintf("%s$lit%d", c.declKey(rel, fd), nlit)})
			}
			return true
		})
	}
	for _, u := range units {
		fd, ubody := u.fd, u.body
		// deferred pops count at every exit
		deferred := map[string]int{}
		hasPushPop := false
		count := func(call *ast.CallExpr, asDeferred bool) {
			if cal := calleeFunc(call, sf.info); cal != nil && (sf.pop[cal] || sf.push[cal]) {
				hasPushPop = true
				if asDeferred {
					se := ast.Unparen(call.Fun).(*ast.SelectorExpr)
					if sf.pop[cal] {
						deferred[types.ExprString(se.X)]--
					} else {
						deferred[types.ExprString(se.X)]++
					}
				}
			}
		}
		ast.Inspect(ubody, func(x ast.Node) bool {
			switch n := x.(type) {
			case *ast.FuncLit:
				return false // its own unit
			case *ast.DeferStmt:
				if fl, ok := n.Call.Fun.(*ast.FuncLit); ok {
					ast.Inspect(fl.Body, func(y ast.Node) bool {
						if _, nested := y.(*ast.FuncLit); nested {
							return false
						}
						if call, ok := y.(*ast.CallExpr); ok {
							count(call, true)
						}
						return true
					})
				} else {
					count(n.Call, true)
				}
				return false
			case *ast.CallExpr:
				count(n, false)
			}
			return true
		})
		if !hasPushPop {
			continue
		}
		c.seen(u.key)
		negAt := map[string]token.Pos{}
		res := depthFlow(c, sf, nr, ubody, deferred, nil)
		// negativity: inspect every block out-state
		for b, st := range res.out {
			for k, m := range st {
				if m&(1<<depthBase-1) != 0 {
					if len(b.Nodes) > 0 {
						negAt[k] = b.Nodes[len(b.Nodes)-1].Pos()
					} else {
						negAt[k] = fd.Pos()
					}
				}
			}
		}
		keys := map[string]bool{}
		for _, st := range res.out {
			for k := range st {
				keys[k] = true
			}
		}
		for k := range deferred {
			keys[k] = true
		}
		for _, k := range sortedKeys(keys) {
			sites++
			key := fmt.Sprintf("%s %s", u.key, k)
			if p, ok := negAt[k]; ok {
				c.bad(rule, key+"#nonneg", p, "a path pops "+k+" below the depth the function was entered with; the caller's frame (or the data frame) is discarded")
			} else {
				c.ok(rule, key+"#nonneg", fd.Pos(), "depth of "+k+" never drops below the entry depth")
			}
			// balance is required for scopes that outlive the function (fields), not for locals
			root := strings.SplitN(k, ".", 2)[0]
			isLocal := false
			ast.Inspect(fd.Body, func(x ast.Node) bool {
				if id, ok := x.(*ast.Ident); ok && id.Name == root {
					if v, ok := sf.info.Defs[id].(*types.Var); ok && !v.IsField() {
						isLocal = true // declared inside the body: not a receiver or parameter
					}
				}
				return true
			})
			if isLocal {
				continue // the scope belongs to an object created in this function and does not outlive it
			}
			var bad []string
			var badPos token.Pos
			for _, b := range res.exitBlocks() {
				if blockEndsInNoReturn(b, nr.forInfo(sf.info)) {
					continue // the render is abandoned
				}
				m, ok := res.out[b][k]
				if !ok {
					m = 1 << depthBase
				}
				m = depthMaskShift(m, deferred[k])
				if m != 1<<depthBase {
					bad = append(bad, maskDepths(m))
					if len(b.Nodes) > 0 {
						badPos = b.Nodes[len(b.Nodes)-1].Pos()
					} else {
						badPos = fd.Body.Rbrace
					}
				}
			}
			if len(bad) > 0 {
				sort.Strings(bad)
				c.bad(rule, key+"#balanced", badPos, "a returning path leaves "+k+" at relative depth "+strings.Join(bad, " or ")+": a frame leaks to, or is taken from, the caller")
			} else {
				c.ok(rule, key+"#balanced", fd.Pos(), "every returning path restores the depth of "+k+" (raising paths abandon the render)")
			}
		}
	}
	c.floor(rule, "functions x scope expressions with push/pop", floorSites, sites)
}

func ruleR02a(c *Ctx) { rulePairing(c, "R02a", "soyhtml") }

// blockFields derives, from the parser, the AST fields that hold a command
// body (a list produced by itemList): these are the language's blocks.
func blockFields(c *Ctx) map[*types.Var]string {
	p := c.pkg("parse")
	if p == nil {
		return nil
	}
	info := p.TypesInfo
	var itemList *types.Func
	for _, fd := range c.allFuncDecls("parse") {
		if fd.Name.Name == "itemList" {
			itemList, _ = info.Defs[fd.Name].(*types.Func)
		}
	}
	if itemList == nil {
		c.fatalf("anchor: parse.(*tree).itemList not found")
		return nil
	}
	nr := newNoRet(c)
	out := map[*types.Var]string{}
	isList := func(e ast.Expr) bool {
		call, ok := ast.Unparen(e).(*ast.CallExpr)
		return ok && calleeFunc(call, info) == itemList
	}
	for _, fd := range c.allFuncDecls("parse") {
		const isBlock, notBlock = 1, 2
		runFlow(fd.Body, nr.forInfo(info), flowState{}, func(n ast.Node, st flowState, report bool) flowState {
			// uses first (composite literals), then definitions
			if report {
				ast.Inspect(n, func(x ast.Node) bool {
					cl, ok := x.(*ast.CompositeLit)
					if !ok {
						return true
					}
					tv, ok := info.Types[cl]
					if !ok {
						return true
					}
					stt, ok := tv.Type.Underlying().(*types.Struct)
					if !ok {
						return true
					}
					if rel, _, ok := relPkgOfType(tv.Type); !ok || rel != "ast" {
						return true
					}
					for i, el := range cl.Elts {
						var fv *types.Var
						val := el
						if kv, ok := el.(*ast.KeyValueExpr); ok {
							if id, ok := kv.Key.(*ast.Ident); ok {
								fv, _ = info.Uses[id].(*types.Var)
							}
							val = kv.Value
						} else if i < stt.NumFields() {
							fv = stt.Field(i)
						}
						if fv == nil {
							continue
						}
						block := isList(val)
						if id, ok := ast.Unparen(val).(*ast.Ident); ok {
							if o := info.Uses[id]; o != nil && st[fmt.Sprint(o.Pos())]&isBlock != 0 {
								block = true
							}
						}
						if block {
							_, tn, _ := relPkgOfType(tv.Type)
							out[fv] = tn + "." + fv.Name()
						}
					}
					return true
				})
			}
			var lhs []ast.Expr
			var rhs []ast.Expr
			switch s := n.(type) {
			case *ast.AssignStmt:
				lhs, rhs = s.Lhs, s.Rhs
			case *ast.DeclStmt:
				if gd, ok := s.Decl.(*ast.GenDecl); ok {
					for _, sp := range gd.Specs {
						if vs, ok := sp.(*ast.ValueSpec); ok {
							for i, nm := range vs.Names {
								lhs = append(lhs, nm)
								if i < len(vs.Values) {
									rhs = append(rhs, vs.Values[i])
								} else {
									rhs = append(rhs, nil)
								}
							}
						}
					}
				}
			case *ast.ValueSpec:
				for i, nm := range s.Names {
					lhs = append(lhs, nm)
					if i < len(s.Values) {
						rhs = append(rhs, s.Values[i])
					} else {
						rhs = append(rhs, nil)
					}
				}
			}
			if len(lhs) == len(rhs) {
				for i, l := range lhs {
					id, ok := ast.Unparen(l).(*ast.Ident)
					if !ok {
						continue
					}
					o := info.Defs[id]
					if o == nil {
						o = info.Uses[id]
					}
					if o == nil {
						continue
					}
					// strong update: the masks join (|) at control-flow merges only
					delete(st, fmt.Sprint(o.Pos()))
					if rhs[i] != nil && isList(rhs[i]) {
						st[fmt.Sprint(o.Pos())] = isBlock
					} else {
						st[fmt.Sprint(o.Pos())] = notBlock
					}
				}
			}
			return st
		})
	}
	return out
}

// walkFuncs: the backend's tree walkers (functions taking an ast.Node-like
// argument that (transitively) reach the main walk type switch).
func fieldOfExpr(e ast.Expr, info *types.Info) *types.Var {
	se, ok := ast.Unparen(e).(*ast.SelectorExpr)
	if !ok {
		return nil
	}
	if sel, ok := info.Selections[se]; ok && sel.Kind() == types.FieldVal {
		v, _ := sel.Obj().(*types.Var)
		return v
	}
	return nil
}

// ruleBlocks: every walk of a block field happens inside its own frame.
func ruleBlocks(c *Ctx, rule, rel string, minSites int) {
	sf := getScopeFacts(c, rel)
	fields := blockFields(c)
	if sf == nil || fields == nil {
		return
	}
	c.floor(rule, "block fields derived from the parser", 8, len(fields))
	nr := newNoRet(c)
	info := sf.info
	// the scope expression of the backend's state: the field of type scope in struct state
	scopeExprOK := func(k string) bool { return strings.Contains(k, ".") }
	type site struct {
		key   string
		pos   token.Pos
		depth uint
		field string
	}
	var sites []site
	listClauseFramed := false
	listClauseSeen := false
	for _, fd := range c.allFuncDecls(rel) {
		if fd.Recv == nil {
			continue
		}
		// deferred pops do not matter for "is there a frame at this site"
		ord := map[string]int{}
		// map from node position to enclosing *ast.ListNode type-switch clause
		inListClause := map[ast.Node]bool{}
		ast.Inspect(fd.Body, func(x ast.Node) bool {
			ts, ok := x.(*ast.TypeSwitchStmt)
			if !ok {
				return true
			}
			for _, cs := range ts.Body.List {
				cc := cs.(*ast.CaseClause)
				for _, te := range cc.List {
					if tv, ok := info.Types[te]; ok {
						if _, tn, ok := relPkgOfType(tv.Type); ok && tn == "ListNode" {
							for _, s := range cc.Body {
								ast.Inspect(s, func(y ast.Node) bool {
									if call, ok := y.(*ast.CallExpr); ok {
										inListClause[call] = true
									}
									return true
								})
							}
						}
					}
				}
			}
			return true
		})
		depthFlow(c, sf, nr, fd.Body, nil, func(n ast.Node, st flowState) {
			// local copy of the running state within the node is not needed: calls are whole nodes or in expressions
			ast.Inspect(n, func(x ast.Node) bool {
				if _, ok := x.(*ast.FuncLit); ok {
					return false
				}
				call, ok := x.(*ast.CallExpr)
				if !ok {
					return true
				}
				cal := calleeFunc(call, info)
				if cal == nil || cal.Pkg() == nil || cal.Pkg().Path() != modPath+"/"+rel {
					return true
				}
				// depth of the state's scope at this point
				var depth uint = 1 << depthBase
				for k, m := range st {
					if scopeExprOK(k) {
						depth = m
					}
				}
				for _, a := range call.Args {
					if fv := fieldOfExpr(a, info); fv != nil {
						if name, ok := fields[fv]; ok {
							ord[name]++
							sites = append(sites, site{fmt.Sprintf("%s walks %s#%d", c.declKey(rel, fd), name, ord[name]), call.Pos(), depth, name})
						}
					}
				}
				if inListClause[call] {
					// a recursive walk of the list's elements inside the ListNode clause
					sig := cal.Type().(*types.Signature)
					if sig.Params().Len() >= 1 {
						listClauseSeen = true
						if depth&(1<<depthBase) == 0 && depth != 0 {
							listClauseFramed = true
						}
					}
				}
				return true
			})
		})
	}
	// helper-based list walking (soyjs.visitChildren): a function called from the ListNode clause
	// whose own body brackets its loop is also accepted: handled by checking the callee's body.
	if !listClauseFramed {
		listClauseFramed = listClauseCalleeFramed(c, sf, nr, rel)
	}
	if !listClauseSeen {
		c.fatalf("anchor: no *ast.ListNode clause with a recursive walk found in %s", rel)
	}
	for _, s := range sites {
		c.seen(strings.SplitN(s.key, " ", 2)[0])
		framed := s.depth&(1<<depthBase) == 0 && s.depth != 0
		switch {
		case strings.HasPrefix(s.field, "TemplateNode."):
			// named exception (one field): a template body is entered only through a state whose scope has
			// just been enter()ed (R02c checks every state literal), so it already runs in its own frame.
			c.ok(rule, s.key, s.pos, "template body: the frame is established by scope.enter at every state construction (R02c)")
		case listClauseFramed:
			c.ok(rule, s.key, s.pos, "the *ast.ListNode case brackets its elements with push/pop, and every block field holds a list: the body runs in its own frame")
		case framed:
			c.ok(rule, s.key, s.pos, "walked between a push and its pop (relative depth "+maskDepths(s.depth)+")")
		default:
			c.bad(rule, s.key, s.pos, "the body in "+s.field+" is walked in the enclosing frame (relative depth "+maskDepths(s.depth)+"): a {let} inside it stays visible after the block ends and shadows outer names there")
		}
	}
	c.floor(rule, "walk sites of block fields", minSites, len(sites))
}

// listClauseCalleeFramed: the ListNode clause delegates to a helper (e.g.
// visitChildren) whose body pushes before and pops after walking the children.
func listClauseCalleeFramed(c *Ctx, sf *scopeFacts, nr *noRet, rel string) bool {
	info := sf.info
	ok := false
	for _, fd := range c.allFuncDecls(rel) {
		ast.Inspect(fd.Body, func(x ast.Node) bool {
			ts, isTS := x.(*ast.TypeSwitchStmt)
			if !isTS {
				return true
			}
			for _, cs := range ts.Body.List {
				cc := cs.(*ast.CaseClause)
				isList := false
				for _, te := range cc.List {
					if tv, k := info.Types[te]; k {
						if _, tn, k := relPkgOfType(tv.Type); k && tn == "ListNode" {
							isList = true
						}
					}
				}
				if !isList || len(cc.List) != 1 {
					continue
				}
				for _, s := range cc.Body {
					ast.Inspect(s, func(y ast.Node) bool {
						call, k := y.(*ast.CallExpr)
						if !k {
							return true
						}
						cal := calleeFunc(call, info)
						if cal == nil {
							return true
						}
						for _, hd := range c.allFuncDecls(rel) {
							if info.Defs[hd.Name] != cal {
								continue
							}
							// inside the helper: every call that passes a child on must see depth >= 1,
							// counting a deferred pop as pairing
							framedAll, any := true, false
							depthFlow(c, sf, nr, hd.Body, nil, func(n ast.Node, st flowState) {
								ast.Inspect(n, func(z ast.Node) bool {
									if cc2, k := z.(*ast.CallExpr); k {
										if c2 := calleeFunc(cc2, info); c2 != nil && c2.Pkg() != nil && c2.Pkg().Path() == modPath+"/"+rel && !sf.push[c2] && !sf.pop[c2] {
											if sig := c2.Type().(*types.Signature); sig.Params().Len() >= 1 {
												any = true
												var depth uint = 1 << depthBase
												for _, m := range st {
													depth = m
												}
												if depth&(1<<depthBase) != 0 {
													framedAll = false
												}
											}
										}
									}
									return true
								})
							})
							if any && framedAll {
								ok = true
							}
						}
						return true
					})
				}
			}
			return true
		})
	}
	return ok
}

func ruleR02b(c *Ctx) { ruleBlocks(c, "R02b", "soyhtml", 8) }

// R02c / R08b: callee isolation and scope-frame freshness.
//
// Typestate of every local scope variable: fresh (built from a map allocated
// here), shared (holds caller data or the caller's frames), pushed (a frame
// allocated by the renderer is on top). set() may run only on fresh/pushed;
// a new state may only be given a pushed scope; push allocates its map; the
// data="all" view is capped so the callee's push cannot overwrite the caller.
func ruleScopeTypestate(c *Ctx, rule string) {
	sf := getScopeFacts(c, "soyhtml")
	if sf == nil {
		return
	}
	p := c.pkg("soyhtml")
	info := p.TypesInfo
	nr := newNoRet(c)
	const fresh, shared, pushed = 1, 2, 4
	stateObj := p.Types.Scope().Lookup("state")
	frameObj := p.Types.Scope().Lookup("scopeframe")
	if stateObj == nil || frameObj == nil {
		c.fatalf("anchor: soyhtml.state / soyhtml.scopeframe not found")
		return
	}
	isScope := func(t types.Type) bool {
		if pt, ok := t.(*types.Pointer); ok {
			t = pt.Elem()
		}
		return types.Identical(t, sf.scopeType)
	}
	// constructors: functions returning scope whose frame literal takes a parameter
	constructors := map[*types.Func]bool{}
	nLits, nSets, nFrames, nViews := 0, 0, 0, 0
	for _, fd := range c.allFuncDecls("soyhtml") {
		fn := info.Defs[fd.Name].(*types.Func)
		sig := fn.Type().(*types.Signature)
		returnsScope := sig.Results().Len() == 1 && isScope(sig.Results().At(0).Type())
		params := map[types.Object]bool{}
		for i := 0; i < sig.Params().Len(); i++ {
			params[sig.Params().At(i)] = true
		}
		// (c) scopeframe literals
		ast.Inspect(fd.Body, func(x ast.Node) bool {
			cl, ok := x.(*ast.CompositeLit)
			if !ok {
				return true
			}
			tv, ok := info.Types[cl]
			if !ok || !types.Identical(tv.Type, frameObj.Type()) {
				return true
			}
			nFrames++
			var vars ast.Expr
			st := frameObj.Type().Underlying().(*types.Struct)
			for i, el := range cl.Elts {
				if kv, ok := el.(*ast.KeyValueExpr); ok {
					if id, ok := kv.Key.(*ast.Ident); ok && id.Name == st.Field(0).Name() {
						vars = kv.Value
					}
				} else if i == 0 {
					vars = el
				}
			}
			key := fmt.Sprintf("%s scopeframe-literal", c.declKey("soyhtml", fd))
			switch v := ast.Unparen(vars).(type) {
			case *ast.CallExpr:
				if id, ok := v.Fun.(*ast.Ident); ok && id.Name == "make" {
					c.ok(rule, key, cl.Pos(), "the new frame's map is allocated here (make)")
					return true
				}
			case *ast.Ident:
				if params[info.Uses[v]] && returnsScope {
					constructors[fn] = true
					c.ok(rule, key, cl.Pos(), "scope constructor: wraps its argument; callers are tracked by typestate")
					return true
				}
			case nil:
				c.ok(rule, key, cl.Pos(), "frame without a map (nil): set on it faults instead of writing")
				return true
			}
			c.bad(rule, key, cl.Pos(), "a scope frame is built around a map that is neither allocated here nor a constructor argument; set() would write into it")
			return true
		})
		// (d) views: methods of scope returning scope
		if returnsScope && fd.Recv != nil && !constructors[fn] {
			ast.Inspect(fd.Body, func(x ast.Node) bool {
				if _, ok := x.(*ast.FuncLit); ok {
					return false
				}
				rs, ok := x.(*ast.ReturnStmt)
				if !ok || len(rs.Results) != 1 {
					return true
				}
				nViews++
				key := fmt.Sprintf("%s return#%d", c.declKey("soyhtml", fd), nViews)
				se, ok := ast.Unparen(rs.Results[0]).(*ast.SliceExpr)
				if ok && se.Slice3 && se.High != nil && se.Max != nil && types.ExprString(se.High) == types.ExprString(se.Max) {
					c.ok(rule, key, rs.Pos(), "the view of the caller's frames is capped (cap == len): the callee's push reallocates instead of overwriting the caller's frames")
				} else {
					c.bad(rule, key, rs.Pos(), "a scope view is returned without a capacity cap: a push by the callee can overwrite frames the caller still uses")
				}
				return true
			})
		}
	}
	// state-building helpers: a function whose state literal takes its scope from one of its parameters
	// hands the typestate obligation to its call sites
	helperParam := map[*types.Func]int{}
	for _, fd := range c.allFuncDecls("soyhtml") {
		fn := info.Defs[fd.Name].(*types.Func)
		sig := fn.Type().(*types.Signature)
		ast.Inspect(fd.Body, func(x ast.Node) bool {
			cl, ok := x.(*ast.CompositeLit)
			if !ok {
				return true
			}
			tv, ok := info.Types[cl]
			if !ok || !types.Identical(tv.Type, stateObj.Type()) {
				return true
			}
			for _, el := range cl.Elts {
				kv, ok := el.(*ast.KeyValueExpr)
				if !ok {
					continue
				}
				kid, ok := kv.Key.(*ast.Ident)
				if !ok {
					continue
				}
				if fv, ok := info.Uses[kid].(*types.Var); !ok || !isScope(fv.Type()) {
					continue
				}
				if id, ok := ast.Unparen(kv.Value).(*ast.Ident); ok {
					for i := 0; i < sig.Params().Len(); i++ {
						if sig.Params().At(i) == info.Uses[id] {
							helperParam[fn] = i
						}
					}
				}
			}
			return true
		})
	}
	for _, fd := range c.allFuncDecls("soyhtml") {
		// local scope variables
		locals := map[types.Object]bool{}
		ast.Inspect(fd.Body, func(x ast.Node) bool {
			if id, ok := x.(*ast.Ident); ok {
				if v, ok := info.Defs[id].(*types.Var); ok && !v.IsField() && isScope(v.Type()) {
					locals[v] = true
				}
			}
			return true
		})
		hasLit := false
		ast.Inspect(fd.Body, func(x ast.Node) bool {
			if cl, ok := x.(*ast.CompositeLit); ok {
				if tv, ok := info.Types[cl]; ok && types.Identical(tv.Type, stateObj.Type()) {
					hasLit = true
				}
			}
			return true
		})
		ast.Inspect(fd.Body, func(x ast.Node) bool {
			if call, ok := x.(*ast.CallExpr); ok {
				if _, isHelper := helperParam[calleeFunc(call, info)]; isHelper && calleeFunc(call, info) != nil {
					hasLit = true
				}
			}
			return true
		})
		if len(locals) == 0 && !hasLit {
			continue
		}
		c.seen(c.declKey("soyhtml", fd))
		classify := func(e ast.Expr) uint {
			call, ok := ast.Unparen(e).(*ast.CallExpr)
			if !ok {
				return shared
			}
			if cal := calleeFunc(call, info); cal != nil && constructors[cal] && len(call.Args) == 1 {
				if mk, ok := ast.Unparen(call.Args[0]).(*ast.CallExpr); ok {
					if id, ok := mk.Fun.(*ast.Ident); ok && id.Name == "make" {
						return fresh
					}
				}
			}
			return shared
		}
		ordSet, ordLit := 0, 0
		runFlow(fd.Body, nr.forInfo(info), flowState{}, func(n ast.Node, st flowState, report bool) flowState {
			k := func(o types.Object) string { return fmt.Sprint(o.Pos()) }
			// uses
			ast.Inspect(n, func(x ast.Node) bool {
				switch x := x.(type) {
				case *ast.FuncLit:
					return false
				case *ast.CompositeLit:
					tv, ok := info.Types[x]
					if !ok || !types.Identical(tv.Type, stateObj.Type()) || !report {
						return true
					}
					ordLit++
					nLits++
					key := fmt.Sprintf("%s state-literal#%d", c.declKey("soyhtml", fd), ordLit)
					var ctx ast.Expr
					for _, el := range x.Elts {
						if kv, ok := el.(*ast.KeyValueExpr); ok {
							if id, ok := kv.Key.(*ast.Ident); ok {
								if fv, ok := info.Uses[id].(*types.Var); ok && isScope(fv.Type()) {
									ctx = kv.Value
								}
							}
						} else {
							c.unk(rule, key, x.Pos(), "positional state literal: the scope field cannot be identified")
							return true
						}
					}
					if ctx == nil {
						c.ok(rule, key, x.Pos(), "state built without a scope (nil): nothing of the caller's is reachable through it")
						return true
					}
					id, ok := ast.Unparen(ctx).(*ast.Ident)
					if ok {
						if _, isHelper := helperParam[info.Defs[fd.Name].(*types.Func)]; isHelper && !locals[info.Uses[id]] {
							c.ok(rule, key, x.Pos(), "state-building helper: the scope is its parameter; every call site is checked to pass an entered scope")
							return true
						}
					}
					if !ok || !locals[info.Uses[id]] {
						c.bad(rule, key, x.Pos(), "the new state's scope is not a local scope variable ("+types.ExprString(ctx)+"): the callee would share the caller's frames")
						return true
					}
					m := st[k(info.Uses[id])]
					if m == pushed {
						c.ok(rule, key, x.Pos(), "the scope handed to the new state has a renderer-allocated frame on top on every path (enter/push after the last assignment)")
					} else {
						c.bad(rule, key, x.Pos(), "the scope handed to the new state may not have a fresh frame on top (typestate "+tsName(m)+"): the callee's {let}/loop variables would be written into the caller's data map")
					}
				case *ast.CallExpr:
					cal := calleeFunc(x, info)
					if pi, isHelper := helperParam[cal]; isHelper && report && cal != nil {
						args := x.Args
						if pi < len(args) {
							ordLit++
							nLits++
							key := fmt.Sprintf("%s passes-scope-to %s#%d", c.declKey("soyhtml", fd), cal.Name(), ordLit)
							aid, ok := ast.Unparen(args[pi]).(*ast.Ident)
							if ok && locals[info.Uses[aid]] && st[k(info.Uses[aid])] == pushed {
								c.ok(rule, key, x.Pos(), "the scope passed to the state-building helper has a renderer-allocated frame on top on every path")
							} else {
								c.bad(rule, key, x.Pos(), "the scope passed to the state-building helper may not have a fresh frame on top: the callee's variables would be written into the caller's data map")
							}
						}
						return true
					}
					if cal == nil || !sf.set[cal] || !report {
						return true
					}
					o := recvIdentObj(x, info)
					if o == nil || !locals[o] {
						return true
					}
					ordSet++
					nSets++
					key := fmt.Sprintf("%s %s.set#%d", c.declKey("soyhtml", fd), o.Name(), ordSet)
					m := st[k(o)]
					if m != 0 && m&shared == 0 {
						c.ok(rule, key, x.Pos(), "set runs on a scope whose top frame was allocated by the renderer (typestate "+tsName(m)+")")
					} else {
						c.bad(rule, key, x.Pos(), "set may run on a scope whose top frame is caller data (typestate "+tsName(m)+"): the caller's map would be modified")
					}
				}
				return true
			})
			// transfers
			ast.Inspect(n, func(x ast.Node) bool {
				switch x := x.(type) {
				case *ast.FuncLit:
					return false
				case *ast.CallExpr:
					cal := calleeFunc(x, info)
					o := recvIdentObj(x, info)
					if cal != nil && o != nil && locals[o] {
						if sf.push[cal] {
							st[k(o)] = pushed
						} else if sf.pop[cal] {
							st[k(o)] = shared
						}
					}
				}
				return true
			})
			var lhs, rhs []ast.Expr
			switch s := n.(type) {
			case *ast.AssignStmt:
				lhs, rhs = s.Lhs, s.Rhs
			case *ast.ValueSpec:
				for i, nm := range s.Names {
					lhs = append(lhs, nm)
					if i < len(s.Values) {
						rhs = append(rhs, s.Values[i])
					} else {
						rhs = append(rhs, nil)
					}
				}
			case *ast.DeclStmt:
				if gd, ok := s.Decl.(*ast.GenDecl); ok {
					for _, sp := range gd.Specs {
						if vs, ok := sp.(*ast.ValueSpec); ok {
							for i, nm := range vs.Names {
								lhs = append(lhs, nm)
								if i < len(vs.Values) {
									rhs = append(rhs, vs.Values[i])
								} else {
									rhs = append(rhs, nil)
								}
							}
						}
					}
				}
			}
			if len(lhs) == len(rhs) {
				for i, l := range lhs {
					id, ok := ast.Unparen(l).(*ast.Ident)
					if !ok {
						continue
					}
					o := info.Defs[id]
					if o == nil {
						o = info.Uses[id]
					}
					if o == nil || !locals[o] {
						continue
					}
					if rhs[i] == nil {
						st[k(o)] = fresh // zero value: nil scope
					} else {
						st[k(o)] = classify(rhs[i])
					}
				}
			}
			return st
		})
	}
	c.floor(rule, "state literals", 3, nLits)
	c.floor(rule, "set calls on local scopes", 2, nSets)
	c.floor(rule, "scope frame literals", 2, nFrames)
	c.floor(rule, "capped scope views", 1, nViews)
}

func tsName(m uint) string {
	var s []string
	if m&1 != 0 {
		s = append(s, "fresh")
	}
	if m&2 != 0 {
		s = append(s, "shared")
	}
	if m&4 != 0 {
		s = append(s, "pushed")
	}
	if len(s) == 0 {
		return "unassigned"
	}
	return strings.Join(s, "|")
}

func ruleR02c(c *Ctx) { ruleScopeTypestate(c, "R02c") }
func ruleR08b(c *Ctx) { ruleScopeTypestate(c, "R08b") }

// R02d: the loop helper functions look up exactly the keys the loop sets.
func ruleR02d(c *Ctx) {
	p := c.pkg("soyhtml")
	sf := getScopeFacts(c, "soyhtml")
	if p == nil || sf == nil {
		return
	}
	info := p.TypesInfo
	suffixes := func(n ast.Node, viaSet bool) map[string]bool {
		out := map[string]bool{}
		ast.Inspect(n, func(x ast.Node) bool {
			be, ok := x.(*ast.BinaryExpr)
			if !ok || be.Op != token.ADD {
				return true
			}
			if v := info.Types[be.Y].Value; v != nil && v.Kind() == constant.String {
				out[constant.StringVal(v)] = true
			}
			return true
		})
		return out
	}
	goCases, _ := walkCaseTypes(c, "soyhtml", "state.walk")
	if goCases == nil || goCases["ForNode"] == nil {
		c.fatalf("anchor: ForNode case of soyhtml walk not found")
		return
	}
	// the arm itself, or the helper it hands the loop to: only helpers that are given the loop node are followed
	// (the generic walker is called from every arm)
	set := map[string]bool{}
	for i, n := range c.nodeWithHelpers("soyhtml", goCases["ForNode"], 1) {
		if i > 0 && !takesNodeType(c, "soyhtml", n, "ForNode") {
			continue
		}
		for k := range suffixes(n, true) {
			set[k] = true
		}
	}
	looked := map[string]bool{}
	init := c.mustVarInit("soyhtml", "loopFuncs")
	if cl, ok := init.(*ast.CompositeLit); ok {
		for _, el := range cl.Elts {
			kv, ok := el.(*ast.KeyValueExpr)
			if !ok {
				continue
			}
			if id, ok := kv.Value.(*ast.Ident); ok {
				for _, fd := range c.allFuncDecls("soyhtml") {
					if info.Defs[fd.Name] == info.Uses[id] {
						for k := range suffixes(fd.Body, false) {
							looked[k] = true
						}
					}
				}
			}
		}
	}
	for _, k := range sortedKeys(looked) {
		c.check(set[k], "R02d", "loop-key "+k, init.Pos(), "looked up by a loop function and set by the loop", "a loop function looks up key suffix "+k+" which the loop never sets: index()/isFirst()/isLast() fail or read a stale value")
	}
	c.floor("R02d", "loop key suffixes", 2, len(looked))
}

// R02e: a called template runs on a state of its own; R02f: every {param} is bound unconditionally.
func ruleR02e(c *Ctx) {
	p := c.pkg("soyhtml")
	sf := getScopeFacts(c, "soyhtml")
	fd := c.mustFunc("soyhtml", "state.evalCall")
	if p == nil || sf == nil || fd == nil {
		return
	}
	info := p.TypesInfo
	stateObj := p.Types.Scope().Lookup("state")
	var recvObj types.Object
	if len(fd.Recv.List[0].Names) == 1 {
		recvObj = info.Defs[fd.Recv.List[0].Names[0]]
	}
	// the callee's template: a value obtained from the registry lookup
	tmplVars := map[types.Object]bool{}
	ast.Inspect(fd.Body, func(x ast.Node) bool {
		switch s := x.(type) {
		case *ast.AssignStmt:
			if len(s.Rhs) == 1 {
				if call, ok := ast.Unparen(s.Rhs[0]).(*ast.CallExpr); ok {
					if cal := calleeFunc(call, info); cal != nil && cal.Name() == "Template" {
						if id, ok := s.Lhs[0].(*ast.Ident); ok {
							tmplVars[info.Defs[id]] = true
						}
					}
				}
			}
		case *ast.ValueSpec:
			if len(s.Values) == 1 {
				if call, ok := ast.Unparen(s.Values[0]).(*ast.CallExpr); ok {
					if cal := calleeFunc(call, info); cal != nil && cal.Name() == "Template" {
						tmplVars[info.Defs[s.Names[0]]] = true
					}
				}
			}
		}
		return true
	})
	mentionsTmpl := func(e ast.Expr) bool {
		found := false
		ast.Inspect(e, func(x ast.Node) bool {
			if id, ok := x.(*ast.Ident); ok && tmplVars[info.Uses[id]] {
				found = true
			}
			return true
		})
		return found
	}
	n := 0
	ast.Inspect(fd.Body, func(x ast.Node) bool {
		call, ok := x.(*ast.CallExpr)
		if !ok || len(call.Args) != 1 || !mentionsTmpl(call.Args[0]) {
			return true
		}
		se, ok := ast.Unparen(call.Fun).(*ast.SelectorExpr)
		if !ok {
			return true
		}
		cal := calleeFunc(call, info)
		if cal == nil || cal.Type().(*types.Signature).Recv() == nil {
			return true
		}
		if rt := namedOf(cal.Type().(*types.Signature).Recv().Type()); rt == nil || rt.Obj() != stateObj {
			return true
		}
		n++
		key := "soyhtml.state.evalCall#callee-on-own-state"
		id, isID := ast.Unparen(se.X).(*ast.Ident)
		switch {
		case !isID:
			c.unk("R02e", key, call.Pos(), "the state the callee is walked on is not a plain variable")
		case info.Uses[id] == recvObj:
			c.bad("R02e", key, call.Pos(), "the called template is walked on the caller's own state: whatever the callee sets on it (autoescape mode, current template, scope) must be restored by hand on every exit, and is not")
		default:
			init := resolveLocalInit(id, fd.Body, info)
			isStateLit := func(e ast.Expr) bool {
				if u, ok := ast.Unparen(e).(*ast.UnaryExpr); ok && u.Op == token.AND {
					if cl, ok := u.X.(*ast.CompositeLit); ok {
						if tv, ok := info.Types[cl]; ok && types.Identical(tv.Type, stateObj.Type()) {
							return true
						}
					}
				}
				return false
			}
			fresh := isStateLit(init)
			if call, ok := ast.Unparen(init).(*ast.CallExpr); ok && !fresh {
				// a helper all of whose returns are newly built states
				if cal := calleeFunc(call, info); cal != nil {
					for _, hd := range c.allFuncDecls("soyhtml") {
						if info.Defs[hd.Name] != cal {
							continue
						}
						rets, lits := 0, 0
						ast.Inspect(hd.Body, func(y ast.Node) bool {
							if r, ok := y.(*ast.ReturnStmt); ok && len(r.Results) == 1 {
								rets++
								if isStateLit(resolveLocalInit(r.Results[0], hd.Body, info)) {
									lits++
								}
							}
							return true
						})
						fresh = rets > 0 && rets == lits
					}
				}
			}
			c.check(fresh, "R02e", key, call.Pos(), "the called template is walked on a newly built state", "the state the callee is walked on is not a newly built state literal")
		}
		return true
	})
	c.floor("R02e", "walks of a called template", 1, n)
	// R02f: each {param} kind binds its key on every non-raising path of its case
	nr := newNoRet(c)
	np := 0
	ast.Inspect(fd.Body, func(x ast.Node) bool {
		cc, ok := x.(*ast.CaseClause)
		if !ok || len(cc.List) != 1 {
			return true
		}
		tv, ok := info.Types[cc.List[0]]
		if !ok || !tv.IsType() {
			return true
		}
		_, tn, ok := relPkgOfType(tv.Type)
		if !ok || !strings.HasPrefix(tn, "CallParam") {
			return true
		}
		np++
		const unbound = 1
		body := &ast.BlockStmt{List: cc.Body}
		res := runFlow(body, nr.forInfo(info), flowState{"b": unbound}, func(n ast.Node, st flowState, report bool) flowState {
			ast.Inspect(n, func(y ast.Node) bool {
				if call, ok := y.(*ast.CallExpr); ok {
					if cal := calleeFunc(call, info); cal != nil && sf.set[cal] {
						st["b"] = 0
					}
				}
				return true
			})
			return st
		})
		okAll := len(cc.Body) > 0
		for _, b := range res.exitBlocks() {
			if blockEndsInNoReturn(b, nr.forInfo(info)) {
				continue
			}
			if res.out[b]["b"]&unbound != 0 {
				okAll = false
			}
		}
		c.check(okAll, "R02f", "soyhtml.state.evalCall binds "+tn, cc.Pos(), "the param is bound in the callee's data on every non-raising path",
			"a {param} can be skipped without being bound: the callee then sees the caller's value of that name (with data=\"all\"/data=\"$x\") instead of the passed one")
		return true
	})
	c.floor("R02f", "param kinds bound in evalCall", 2, np)
}

// R02g: a command body is only ever handed to the tree walker, never taken apart by hand.
func ruleBlockUse(c *Ctx, rule, rel string) {
	fields := blockFields(c)
	p := c.pkg(rel)
	if fields == nil || p == nil {
		return
	}
	info := p.TypesInfo
	n := 0
	for _, fd := range c.allFuncDecls(rel) {
		var stack []ast.Node
		ord := map[string]int{}
		ast.Inspect(fd.Body, func(x ast.Node) bool {
			if x == nil {
				stack = stack[:len(stack)-1]
				return true
			}
			stack = append(stack, x)
			se, ok := x.(*ast.SelectorExpr)
			if !ok {
				return true
			}
			fv := fieldOfExpr(se, info)
			name, isBlock := fields[fv]
			if fv == nil || !isBlock {
				return true
			}
			n++
			ord[name]++
			key := fmt.Sprintf("%s uses %s#%d", c.declKey(rel, fd), name, ord[name])
			parent := stack[len(stack)-2]
			switch pn := parent.(type) {
			case *ast.CallExpr:
				for _, a := range pn.Args {
					if a == ast.Expr(se) {
						if cal := calleeFunc(pn, info); cal != nil && cal.Pkg() != nil && cal.Pkg().Path() == modPath+"/"+rel {
							c.okTrivial(rule, key, se.Pos(), "handed to "+cal.Name()+" as a whole")
							return true
						}
					}
				}
			case *ast.BinaryExpr:
				if pn.Op == token.NEQ || pn.Op == token.EQL {
					c.okTrivial(rule, key, se.Pos(), "compared with nil")
					return true
				}
			}
			c.bad(rule, key, se.Pos(), "the command body in "+name+" is taken apart here ("+nodeText(parent)+") instead of being handed to the tree walker: its statements then run without the frame the list walker gives every body, so a {let} inside survives the block (for a loop body: into the next iteration)")
			return true
		})
	}
	c.floor(rule, "uses of command-body fields", 8, n)
}

func ruleR02g(c *Ctx) { ruleBlockUse(c, "R02g", "soyhtml") }

func nodeText(n ast.Node) string {
	if e, ok := n.(ast.Expr); ok {
		return exprKey(e)
	}
	return fmt.Sprintf("%T", n)
}

// R02h: every state the renderer builds for a template gets the same fields as the entry state
// (registry, writer, injected data, message bundle, ...): a callee must see what the entry template sees.
func ruleR02h(c *Ctx) {
	p := c.pkg("soyhtml")
	if p == nil {
		return
	}
	info := p.TypesInfo
	stObj := p.Types.Scope().Lookup("state")
	if stObj == nil {
		return
	}
	type lit struct {
		fd     *ast.FuncDecl
		cl     *ast.CompositeLit
		fields map[string]bool
	}
	var lits []lit
	for _, fd := range c.allFuncDecls("soyhtml") {
		ast.Inspect(fd.Body, func(x ast.Node) bool {
			cl, ok := x.(*ast.CompositeLit)
			if !ok {
				return true
			}
			tv, ok := info.Types[cl]
			if !ok || !types.Identical(tv.Type, stObj.Type()) {
				return true
			}
			l := lit{fd, cl, map[string]bool{}}
			for _, el := range cl.Elts {
				if kv, ok := el.(*ast.KeyValueExpr); ok {
					if id, ok := kv.Key.(*ast.Ident); ok {
						l.fields[id.Name] = true
					}
				}
			}
			lits = append(lits, l)
			return true
		})
	}
	// reference: the literal of the exported entry that sets a template (Execute)
	var ref *lit
	if holder, cl := entryStateLit(c); cl != nil {
		for i := range lits {
			if lits[i].fd == holder && lits[i].cl == cl {
				ref = &lits[i]
			}
		}
	}
	if ref == nil {
		c.fatalf("anchor: the entry's state literal (exported function, sets tmpl) not found")
		return
	}
	n := 0
	for _, l := range lits {
		if !l.fields["tmpl"] || l.cl == ref.cl {
			continue // states without a template (EvalExpr) run no template
		}
		n++
		var missing []string
		for f := range ref.fields {
			if !l.fields[f] {
				missing = append(missing, f)
			}
		}
		key := c.declKey("soyhtml", l.fd) + " state-literal fields"
		c.check(len(missing) == 0, "R02h", key, l.cl.Pos(), "sets every field the entry state sets",
			"the state built for a called template leaves out "+strings.Join(sortedStrings(missing), ", ")+", which the entry state sets: the callee renders without it (e.g. without the translation bundle or the injected data) although the entry template has it")
	}
	c.floor("R02h", "template states other than the entry's", 1, n)
}

// R02i: the alias table is written with single name segments (parseAlias) and must be read with the
// first segment of a call target: the key of every look-up in tree.aliases is X[:d] where d is the
// index of the FIRST dot of X (strings.Index/IndexByte/IndexRune), or the head returned by strings.Cut.
func ruleR02i(c *Ctx) {
	p := c.pkg("parse")
	if p == nil {
		return
	}
	info := p.TypesInfo
	n := 0
	for _, f := range p.Syntax {
		for _, d := range f.Decls {
			fd, ok := d.(*ast.FuncDecl)
			if !ok || fd.Body == nil {
				continue
			}
			// LHS index expressions are writes
			writes := map[*ast.IndexExpr]bool{}
			ast.Inspect(fd.Body, func(x ast.Node) bool {
				if as, ok := x.(*ast.AssignStmt); ok {
					for _, l := range as.Lhs {
						if ix, ok := l.(*ast.IndexExpr); ok {
							writes[ix] = true
						}
					}
				}
				return true
			})
			ast.Inspect(fd.Body, func(x ast.Node) bool {
				ix, ok := x.(*ast.IndexExpr)
				if !ok || writes[ix] {
					return true
				}
				fv := fieldOf(ix.X, info)
				if fv == nil || fv.Name() != "aliases" {
					return true
				}
				n++
				good, why := firstSegment(ix.Index, fd, info)
				c.check(good, "R02i", c.declKey("parse", fd)+" alias-lookup#"+itoa(n), ix.Pos(),
					"the alias is looked up by the first segment of the name", "the alias table, which holds single segments, is looked up with "+exprKey(ix.Index)+": "+why)
				return true
			})
		}
	}
	c.floor("R02i", "alias look-ups in the parser", 1, n)
}

func firstSegment(key ast.Expr, fd *ast.FuncDecl, info *types.Info) (bool, string) {
	firstDotCall := func(e ast.Expr, of string) bool {
		call, ok := ast.Unparen(e).(*ast.CallExpr)
		if !ok || len(call.Args) != 2 || exprKey(call.Args[0]) != of {
			return false
		}
		cal := calleeFunc(call, info)
		if cal == nil || cal.Pkg() == nil || cal.Pkg().Path() != "strings" {
			return false
		}
		switch cal.Name() {
		case "Index", "IndexByte", "IndexRune":
		default:
			return false
		}
		tv, ok := info.Types[call.Args[1]]
		if !ok || tv.Value == nil {
			return false
		}
		s := tv.Value.ExactString()
		return s == `"."` || s == "46"
	}
	se, ok := ast.Unparen(key).(*ast.SliceExpr)
	if ok && se.Low == nil && se.High != nil {
		of := exprKey(se.X)
		hi := se.High
		if firstDotCall(hi, of) {
			return true, ""
		}
		if id, ok := ast.Unparen(hi).(*ast.Ident); ok {
			// every definition of the bound is a first-dot index of the same string
			obj := info.Uses[id]
			defs, goodDefs := 0, 0
			ast.Inspect(fd.Body, func(x ast.Node) bool {
				var lhs, rhs []ast.Expr
				switch s := x.(type) {
				case *ast.AssignStmt:
					lhs, rhs = s.Lhs, s.Rhs
				case *ast.ValueSpec:
					for _, nm := range s.Names {
						lhs = append(lhs, nm)
					}
					rhs = s.Values
				default:
					return true
				}
				for i, l := range lhs {
					li, ok := l.(*ast.Ident)
					if !ok || (info.Defs[li] != obj && info.Uses[li] != obj) {
						continue
					}
					defs++
					if len(lhs) == len(rhs) && firstDotCall(rhs[i], of) {
						goodDefs++
					}
				}
				return true
			})
			if defs > 0 && defs == goodDefs {
				return true, ""
			}
			return false, "its end " + id.Name + " is not the index of the first dot of " + of
		}
		return false, "its end is not the index of the first dot of " + of
	}
	if id, ok := ast.Unparen(key).(*ast.Ident); ok {
		// head, _, _ := strings.Cut(X, ".")
		obj := info.Uses[id]
		good := false
		ast.Inspect(fd.Body, func(x ast.Node) bool {
			as, ok := x.(*ast.AssignStmt)
			if !ok || len(as.Rhs) != 1 || len(as.Lhs) != 3 {
				return true
			}
			li, ok := as.Lhs[0].(*ast.Ident)
			if !ok || (info.Defs[li] != obj && info.Uses[li] != obj) {
				return true
			}
			if call, ok := ast.Unparen(as.Rhs[0]).(*ast.CallExpr); ok && len(call.Args) == 2 {
				if cal := calleeFunc(call, info); cal != nil && cal.Pkg() != nil && cal.Pkg().Path() == "strings" && cal.Name() == "Cut" {
					if tv, ok := info.Types[call.Args[1]]; ok && tv.Value != nil && tv.Value.ExactString() == `"."` {
						good = true
					}
				}
			}
			return true
		})
		if good {
			return true, ""
		}
	}
	return false, "that is not the part of the name before its first dot, so a qualified name such as alias.sub.template misses its alias"
}

// R02j: scope.lookup decides by presence and innermost-first: inside its loop a value is returned only under
// the comma-ok of a map index with the looked-up key (a name bound to an undefined or null value still
// shadows), and the frame inspected first is the last one pushed.
func ruleR02j(c *Ctx) {
	p := c.pkg("soyhtml")
	fd := c.mustFunc("soyhtml", "scope.lookup")
	if p == nil || fd == nil {
		return
	}
	info := p.TypesInfo
	var keyParam types.Object
	for _, fl := range fd.Type.Params.List {
		for _, nm := range fl.Names {
			keyParam = info.Defs[nm]
		}
	}
	var recv types.Object
	if fd.Recv != nil && len(fd.Recv.List) == 1 && len(fd.Recv.List[0].Names) == 1 {
		recv = info.Defs[fd.Recv.List[0].Names[0]]
	}
	nret := 0
	var visit func(n ast.Node, inLoop bool, guard *ast.IfStmt)
	visit = func(n ast.Node, inLoop bool, guard *ast.IfStmt) {
		ast.Inspect(n, func(x ast.Node) bool {
			switch s := x.(type) {
			case *ast.ForStmt:
				visit(s.Body, true, nil)
				return false
			case *ast.RangeStmt:
				visit(s.Body, true, nil)
				return false
			case *ast.IfStmt:
				if s.Init != nil {
					visit(s.Init, inLoop, guard)
				}
				visit(s.Body, inLoop, s)
				if s.Else != nil {
					visit(s.Else, inLoop, nil)
				}
				return false
			case *ast.ReturnStmt:
				if !inLoop {
					return true
				}
				nret++
				ok := false
				if guard != nil {
					if as, isAs := guard.Init.(*ast.AssignStmt); isAs && len(as.Lhs) == 2 && len(as.Rhs) == 1 {
						if ix, isIx := ast.Unparen(as.Rhs[0]).(*ast.IndexExpr); isIx {
							_, isMap := info.Types[ix.X].Type.Underlying().(*types.Map)
							kid, isID := ast.Unparen(ix.Index).(*ast.Ident)
							okID, isOK := as.Lhs[1].(*ast.Ident)
							cid, condIsID := ast.Unparen(guard.Cond).(*ast.Ident)
							vid, vIsID := as.Lhs[0].(*ast.Ident)
							if isMap && isID && info.Uses[kid] == keyParam && isOK && condIsID && info.Uses[cid] == info.Defs[okID] &&
								vIsID && len(s.Results) == 1 {
								if rid, isR := ast.Unparen(s.Results[0]).(*ast.Ident); isR && info.Uses[rid] == info.Defs[vid] {
									ok = true
								}
							}
						}
					}
				}
				c.check(ok, "R02j", "soyhtml.scope.lookup found-return#"+itoa(nret), s.Pos(), "returns the binding exactly when the frame has the key (comma-ok)",
					"the frame search stops on a condition other than the presence of the key in the frame's map: a name bound to an undefined (or otherwise special) value no longer shadows the outer binding, so a callee or block sees an outer value it must not see")
			}
			return true
		})
	}
	visit(fd.Body, false, nil)
	c.floor("R02j", "returns inside the frame search", 1, nret)
	// innermost first: the frame index is len(s)-i-1 for an ascending i, or i descending from len(s)-1
	nidx, good := 0, 0
	ast.Inspect(fd.Body, func(x ast.Node) bool {
		ix, ok := x.(*ast.IndexExpr)
		if !ok {
			return true
		}
		id, ok := ast.Unparen(ix.X).(*ast.Ident)
		if !ok || info.Uses[id] != recv {
			return true
		}
		nidx++
		k := exprKey(ix.Index)
		r := id.Name
		switch {
		case k == "len("+r+") - i - 1" || k == "len("+r+") - 1 - i":
			// i must ascend: range over s, or i++ from 0
			ast.Inspect(fd.Body, func(y ast.Node) bool {
				if rs, ok := y.(*ast.RangeStmt); ok && rs.Key != nil && exprKey(rs.Key) == "i" && exprKey(rs.X) == r {
					good++
				}
				if fs, ok := y.(*ast.ForStmt); ok && fs.Post != nil {
					if inc, ok := fs.Post.(*ast.IncDecStmt); ok && exprKey(inc.X) == "i" && inc.Tok == token.INC {
						good++
					}
				}
				return true
			})
		case k == "i":
			ast.Inspect(fd.Body, func(y ast.Node) bool {
				if fs, ok := y.(*ast.ForStmt); ok && fs.Post != nil && fs.Init != nil {
					inc, ok1 := fs.Post.(*ast.IncDecStmt)
					ini, ok2 := fs.Init.(*ast.AssignStmt)
					if ok1 && ok2 && exprKey(inc.X) == "i" && inc.Tok == token.DEC && len(ini.Rhs) == 1 && exprKey(ini.Rhs[0]) == "len("+r+") - 1" {
						good++
					}
				}
				return true
			})
		}
		return true
	})
	c.check(nidx > 0 && good == nidx, "R02j", "soyhtml.scope.lookup innermost-first", fd.Pos(), "frames are inspected from the last pushed outwards",
		"the frame search does not visibly run from the last frame pushed to the first: an inner {let} or loop variable would no longer shadow an outer one")
}

// cssHypo: the {css} command has a component expression.
type cssHypo struct{}

func (cssHypo) expr(ev *evaluator, e ast.Expr, info *types.Info) (aval, bool) {
	if be, ok := ast.Unparen(e).(*ast.BinaryExpr); ok && (be.Op == token.NEQ || be.Op == token.EQL) {
		if id, ok := ast.Unparen(be.Y).(*ast.Ident); ok && id.Name == "nil" {
			if se, ok := ast.Unparen(be.X).(*ast.SelectorExpr); ok && se.Sel.Name == "Expr" {
				return constVal(constant.MakeBool(be.Op == token.NEQ)), true
			}
		}
	}
	return unknown, false
}
func (cssHypo) prim(ev *evaluator, fn *types.Func, call *ast.CallExpr, st state) (aval, bool) {
	return unknown, false
}
func (cssHypo) isRead(fn *types.Func) bool { return false }

// R02k: {css $component, suffix} writes component, a dash and the suffix, whatever the component's value
// (the generated JavaScript concatenates the three unconditionally): evaluated path by path with the
// component present, every completing path of the renderer's CssNode arm evaluates the "-" literal.
func ruleR02k(c *Ctx) {
	cases, fd := walkCaseTypes(c, "soyhtml", "state.walk")
	if cases == nil {
		return
	}
	cc := cases["CssNode"]
	if cc == nil {
		c.fatalf("anchor: the renderer's walk has no CssNode arm")
		return
	}
	info := c.Pkgs["soyhtml"].TypesInfo
	ev := newEvaluator(c, cssHypo{})
	ev.watchLit = "-"
	comps := ev.execBlock(cc.Body, state{env: env{}}, info)
	paths, dashed := 0, 0
	for _, cp := range comps {
		if cp.kind == cNoReturn || cp.kind == cSpin {
			continue
		}
		paths++
		for _, e := range cp.st.tr.list() {
			if e.name == "lit:-" {
				dashed++
				break
			}
		}
	}
	key := "soyhtml.state.walk CssNode component-dash"
	switch {
	case paths == 0:
		c.unk("R02k", key, cc.Pos(), "no completing path evaluated")
	case dashed != paths:
		c.bad("R02k", key, cc.Pos(), fmt.Sprintf("with a component expression present, only %d of %d completing paths write the dash between component and suffix: for some component value the command prints the suffix alone, while the language (and the generated JavaScript) always joins them with '-'", dashed, paths))
	default:
		c.ok("R02k", key, cc.Pos(), fmt.Sprintf("all %d completing paths with a component write the '-' between component and suffix", paths))
	}
	_ = fd
}

// R02m: a block ({let}, {param}, {log} content) is rendered into a buffer of its own. Wherever the renderer
// redirects its writer (an assignment to state.wr outside a state literal) the new writer is the address of
// a variable declared fresh in that function (or a new allocation), or the saved original being restored.
// A buffer kept in the state, in a pool or in a package variable is shared with the block being rendered
// around it, or with the next render.
func ruleR02m(c *Ctx) {
	p := c.pkg("soyhtml")
	if p == nil {
		return
	}
	info := p.TypesInfo
	n := 0
	for _, fd := range c.allFuncDecls("soyhtml") {
		ord := 0
		// locals declared without a value from elsewhere: var x T / x := T{} / x := new(T) / x := &T{}
		fresh := map[types.Object]bool{}
		saved := map[types.Object]bool{} // x := s.wr
		ast.Inspect(fd.Body, func(x ast.Node) bool {
			switch s := x.(type) {
			case *ast.ValueSpec:
				for i, nm := range s.Names {
					o := info.Defs[nm]
					if o == nil {
						continue
					}
					if len(s.Values) == 0 {
						fresh[o] = true
					} else if i < len(s.Values) {
						classifyWriterInit(s.Values[i], o, fresh, saved, info)
					}
				}
			case *ast.AssignStmt:
				if s.Tok == token.DEFINE && len(s.Lhs) == len(s.Rhs) {
					for i, l := range s.Lhs {
						if id, ok := l.(*ast.Ident); ok && info.Defs[id] != nil {
							classifyWriterInit(s.Rhs[i], info.Defs[id], fresh, saved, info)
						}
					}
				}
			}
			return true
		})
		ast.Inspect(fd.Body, func(x ast.Node) bool {
			as, ok := x.(*ast.AssignStmt)
			if !ok || len(as.Lhs) != len(as.Rhs) {
				return true
			}
			for i, l := range as.Lhs {
				fv := fieldOf(l, info)
				if fv == nil || fv.Name() != "wr" {
					continue
				}
				n++
				ord++
				r := ast.Unparen(as.Rhs[i])
				good := false
				if id, ok := r.(*ast.Ident); ok {
					o := info.Uses[id]
					good = saved[o] || (fresh[o] && isPointer(o.Type()))
				}
				if ue, ok := r.(*ast.UnaryExpr); ok && ue.Op == token.AND {
					if id, ok := ast.Unparen(ue.X).(*ast.Ident); ok && fresh[info.Uses[id]] {
						good = true
					}
					if _, ok := ast.Unparen(ue.X).(*ast.CompositeLit); ok {
						good = true
					}
				}
				if call, ok := r.(*ast.CallExpr); ok {
					if id, ok := call.Fun.(*ast.Ident); ok && id.Name == "new" {
						good = true
					}
				}
				c.check(good, "R02m", fmt.Sprintf("%s redirects-writer#%d", c.declKey("soyhtml", fd), ord), as.Pos(),
					"the writer swapped in is a buffer declared fresh in this function, or the saved original",
					"the renderer's writer is redirected to "+exprKey(as.Rhs[i])+", which is not a buffer created for this one block: a block rendered while another is open (or the next render) writes into the same buffer")
			}
			return true
		})
	}
	c.floor("R02m", "writer redirections in the renderer", 2, n)
}

func isPointer(t types.Type) bool {
	_, ok := t.Underlying().(*types.Pointer)
	return ok
}

func classifyWriterInit(v ast.Expr, o types.Object, fresh, saved map[types.Object]bool, info *types.Info) {
	v = ast.Unparen(v)
	switch e := v.(type) {
	case *ast.CompositeLit:
		fresh[o] = true
	case *ast.UnaryExpr:
		if _, ok := ast.Unparen(e.X).(*ast.CompositeLit); ok && e.Op == token.AND {
			fresh[o] = true
		}
	case *ast.CallExpr:
		if id, ok := e.Fun.(*ast.Ident); ok && id.Name == "new" {
			fresh[o] = true
		}
	case *ast.SelectorExpr:
		if fv := fieldOf(e, info); fv != nil && fv.Name() == "wr" {
			saved[o] = true
		}
	}
}

// takesNodeType: body is the body of a function of the package one of whose parameters is *ast.<typeName>.
func takesNodeType(c *Ctx, rel string, body ast.Node, typeName string) bool {
	p := c.Pkgs[rel]
	for _, fd := range c.allFuncDecls(rel) {
		if ast.Node(fd.Body) != body {
			continue
		}
		for _, fl := range fd.Type.Params.List {
			if tv, ok := p.TypesInfo.Types[fl.Type]; ok {
				if _, tn, ok := relPkgOfType(tv.Type); ok && tn == typeName {
					return true
				}
			}
		}
	}
	return false
}

// R09e: every mutex the module locks is unlocked on every returning path of the function that locked it
// (a deferred Unlock counts at every exit). A path that returns with the lock held blocks every later
// parse, compile or render that reaches the same lock, for the life of the process.
func ruleLockPairing(c *Ctx, rule string) {
	var rels []string
	for rel := range c.Pkgs {
		rels = append(rels, rel)
	}
	sort.Strings(rels)
	npk := 0
	for _, rel := range rels {
		p := c.Pkgs[rel]
		var syncPkg *types.Package
		for _, imp := range p.Types.Imports() {
			if imp.Path() == "sync" {
				syncPkg = imp
			}
		}
		npk++
		if syncPkg == nil {
			continue
		}
		sf := &scopeFacts{rel: rel, info: p.TypesInfo, push: map[*types.Func]bool{}, pop: map[*types.Func]bool{}, set: map[*types.Func]bool{}}
		for _, tn := range []string{"Mutex", "RWMutex"} {
			obj := syncPkg.Scope().Lookup(tn)
			if obj == nil {
				continue
			}
			named := obj.Type().(*types.Named)
			for i := 0; i < named.NumMethods(); i++ {
				m := named.Method(i)
				switch m.Name() {
				case "Lock", "RLock":
					sf.push[m] = true
				case "Unlock", "RUnlock":
					sf.pop[m] = true
				}
			}
		}
		rulePairingSF(c, rule, rel, sf, 0)
	}
	c.floor(rule, "packages examined for lock pairing", 8, npk)
}

// R02n: in a called template the explicit {param}s have the last word: in evalCall nothing is bound in the
// callee's scope after the loop that binds the params. (Entries of a passed data map copied in afterwards
// overwrite a param of the same name; the language gives the param precedence.)
func ruleR02n(c *Ctx) {
	sf := getScopeFacts(c, "soyhtml")
	fd := c.mustFunc("soyhtml", "state.evalCall")
	if sf == nil || fd == nil {
		return
	}
	info := sf.info
	var loop *ast.RangeStmt
	ast.Inspect(fd.Body, func(x ast.Node) bool {
		if rs, ok := x.(*ast.RangeStmt); ok && loop == nil {
			if fv := fieldOf(rs.X, info); fv != nil && fv.Name() == "Params" {
				loop = rs
			}
		}
		return true
	})
	if loop == nil {
		c.fatalf("anchor: the loop over the call's params not found in evalCall")
		return
	}
	var late []string
	var latePos token.Pos
	ast.Inspect(fd.Body, func(x ast.Node) bool {
		call, ok := x.(*ast.CallExpr)
		if !ok || call.Pos() <= loop.End() {
			return true
		}
		if cal := calleeFunc(call, info); cal != nil && sf.set[cal] {
			late = append(late, exprKey(call))
			latePos = call.Pos()
		}
		return true
	})
	c.check(len(late) == 0, "R02n", "soyhtml.state.evalCall params-bound-last", loop.Pos(), "nothing is bound in the callee's scope after its explicit params",
		"after the explicit params have been bound, evalCall binds more names in the callee's scope ("+strings.Join(late, ", ")+"): a name that is both a param and one of those is given the later value, so the callee does not see the param it was passed")
	_ = latePos
}

// entryStateLit: the composite literal of soyhtml's state that an exported entry point builds for the
// template it is asked to render: the literal that sets tmpl in the exported function itself, or else in the
// nearest unexported helper it calls (newState and the like; at most two calls away). Returns the function
// holding the literal.
func entryStateLit(c *Ctx) (*ast.FuncDecl, *ast.CompositeLit) {
	p := c.pkg("soyhtml")
	if p == nil {
		return nil, nil
	}
	info := p.TypesInfo
	stObj := p.Types.Scope().Lookup("state")
	if stObj == nil {
		return nil, nil
	}
	litIn := func(fd *ast.FuncDecl) *ast.CompositeLit {
		var out *ast.CompositeLit
		ast.Inspect(fd.Body, func(x ast.Node) bool {
			cl, ok := x.(*ast.CompositeLit)
			if !ok {
				return true
			}
			if tv, ok := info.Types[cl]; !ok || !types.Identical(tv.Type, stObj.Type()) {
				return true
			}
			for _, el := range cl.Elts {
				if kv, ok := el.(*ast.KeyValueExpr); ok {
					if id, ok := kv.Key.(*ast.Ident); ok && id.Name == "tmpl" {
						out = cl
					}
				}
			}
			return true
		})
		return out
	}
	for depth := 0; depth <= 2; depth++ {
		for _, fd := range c.allFuncDecls("soyhtml") {
			if !fd.Name.IsExported() || fd.Body == nil {
				continue
			}
			for _, h := range c.withHelpers("soyhtml", fd, depth) {
				if h != fd && h.Name.IsExported() {
					continue
				}
				if cl := litIn(h); cl != nil {
					return h, cl
				}
			}
		}
	}
	return nil, nil
}
