package main

// K5: precedence safety of emitted JavaScript expressions. Each expression
// emitter of the generator is linearised (by evaluating its code with the K2
// evaluator and recording its emit calls) into sequences of literal text and
// child slots; the sequence is parsed as a JavaScript expression in which a
// slot is an atom. That yields the emitter's own outermost precedence and,
// for each slot, the precedence an operand there must have to stay one unit.

import (
	"fmt"
	"go/ast"
	"go/constant"
	"go/types"
	"strings"
	"unicode"
)

const (
	pTern    = 3
	pOr      = 4
	pAnd     = 5
	pEq      = 9
	pRel     = 10
	pAdd     = 12
	pMul     = 13
	pUnary   = 15
	pPostfix = 18
	pPrimary = 19
)

var jsBinPrec = map[string]int{"||": pOr, "&&": pAnd, "==": pEq, "!=": pEq, "===": pEq, "!==": pEq, "<": pRel, ">": pRel, "<=": pRel, ">=": pRel,
	"+": pAdd, "-": pAdd, "*": pMul, "/": pMul, "%": pMul}

type jtok struct {
	kind      string // atom, op, punct
	text      string
	slot      int  // >=0 for a child slot
	afterDash bool // the slot's text directly follows a '-' character (no space between)
}

// piece of an emitter: literal text, a child slot, or opaque text (an identifier-like string built at generation time)
type piece struct {
	lit    string
	slot   bool
	opaque bool
	desc   string
	number bool // opaque text that is a numeric literal and may be negative
}

func tokenizeJS(pieces []piece) ([]jtok, []string) {
	var toks []jtok
	var slotDescs []string
	lastChar := byte(0)
	for _, p := range pieces {
		if !p.slot && !p.opaque && len(p.lit) > 0 {
			defer func() {}()
		}
		switch {
		case p.slot:
			toks = append(toks, jtok{kind: "atom", text: "<" + p.desc + ">", slot: len(slotDescs), afterDash: lastChar == '-'})
			slotDescs = append(slotDescs, p.desc)
			lastChar = 0
		case p.opaque:
			toks = append(toks, jtok{kind: "atom", text: "«" + p.desc + "»", slot: -1})
			lastChar = 0
		default:
			s := p.lit
			if len(s) > 0 {
				lastChar = s[len(s)-1]
			}
			for i := 0; i < len(s); {
				ch := rune(s[i])
				switch {
				case unicode.IsSpace(ch):
					i++
				case unicode.IsLetter(ch) || ch == '_' || ch == '$':
					j := i
					for j < len(s) && (unicode.IsLetter(rune(s[j])) || unicode.IsDigit(rune(s[j])) || s[j] == '_' || s[j] == '$') {
						j++
					}
					toks = append(toks, jtok{kind: "atom", text: s[i:j], slot: -1})
					i = j
				case unicode.IsDigit(ch):
					j := i
					for j < len(s) && (unicode.IsDigit(rune(s[j])) || s[j] == '.') {
						j++
					}
					toks = append(toks, jtok{kind: "atom", text: s[i:j], slot: -1})
					i = j
				case ch == '\'' || ch == '"':
					j := i + 1
					for j < len(s) && rune(s[j]) != ch {
						if s[j] == '\\' {
							j++
						}
						j++
					}
					if j >= len(s) {
						// an opening quote whose content and closing quote come from later pieces
						toks = append(toks, jtok{kind: "quote", text: string(ch), slot: -1})
						i++
						continue
					}
					toks = append(toks, jtok{kind: "atom", text: s[i : j+1], slot: -1})
					i = j + 1
				default:
					three, two := "", ""
					if i+3 <= len(s) {
						three = s[i : i+3]
					}
					if i+2 <= len(s) {
						two = s[i : i+2]
					}
					switch {
					case three == "===" || three == "!==":
						toks = append(toks, jtok{kind: "op", text: three, slot: -1})
						i += 3
					case two == "==" || two == "!=" || two == "<=" || two == ">=" || two == "&&" || two == "||" || two == "+=":
						toks = append(toks, jtok{kind: "op", text: two, slot: -1})
						i += 2
					case strings.ContainsRune("+-*/%<>!", ch):
						toks = append(toks, jtok{kind: "op", text: string(ch), slot: -1})
						i++
					default:
						toks = append(toks, jtok{kind: "punct", text: string(ch), slot: -1})
						i++
					}
				}
			}
		}
	}
	// a pair of quote tokens with nothing but escaped text between them is a string atom
	var out []jtok
	for i := 0; i < len(toks); i++ {
		if toks[i].kind == "quote" && i+1 < len(toks) && toks[i+1].kind == "quote" && toks[i+1].text == toks[i].text {
			out = append(out, jtok{kind: "atom", text: "'…'", slot: -1})
			i++
			continue
		}
		out = append(out, toks[i])
	}
	return out, slotDescs
}

type jnode struct {
	afterDash bool
	kind      string // atom paren unary binary ternary member call index array object
	prec      int
	op        string
	kids      []*jnode
	slot      int
	text      string
}

type jparser struct {
	toks []jtok
	pos  int
	err  string
}

func (p *jparser) peek() *jtok {
	if p.pos < len(p.toks) {
		return &p.toks[p.pos]
	}
	return nil
}
func (p *jparser) is(text string) bool {
	t := p.peek()
	return t != nil && t.kind != "atom" && t.text == text
}
func (p *jparser) fail(s string) *jnode {
	if p.err == "" {
		p.err = s
	}
	return &jnode{kind: "atom", prec: pPrimary, slot: -1}
}

func (p *jparser) parseExpr(min int) *jnode {
	left := p.parseUnary()
	for p.err == "" {
		t := p.peek()
		if t == nil {
			break
		}
		if t.kind == "op" {
			q, ok := jsBinPrec[t.text]
			if !ok || q < min {
				break
			}
			p.pos++
			right := p.parseExpr(q + 1)
			left = &jnode{kind: "binary", prec: q, op: t.text, kids: []*jnode{left, right}, slot: -1}
			continue
		}
		if t.kind == "punct" && t.text == "?" && pTern >= min {
			p.pos++
			a := p.parseExpr(pTern)
			if !p.is(":") {
				return p.fail("':' of a conditional expression expected")
			}
			p.pos++
			b := p.parseExpr(pTern)
			left = &jnode{kind: "ternary", prec: pTern, kids: []*jnode{left, a, b}, slot: -1}
			continue
		}
		break
	}
	return left
}

func (p *jparser) parseUnary() *jnode {
	t := p.peek()
	if t != nil && t.kind == "op" && (t.text == "-" || t.text == "!" || t.text == "+") {
		p.pos++
		k := p.parseUnary()
		return &jnode{kind: "unary", prec: pUnary, op: t.text, kids: []*jnode{k}, slot: -1}
	}
	return p.parsePostfix()
}

func (p *jparser) parsePostfix() *jnode {
	n := p.parsePrimary()
	for p.err == "" {
		switch {
		case p.is("."):
			p.pos++
			t := p.peek()
			if t == nil || t.kind != "atom" {
				return p.fail("property name expected after '.'")
			}
			p.pos++
			n = &jnode{kind: "member", prec: pPrimary, kids: []*jnode{n}, slot: -1, text: t.text}
		case p.is("("):
			p.pos++
			call := &jnode{kind: "call", prec: pPrimary, kids: []*jnode{n}, slot: -1}
			for !p.is(")") && p.err == "" {
				call.kids = append(call.kids, p.parseExpr(0))
				if p.is(",") {
					p.pos++
				} else if !p.is(")") {
					return p.fail("',' or ')' expected in call")
				}
			}
			p.pos++
			n = call
		case p.is("["):
			p.pos++
			idx := p.parseExpr(0)
			if !p.is("]") {
				return p.fail("']' expected")
			}
			p.pos++
			n = &jnode{kind: "index", prec: pPrimary, kids: []*jnode{n, idx}, slot: -1}
		default:
			return n
		}
	}
	return n
}

func (p *jparser) parsePrimary() *jnode {
	t := p.peek()
	if t == nil {
		return p.fail("unexpected end of the emitted text")
	}
	switch {
	case t.kind == "atom":
		p.pos++
		return &jnode{kind: "atom", prec: pPrimary, slot: t.slot, text: t.text, afterDash: t.afterDash}
	case p.is("("):
		p.pos++
		in := p.parseExpr(0)
		if !p.is(")") {
			return p.fail("')' expected")
		}
		p.pos++
		return &jnode{kind: "paren", prec: pPrimary, kids: []*jnode{in}, slot: -1}
	case p.is("["):
		p.pos++
		arr := &jnode{kind: "array", prec: pPrimary, slot: -1}
		for !p.is("]") && p.err == "" {
			arr.kids = append(arr.kids, p.parseExpr(0))
			if p.is(",") {
				p.pos++
			} else if !p.is("]") {
				return p.fail("',' or ']' expected")
			}
		}
		p.pos++
		return arr
	case p.is("{"):
		p.pos++
		obj := &jnode{kind: "object", prec: pPrimary, slot: -1}
		for !p.is("}") && p.err == "" {
			p.parsePrimary() // key
			if !p.is(":") {
				return p.fail("':' expected in object literal")
			}
			p.pos++
			obj.kids = append(obj.kids, p.parseExpr(0))
			if p.is(",") {
				p.pos++
			} else if !p.is("}") {
				return p.fail("',' or '}' expected")
			}
		}
		p.pos++
		return obj
	}
	return p.fail("unexpected token " + t.text)
}

// slotReq is what an operand substituted into a slot must satisfy.
type slotReq struct {
	prec       int
	noLeadDash bool // the slot directly follows a '-' sign
	why        string
}

func collectReqs(n *jnode, reqs map[int]slotReq) {
	set := func(k *jnode, r slotReq) {
		if k.kind == "atom" && k.slot >= 0 {
			r.noLeadDash = r.noLeadDash && k.afterDash
			if old, ok := reqs[k.slot]; !ok || r.prec > old.prec || r.noLeadDash {
				if ok && old.noLeadDash {
					r.noLeadDash = true
				}
				reqs[k.slot] = r
			}
		}
	}
	switch n.kind {
	case "binary":
		set(n.kids[0], slotReq{n.prec, false, "left operand of " + n.op})
		rp := n.prec + 1
		set(n.kids[1], slotReq{rp, n.op == "-", "right operand of " + n.op})
	case "unary":
		set(n.kids[0], slotReq{pUnary, n.op == "-", "operand of unary " + n.op})
	case "ternary":
		set(n.kids[0], slotReq{pTern + 1, false, "condition of ? :"})
		set(n.kids[1], slotReq{0, false, "branch of ? :"})
		set(n.kids[2], slotReq{pTern, false, "else branch of ? :"})
	case "member":
		set(n.kids[0], slotReq{pPostfix, false, "object of ." + n.text})
	case "call":
		set(n.kids[0], slotReq{pPostfix, false, "callee"})
		for _, k := range n.kids[1:] {
			set(k, slotReq{0, false, "call argument"})
		}
	case "index":
		set(n.kids[0], slotReq{pPostfix, false, "object of [ ]"})
		set(n.kids[1], slotReq{0, false, "index"})
	default:
		for _, k := range n.kids {
			set(k, slotReq{0, false, "bracketed"})
		}
	}
	for _, k := range n.kids {
		collectReqs(k, reqs)
	}
}

// emitterPath is one linearised way an emitter writes an expression.
type emitterPath struct {
	pieces      []piece
	level       int
	transparent int // >=0: the path is just this slot (the emitter is an alias of its child)
	leadDash    bool
	reqs        map[int]slotReq
	slots       []string
	err         string
	text        string
}

func analysePath(pieces []piece) emitterPath {
	ep := emitterPath{pieces: pieces, transparent: -1}
	toks, slots := tokenizeJS(pieces)
	ep.slots = slots
	var sb strings.Builder
	for _, t := range toks {
		sb.WriteString(t.text)
		sb.WriteString(" ")
	}
	ep.text = strings.TrimSpace(sb.String())
	if len(toks) == 0 {
		ep.err = "emits nothing"
		return ep
	}
	p := &jparser{toks: toks}
	root := p.parseExpr(0)
	if p.err == "" && p.pos != len(toks) {
		p.err = "text after the expression: " + toks[p.pos].text
	}
	if p.err != "" {
		ep.err = p.err
		return ep
	}
	ep.level = root.prec
	if root.kind == "atom" && root.slot >= 0 {
		ep.transparent = root.slot
	}
	ep.leadDash = toks[0].kind == "op" && toks[0].text == "-"
	if len(pieces) == 1 && pieces[0].number {
		ep.leadDash = true // a numeric literal may be negative
		ep.level = pUnary
	}
	ep.reqs = map[int]slotReq{}
	collectReqs(root, ep.reqs)
	return ep
}

// emitHypo stops the evaluator at the generator's own emit functions.
type emitHypo struct{ stop map[string]bool }

func (h emitHypo) expr(ev *evaluator, e ast.Expr, info *types.Info) (aval, bool) {
	return unknown, false
}
func (h emitHypo) prim(ev *evaluator, fn *types.Func, call *ast.CallExpr, st state) (aval, bool) {
	if h.stop[fn.Name()] {
		return unknown, true
	}
	return unknown, false
}
func (h emitHypo) isRead(fn *types.Func) bool { return false }

// piecesOfTrace converts the emit events of one evaluated path into pieces.
func piecesOfTrace(c *Ctx, evs []event, info *types.Info, nodeIface *types.Interface) []piece {
	var out []piece
	for _, e := range evs {
		if e.call == nil {
			continue
		}
		for i, a := range e.call.Args {
			var v aval
			if i < len(e.args) {
				v = e.args[i]
			}
			if v.k == avConst && v.c.Kind() == constant.String {
				out = append(out, piece{lit: constant.StringVal(v.c)})
				continue
			}
			tv, ok := info.Types[a]
			desc := exprKey(a)
			if ok && (types.Implements(tv.Type, nodeIface) || types.AssignableTo(tv.Type, nodeIface.Complete())) {
				if _, isIface := tv.Type.Underlying().(*types.Interface); isIface || types.Implements(tv.Type, nodeIface) {
					out = append(out, piece{slot: true, desc: desc})
					continue
				}
			}
			num := strings.HasSuffix(desc, "node.String()")
			out = append(out, piece{opaque: true, desc: desc, number: num})
		}
	}
	return out
}

var _ = fmt.Sprint
