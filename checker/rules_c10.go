package main

import (
	"fmt"
	"go/ast"
	"go/constant"
	"go/token"
	"go/types"
	"sort"
	"strings"

	"golang.org/x/tools/go/ssa"
)

var msgEntries = []entrySpec{{"soymsg", "SetPlaceholdersAndID"}, {"soymsg", "PlaceholderString"}, {"parsepasses", "ProcessMessages"}}

// R10a: nothing on the id / placeholder-name path depends on map iteration order.
func ruleR10a(c *Ctx) {
	c.buildSSA()
	entries := c.entryFuncs(msgEntries)
	if len(entries) != len(msgEntries) {
		return
	}
	nf, nl := runMapOrder(c, "R10a", entries, nil)
	c.floor("R10a", "functions on the message-id path", 15, nf)
	c.floor("R10a", "ranges over maps classified", 2, nl)
}

// R10b: the id is computed from the message body and meaning only.
func ruleR10b(c *Ctx) {
	c.buildSSA()
	spec := []entrySpec{{"soymsg", "SetPlaceholdersAndID"}}
	entries := c.entryFuncs(spec)
	if len(entries) != 1 {
		return
	}
	reach := reachFrom(c.VTA(), entries, false)
	astPkg := c.pkg("ast")
	if astPkg == nil {
		return
	}
	msgNode := astPkg.Types.Scope().Lookup("MsgNode")
	if msgNode == nil {
		c.fatalf("anchor: ast.MsgNode not found")
		return
	}
	allowedRead := map[string]string{"Body": "content", "Meaning": "meaning"}
	reads := map[string][]string{}
	msgStringReads := map[string]bool{}
	posReads := map[string]bool{}
	globalsRead := map[*ssa.Global]bool{}
	n := 0
	for f := range reach {
		if !isSoyFunc(f) || f.Blocks == nil {
			continue
		}
		n++
		fk := strings.ReplaceAll(f.String(), modPath+"/", "")
		c.seen(fk)
		for _, b := range f.Blocks {
			for _, in := range b.Instrs {
				switch in := in.(type) {
				case *ssa.FieldAddr:
					st := in.X.Type().Underlying().(*types.Pointer).Elem()
					fname := st.Underlying().(*types.Struct).Field(in.Field).Name()
					written := false
					for _, r := range *in.Referrers() {
						if s, ok := r.(*ssa.Store); ok && s.Addr == in {
							written = true
						}
					}
					if types.Identical(st, msgNode.Type()) && !written {
						if fk == "(*ast.MsgNode).String" {
							// named exception (one function): printing a whole {msg} is reachable only through the call
							// graph's approximation of Node.String(); the parser rejects a msg inside a msg (notmsg),
							// so no placeholder body ever is a MsgNode.
							msgStringReads[fname] = true
							continue
						}
						reads[fname] = append(reads[fname], fk)
					}
					if fname == "Pos" {
						if rel, _, ok := relPkgOfType(st); ok && rel == "ast" && !written {
							posReads[fk] = true
						}
					}
				case ssa.CallInstruction:
					com := in.Common()
					name := ""
					if com.IsInvoke() {
						name = com.Method.Name()
					} else if sc := com.StaticCallee(); sc != nil {
						name = sc.Name()
					}
					if name == "Position" {
						posReads[fk] = true
					}
				case *ssa.UnOp:
					if g, ok := in.X.(*ssa.Global); ok && g.Pkg != nil && isSoyPkg(g.Pkg.Pkg) {
						globalsRead[g] = true
					}
				}
			}
		}
	}
	for _, fname := range sortedKeys(reads) {
		key := "ast.MsgNode." + fname + "#read-on-id-path"
		sort.Strings(reads[fname])
		if what, ok := allowedRead[fname]; ok {
			c.ok("R10b", key, msgNode.Pos(), "the message "+what+" is an input of the id by definition (read in "+reads[fname][0]+")")
		} else {
			c.bad("R10b", key, msgNode.Pos(), "the id/placeholder computation reads MsgNode."+fname+" (in "+reads[fname][0]+"): the id then changes with something other than content and meaning")
		}
	}
	if len(msgStringReads) > 0 {
		c.ok("R10b", "(*ast.MsgNode).String#not-on-id-path", msgNode.Pos(), "named exception: reads "+strings.Join(sortedKeys(msgStringReads), ",")+" but is reachable only through the call graph's approximation of Node.String(); parse.notmsg rejects a msg nested in a msg")
	}
	if len(posReads) == 0 {
		c.ok("R10b", "ast.Pos#not-read-on-id-path", msgNode.Pos(), "no source position is read while computing ids: moving a message does not change its id")
	} else {
		c.bad("R10b", "ast.Pos#not-read-on-id-path", msgNode.Pos(), "a source position is read on the id path (in "+strings.Join(sortedKeys(posReads), ", ")+"): the id changes when surrounding code moves the message")
	}
	// package variables read on the path must be immutable after init
	writers := globalWriters(c)
	var gs []*ssa.Global
	for g := range globalsRead {
		gs = append(gs, g)
	}
	sort.Slice(gs, func(i, j int) bool { return gs[i].Name() < gs[j].Name() })
	for _, g := range gs {
		rel, _ := relOf(g.Pkg.Pkg)
		key := rel + "." + g.Name() + "#immutable-after-init"
		if w := writers[g]; len(w) > 0 {
			c.bad("R10b", key, g.Pos(), "read while computing ids but written outside init by "+w[0]+": ids then depend on what ran before")
		} else {
			c.ok("R10b", key, g.Pos(), "read while computing ids and never written outside package initialisation")
		}
	}
	c.floor("R10b", "functions on the id path", 15, n)
}

// globalWriters: for every soy package variable, the non-init functions that store to it or update it.
func globalWriters(c *Ctx) map[*ssa.Global][]string {
	out := map[*ssa.Global][]string{}
	for _, pkg := range c.SSA {
		if pkg == nil {
			continue
		}
		var fns []*ssa.Function
		for _, m := range pkg.Members {
			if f, ok := m.(*ssa.Function); ok {
				fns = append(fns, f)
			}
			if t, ok := m.(*ssa.Type); ok {
				for _, typ := range []types.Type{t.Type(), types.NewPointer(t.Type())} {
					ms := c.Prog.MethodSets.MethodSet(typ)
					for i := 0; i < ms.Len(); i++ {
						if f := c.Prog.MethodValue(ms.At(i)); f != nil && f.Pkg == pkg {
							fns = append(fns, f)
						}
					}
				}
			}
		}
		var all []*ssa.Function
		var add func(f *ssa.Function)
		seen := map[*ssa.Function]bool{}
		add = func(f *ssa.Function) {
			if seen[f] {
				return
			}
			seen[f] = true
			all = append(all, f)
			for _, an := range f.AnonFuncs {
				add(an)
			}
		}
		for _, f := range fns {
			add(f)
		}
		for _, f := range all {
			if f.Name() == "init" || strings.HasPrefix(f.Name(), "init#") || f.Blocks == nil {
				continue
			}
			fk := strings.ReplaceAll(f.String(), modPath+"/", "")
			for _, b := range f.Blocks {
				for _, in := range b.Instrs {
					switch in := in.(type) {
					case *ssa.Store:
						if g, ok := stripAddr(in.Addr).(*ssa.Global); ok {
							out[g] = append(out[g], fk)
						}
					case *ssa.MapUpdate:
						if u, ok := in.Map.(*ssa.UnOp); ok {
							if g, ok := u.X.(*ssa.Global); ok {
								out[g] = append(out[g], fk)
							}
						}
					}
				}
			}
		}
	}
	return out
}

// R10c: ids and placeholder names are assigned only by soymsg, and only from the compile pass / extractor.
func ruleR10c(c *Ctx) {
	c.buildSSA()
	astPkg := c.pkg("ast")
	if astPkg == nil {
		return
	}
	targets := map[string]bool{"MsgNode.ID": true, "MsgPlaceholderNode.Name": true, "MsgPluralNode.VarName": true}
	n := 0
	for rel, pkg := range c.SSA {
		if pkg == nil {
			continue
		}
		for _, g := range allPkgFunctions(c, pkg) {
			for _, b := range g.Blocks {
				for _, in := range b.Instrs {
					st, ok := in.(*ssa.Store)
					if !ok {
						continue
					}
					fa, ok := st.Addr.(*ssa.FieldAddr)
					if !ok {
						continue
					}
					stt := fa.X.Type().Underlying().(*types.Pointer).Elem()
					r2, tn, ok := relPkgOfType(stt)
					if !ok || r2 != "ast" {
						continue
					}
					fname := stt.Underlying().(*types.Struct).Field(fa.Field).Name()
					if !targets[tn+"."+fname] {
						continue
					}
					if _, fresh := stripAddr(fa.X).(*ssa.Alloc); fresh {
						continue // construction of a new node
					}
					n++
					key := fmt.Sprintf("%s.%s assigns %s.%s", relName(rel), g.Name(), tn, fname)
					c.check(rel == "soymsg", "R10c", key, st.Pos(), "assigned by the id/placeholder computation in soymsg", "a message id or placeholder name is assigned outside soymsg: it is no longer a function of the message alone")
				}
			}
		}
	}
	c.floor("R10c", "assignments of ids / placeholder names", 3, n)
	// callers of SetPlaceholdersAndID
	set := c.ssaFunc("soymsg", "SetPlaceholdersAndID")
	if set == nil {
		c.fatalf("anchor: soymsg.SetPlaceholdersAndID not found")
		return
	}
	if node := c.VTA().Nodes[set]; node != nil {
		for _, e := range node.In {
			caller := e.Caller.Func
			crel := ""
			if caller.Pkg != nil {
				crel, _ = relOf(caller.Pkg.Pkg)
			}
			key := "soymsg.SetPlaceholdersAndID called-from " + strings.ReplaceAll(caller.String(), modPath+"/", "")
			c.check(crel == "parsepasses" || strings.Contains(crel, "xgettext"), "R10c", key, e.Site.Pos(),
				"called from the compile pass / extractor only", "ids are (re)computed outside the compile pass: a render or another caller can change them after compilation")
		}
	}
}

func relName(rel string) string {
	if rel == "" {
		return "soy"
	}
	return rel
}

// allPkgFunctions lists every function, method and nested literal of an SSA package.
func allPkgFunctions(c *Ctx, pkg *ssa.Package) []*ssa.Function {
	var all []*ssa.Function
	seen := map[*ssa.Function]bool{}
	var add func(f *ssa.Function)
	add = func(f *ssa.Function) {
		if f == nil || seen[f] || f.Blocks == nil {
			return
		}
		seen[f] = true
		all = append(all, f)
		for _, an := range f.AnonFuncs {
			add(an)
		}
	}
	for _, m := range pkg.Members {
		switch m := m.(type) {
		case *ssa.Function:
			add(m)
		case *ssa.Type:
			for _, typ := range []types.Type{m.Type(), types.NewPointer(m.Type())} {
				ms := c.Prog.MethodSets.MethodSet(typ)
				for i := 0; i < ms.Len(); i++ {
					if f := c.Prog.MethodValue(ms.At(i)); f != nil && f.Pkg == pkg {
						add(f)
					}
				}
			}
		}
	}
	sort.Slice(all, func(i, j int) bool { return all[i].String() < all[j].String() })
	return all
}

// R10d: a suffixed placeholder name is tested against the table of base names (as the official algorithm
// does), so that it can never coincide with another placeholder's own name.
// R10e: the bodies of a plural's explicit cases and of its default are fingerprinted alike.
func ruleR10d(c *Ctx) {
	p := c.pkg("soymsg")
	fd := c.mustFunc("soymsg", "setPlaceholderNames")
	wf := c.mustFunc("soymsg", "writeFingerprint")
	if p == nil || fd == nil || wf == nil {
		return
	}
	info := p.TypesInfo
	// the base-name table: the map indexed by the variable holding the generated base name in step 1
	baseTables := map[types.Object]bool{}
	var baseVar types.Object
	ast.Inspect(fd.Body, func(x ast.Node) bool {
		if as, ok := x.(*ast.AssignStmt); ok && len(as.Lhs) == 1 && len(as.Rhs) == 1 {
			if call, ok := ast.Unparen(as.Rhs[0]).(*ast.CallExpr); ok {
				if cal := calleeFunc(call, info); cal != nil && strings.Contains(cal.Name(), "BasePlaceholderName") {
					if id, ok := as.Lhs[0].(*ast.Ident); ok {
						baseVar = info.Uses[id]
						if baseVar == nil {
							baseVar = info.Defs[id]
						}
					}
				}
			}
		}
		return true
	})
	if baseVar == nil {
		c.fatalf("anchor: the base-name variable of setPlaceholderNames not found")
		return
	}
	ast.Inspect(fd.Body, func(x ast.Node) bool {
		if ix, ok := x.(*ast.IndexExpr); ok {
			if id, ok := ast.Unparen(ix.Index).(*ast.Ident); ok && info.Uses[id] == baseVar {
				if m, ok := ast.Unparen(ix.X).(*ast.Ident); ok {
					baseTables[info.Uses[m]] = true
				}
			}
		}
		return true
	})
	// helpers the naming steps were moved into: a base table handed to a helper is the same table there
	helpers := c.withHelpers("soymsg", fd, 2)
	ast.Inspect(fd.Body, func(x ast.Node) bool {
		call, ok := x.(*ast.CallExpr)
		if !ok {
			return true
		}
		cal := calleeFunc(call, info)
		for _, hd := range helpers[1:] {
			if info.Defs[hd.Name] != types.Object(cal) {
				continue
			}
			i := 0
			for _, fl := range hd.Type.Params.List {
				for _, nm := range fl.Names {
					if i < len(call.Args) {
						if id, ok := ast.Unparen(call.Args[i]).(*ast.Ident); ok && baseTables[info.Uses[id]] {
							baseTables[info.Defs[nm]] = true
						}
					}
					i++
				}
			}
		}
		return true
	})
	// the collision test: a comma-ok lookup keyed by a name built with strconv.Itoa
	n := 0
	for _, hd := range helpers {
		scopeBody := hd.Body
		ast.Inspect(scopeBody, func(x ast.Node) bool {
			ifs, ok := x.(*ast.IfStmt)
			if !ok || ifs.Init == nil {
				return true
			}
			as, ok := ifs.Init.(*ast.AssignStmt)
			if !ok || len(as.Rhs) != 1 {
				return true
			}
			ix, ok := ast.Unparen(as.Rhs[0]).(*ast.IndexExpr)
			if !ok {
				return true
			}
			key, ok := ast.Unparen(ix.Index).(*ast.Ident)
			if !ok {
				return true
			}
			init := resolveLocalInit(key, scopeBody, info)
			if !strings.Contains(exprKey(init), "Itoa") {
				return true
			}
			n++
			m, _ := ast.Unparen(ix.X).(*ast.Ident)
			c.check(m != nil && baseTables[info.Uses[m]], "R10d", "soymsg.setPlaceholderNames suffix-collision-table", ifs.Pos(),
				"a suffixed name is skipped when it equals some placeholder's base name",
				"a suffixed name is tested against "+exprKey(ix.X)+" instead of the base-name table: it can coincide with the name another placeholder gets later, which then overwrites it (empty or shifted placeholder names, hence different ids)")
			return true
		})
	}
	c.floor("R10d", "suffix collision tests", 1, n)
	// R10e
	winfo := info
	ast.Inspect(wf.Body, func(x ast.Node) bool {
		cc, ok := x.(*ast.CaseClause)
		if !ok || len(cc.List) != 1 {
			return true
		}
		tv, ok := winfo.Types[cc.List[0]]
		if !ok {
			return true
		}
		if _, tn, ok := relPkgOfType(tv.Type); !ok || tn != "MsgPluralNode" {
			return true
		}
		args := map[string]bool{}
		calls := 0
		// helpers that hand their own bool parameter on to writeFingerprint as the brace setting
		forwards := map[*types.Func]int{}
		for _, hd := range c.allFuncDecls("soymsg") {
			if hd == wf {
				continue
			}
			pidx := -1
			var pobj types.Object
			i := 0
			for _, fl := range hd.Type.Params.List {
				for _, nm := range fl.Names {
					if b, ok := winfo.Defs[nm].Type().Underlying().(*types.Basic); ok && b.Kind() == types.Bool {
						pidx, pobj = i, winfo.Defs[nm]
					}
					i++
				}
			}
			if pidx < 0 {
				continue
			}
			inner, fwd := 0, 0
			ast.Inspect(hd.Body, func(y ast.Node) bool {
				if call, ok := y.(*ast.CallExpr); ok && calleeFunc(call, winfo) == winfo.Defs[wf.Name] && len(call.Args) == 3 {
					inner++
					if id, ok := ast.Unparen(call.Args[2]).(*ast.Ident); ok && winfo.Uses[id] == pobj {
						fwd++
					}
				}
				return true
			})
			if inner > 0 && inner == fwd {
				if hfn, ok := winfo.Defs[hd.Name].(*types.Func); ok {
					forwards[hfn] = pidx
				}
			}
		}
		// the arm, or the function the arm hands the plural node to (writePluralFingerprint(buf, part))
		armScope := &ast.BlockStmt{}
		fwdBodies := map[ast.Node]bool{}
		for _, hd := range c.allFuncDecls("soymsg") {
			if hfn, ok := winfo.Defs[hd.Name].(*types.Func); ok {
				if _, isFwd := forwards[hfn]; isFwd {
					fwdBodies[hd.Body] = true // counted through the brace setting handed to it, below
				}
			}
		}
		for _, nd := range c.nodeWithHelpers("soymsg", cc, 1) {
			if nd == ast.Node(wf.Body) || fwdBodies[nd] {
				continue
			}
			if st, ok := nd.(ast.Stmt); ok {
				armScope.List = append(armScope.List, st)
			}
		}
		ast.Inspect(armScope, func(y ast.Node) bool {
			call, ok := y.(*ast.CallExpr)
			if !ok {
				return true
			}
			cal := calleeFunc(call, winfo)
			if cal == winfo.Defs[wf.Name] && len(call.Args) == 3 {
				calls++
				args[exprKey(call.Args[2])] = true
			} else if idx, ok := forwards[cal]; ok && idx < len(call.Args) {
				calls++
				args[exprKey(call.Args[idx])] = true
			}
			return true
		})
		c.check(calls >= 2 && len(args) == 1 && args["true"], "R10e", "soymsg.writeFingerprint plural-bodies-braced", cc.Pos(),
			"every plural body (explicit cases and default) is written with braced placeholders",
			fmt.Sprintf("the plural bodies are fingerprinted with different brace settings %v: the id no longer is the fingerprint of the placeholder string", sortedKeys(args)))
		return true
	})
}

// R10f: two placeholders are the same placeholder only if their complete printed text is the same
// (directives included). R10g: the id computation has no input but the message.
func ruleR10f(c *Ctx) {
	p := c.pkg("soymsg")
	fd := c.mustFunc("soymsg", "setPlaceholderNames")
	if p == nil || fd == nil {
		return
	}
	info := p.TypesInfo
	astPkg := c.pkg("ast")
	nodeIface := astPkg.Types.Scope().Lookup("Node").Type().Underlying().(*types.Interface)
	// e is X.String() (possibly through a local initialised to it) for a node X; returns X's text
	nodeStringOf := func(e ast.Expr, scope ast.Node) (string, bool) {
		e = resolveLocalInit(e, scope, info)
		call, ok := ast.Unparen(e).(*ast.CallExpr)
		if !ok || len(call.Args) != 0 {
			return "", false
		}
		se, ok := call.Fun.(*ast.SelectorExpr)
		if !ok || se.Sel.Name != "String" {
			return "", false
		}
		tv, ok := info.Types[se.X]
		if !ok {
			return "", false
		}
		if _, isIface := tv.Type.Underlying().(*types.Interface); !isIface || !types.Implements(tv.Type, nodeIface) {
			return "", false
		}
		return exprKey(se.X), true
	}
	// the if whose condition is equality of two nodes' complete printed text, one of them being `who`
	selectsByFullString := func(cond ast.Expr, who string, scope ast.Node) bool {
		be, ok := ast.Unparen(cond).(*ast.BinaryExpr)
		if !ok || be.Op != token.EQL {
			return false
		}
		a, okA := nodeStringOf(be.X, scope)
		b, okB := nodeStringOf(be.Y, scope)
		return okA && okB && (a == who || b == who)
	}
	// enclosing if statements of every node of a body
	enclosing := func(body ast.Node, target ast.Node) []*ast.IfStmt {
		var out, stack []*ast.IfStmt
		var all []ast.Node
		ast.Inspect(body, func(x ast.Node) bool {
			if x == nil {
				top := all[len(all)-1]
				all = all[:len(all)-1]
				if _, ok := top.(*ast.IfStmt); ok {
					stack = stack[:len(stack)-1]
				}
				return true
			}
			all = append(all, x)
			if ifs, ok := x.(*ast.IfStmt); ok {
				stack = append(stack, ifs)
			}
			if x == target {
				out = append([]*ast.IfStmt{}, stack...)
			}
			return true
		})
		return out
	}
	byFunc := map[*types.Func]*ast.FuncDecl{}
	for _, d := range c.allFuncDecls("soymsg") {
		if fn, ok := info.Defs[d.Name].(*types.Func); ok {
			byFunc[fn] = d
		}
	}
	n := 0
	ast.Inspect(fd.Body, func(x ast.Node) bool {
		as, ok := x.(*ast.AssignStmt)
		if !ok || len(as.Lhs) != 1 || len(as.Rhs) != 1 {
			return true
		}
		ix, ok := as.Lhs[0].(*ast.IndexExpr)
		if !ok {
			return true
		}
		tv, ok := info.Types[ix.X]
		if !ok {
			return true
		}
		m, ok := tv.Type.Underlying().(*types.Map)
		if !ok || !types.Implements(m.Key(), nodeIface) || !types.Implements(m.Elem(), nodeIface) {
			return true
		}
		n++
		key := "soymsg.setPlaceholderNames placeholder-equivalence"
		if n > 1 {
			key += "#" + itoa(n)
		}
		val := exprKey(as.Rhs[0])
		good, why := false, "the node recorded as equivalent ("+val+") was not selected by comparing complete printed texts"
		// (a) the store sits under such a test
		for _, ifs := range enclosing(fd.Body, as) {
			inThen := false
			ast.Inspect(ifs.Body, func(y ast.Node) bool {
				if y == ast.Node(as) {
					inThen = true
				}
				return true
			})
			if inThen && selectsByFullString(ifs.Cond, val, fd.Body) {
				good = true
			}
		}
		// (b) the value comes from a helper whose every non-nil return is selected that way
		if !good {
			def := resolveLocalInit(as.Rhs[0], fd.Body, info)
			if call, ok := ast.Unparen(def).(*ast.CallExpr); ok {
				if hd := byFunc[calleeFunc(call, info)]; hd != nil {
					rets, okRets := 0, 0
					ast.Inspect(hd.Body, func(y ast.Node) bool {
						r, ok := y.(*ast.ReturnStmt)
						if !ok || len(r.Results) != 1 {
							return true
						}
						if id, ok := ast.Unparen(r.Results[0]).(*ast.Ident); ok && id.Name == "nil" {
							return true
						}
						rets++
						rv := exprKey(r.Results[0])
						for _, ifs := range enclosing(hd.Body, r) {
							if selectsByFullString(ifs.Cond, rv, hd.Body) {
								okRets++
								break
							}
						}
						return true
					})
					if rets > 0 && rets == okRets {
						good = true
					} else {
						why = "the node recorded as equivalent comes from " + hd.Name.Name + ", which does not return only nodes whose complete printed text equals the other's"
					}
				}
			}
		}
		c.check(good, "R10f", key, as.Pos(),
			"two placeholders are merged only when their complete printed source (expression and directives) is equal",
			why+": placeholders that differ (for instance only in their print directives) share one name, and a translated message renders the first one for both")
		return true
	})
	c.floor("R10f", "placeholder equivalence tests", 1, n)
}

// R10g: the id and placeholder computations have no input but the message node.
func ruleR10g(c *Ctx) {
	p := c.pkg("soymsg")
	if p == nil {
		return
	}
	info := p.TypesInfo
	for _, name := range []string{"SetPlaceholdersAndID", "calcID", "setPlaceholderNames"} {
		f := c.mustFunc("soymsg", name)
		if f == nil {
			continue
		}
		np := 0
		okType := false
		for _, fl := range f.Type.Params.List {
			np += len(fl.Names)
			if tv, ok := info.Types[fl.Type]; ok {
				if _, tn, ok := relPkgOfType(tv.Type); ok && tn == "MsgNode" {
					okType = true
				}
			}
		}
		c.check(np == 1 && okType, "R10g", "soymsg."+name+" inputs", f.Pos(), "the message node is the only input",
			"the id / placeholder computation takes "+fmt.Sprint(np)+" inputs: with anything but the message as input (a cache, a registry, a counter) the id depends on what was processed before")
	}
}

// R10i: in the fingerprint's hash, the block loop and the switch over what is left partition the input: if
// the loop goes on while at least K bytes remain (or more than K), at most K-1 (or K) bytes are left, and
// the switch has a case for every such count. A count without a case drops those bytes from the hash.
func ruleR10i(c *Ctx) {
	p := c.pkg("soymsg")
	if p == nil {
		return
	}
	info := p.TypesInfo
	pairs := 0
	for _, fd := range c.allFuncDecls("soymsg") {
		for si, st := range fd.Body.List {
			fs, ok := st.(*ast.ForStmt)
			if !ok || fs.Cond == nil {
				continue
			}
			be, ok := ast.Unparen(fs.Cond).(*ast.BinaryExpr)
			if !ok {
				continue
			}
			constOf := func(e ast.Expr) (int64, bool) {
				tv, ok := info.Types[e]
				if !ok || tv.Value == nil {
					return 0, false
				}
				v, exact := constant.Int64Val(tv.Value)
				return v, exact
			}
			remaining, max := "", int64(-1)
			switch be.Op {
			case token.LEQ, token.LSS: // X + K <= Y  /  X + K < Y
				if sum, ok := ast.Unparen(be.X).(*ast.BinaryExpr); ok && sum.Op == token.ADD {
					if k, ok := constOf(sum.Y); ok {
						remaining = exprKey(be.Y) + " - " + exprKey(sum.X)
						max = k - 1
						if be.Op == token.LSS {
							max = k
						}
					}
				}
			case token.GEQ, token.GTR: // len(S) >= K  /  len(S) > K
				if k, ok := constOf(be.Y); ok {
					remaining = exprKey(be.X)
					max = k - 1
					if be.Op == token.GTR {
						max = k
					}
				}
			}
			if remaining == "" || max < 1 {
				continue
			}
			// the switch over what is left, later in the same body
			for _, later := range fd.Body.List[si+1:] {
				sw, ok := later.(*ast.SwitchStmt)
				if !ok || sw.Tag == nil || exprKey(sw.Tag) != remaining {
					continue
				}
				pairs++
				have := map[int64]bool{}
				hasDefault := false
				for _, cl := range sw.Body.List {
					cc := cl.(*ast.CaseClause)
					if cc.List == nil {
						hasDefault = true
					}
					for _, e := range cc.List {
						if v, ok := constOf(e); ok {
							have[v] = true
						}
					}
				}
				var missing []string
				for v := int64(1); v <= max; v++ {
					if !have[v] {
						missing = append(missing, fmt.Sprint(v))
					}
				}
				key := c.declKey("soymsg", fd) + " block-loop/tail-switch"
				c.check(len(missing) == 0 || hasDefault, "R10i", key, sw.Pos(), fmt.Sprintf("the loop leaves at most %d bytes and the switch has a case for each count", max),
					fmt.Sprintf("the loop leaves up to %d bytes (%s), but the switch over them has no case for %s: inputs of that residual length lose their last bytes from the fingerprint, so different texts share an id", max, remaining, strings.Join(missing, ", ")))
			}
		}
	}
	c.floor("R10i", "block loop / tail switch pairs in the fingerprint hash", 1, pairs)
}

// R10j: placeholder names are normalised as the official algorithm does: a run of underscores collapses to
// one. strings.Replace(s, "__", "_", -1) (old = new+new) is a single non-overlapping pass that only halves a
// run ("___" becomes "__"), so names — and with them ids — diverge for such identifiers. The naming code
// collapses runs with a pattern that matches the whole run.
func ruleR10j(c *Ctx) {
	p := c.pkg("soymsg")
	fd := c.mustFunc("soymsg", "toUpperUnderscore")
	if p == nil || fd == nil {
		return
	}
	info := p.TypesInfo
	nbad := 0
	for _, d := range c.allFuncDecls("soymsg") {
		ast.Inspect(d.Body, func(x ast.Node) bool {
			call, ok := x.(*ast.CallExpr)
			if !ok {
				return true
			}
			cal := calleeFunc(call, info)
			if cal == nil || cal.Pkg() == nil || cal.Pkg().Path() != "strings" || (cal.Name() != "Replace" && cal.Name() != "ReplaceAll") || len(call.Args) < 3 {
				return true
			}
			o, n := info.Types[call.Args[1]].Value, info.Types[call.Args[2]].Value
			if o == nil || n == nil || o.Kind() != constant.String || n.Kind() != constant.String {
				return true
			}
			os, ns := constant.StringVal(o), constant.StringVal(n)
			if ns != "" && os == ns+ns {
				nbad++
				c.bad("R10j", fmt.Sprintf("%s halves-runs#%d", c.declKey("soymsg", d), nbad), call.Pos(),
					fmt.Sprintf("strings.%s(…, %q, %q) makes one non-overlapping pass: a run of three or more is only shortened, not collapsed, so the placeholder name (and the id computed from it) differs from the official one for such identifiers", cal.Name(), os, ns))
			}
			return true
		})
	}
	// the run-collapsing pattern is present: a regexp with a + quantifier over the underscore, used in toUpperUnderscore
	collapses := false
	ast.Inspect(fd.Body, func(x ast.Node) bool {
		call, ok := x.(*ast.CallExpr)
		if !ok {
			return true
		}
		se, ok := call.Fun.(*ast.SelectorExpr)
		if !ok || !strings.HasPrefix(se.Sel.Name, "ReplaceAll") {
			return true
		}
		if id, ok := ast.Unparen(se.X).(*ast.Ident); ok {
			if init := c.pkgVarInit("soymsg", id.Name); init != nil {
				ast.Inspect(init, func(y ast.Node) bool {
					if bl, ok := y.(*ast.BasicLit); ok && strings.Contains(bl.Value, "__+") || ok && strings.Contains(bl.Value, "_{2,}") {
						collapses = true
					}
					return true
				})
			}
		}
		return true
	})
	c.check(collapses, "R10j", "soymsg.toUpperUnderscore collapses-underscore-runs", fd.Pos(), "runs of underscores are collapsed by a pattern that matches the whole run",
		"toUpperUnderscore no longer collapses runs of underscores with a pattern that matches a whole run: names for identifiers with three or more consecutive underscores differ from the official ones")
}

// R10k: each way of writing an access in a data reference is parsed to one kind of node: in parseDataRef's
// switch over the token, an arm builds access nodes of a single type. (Placeholder names are derived from
// the kind of the last access — only a key access lends its name — and printing follows the node kind, so an
// arm that turns $a['b'] into the node of $a.b changes names, ids and the printed text of what was written.)
func ruleR10k(c *Ctx) {
	p := c.pkg("parse")
	fd := c.mustFunc("parse", "tree.parseDataRef")
	if p == nil || fd == nil {
		return
	}
	info := p.TypesInfo
	n := 0
	ast.Inspect(fd.Body, func(x ast.Node) bool {
		cc, ok := x.(*ast.CaseClause)
		if !ok || len(cc.List) == 0 {
			return true
		}
		kinds := map[string]bool{}
		ast.Inspect(&ast.BlockStmt{List: cc.Body}, func(y ast.Node) bool {
			cl, ok := y.(*ast.CompositeLit)
			if !ok {
				return true
			}
			if tv, ok := info.Types[cl]; ok {
				if r, tn, ok := relPkgOfType(tv.Type); ok && r == "ast" && strings.HasPrefix(tn, "DataRef") {
					kinds[tn] = true
				}
			}
			return true
		})
		if len(kinds) == 0 {
			return true
		}
		n++
		var toks []string
		for _, e := range cc.List {
			toks = append(toks, exprKey(e))
		}
		c.check(len(kinds) == 1, "R10k", "parse.tree.parseDataRef arm "+strings.Join(toks, ","), cc.Pos(), "builds "+strings.Join(sortedKeys(kinds), ""),
			"this arm builds access nodes of different kinds ("+strings.Join(sortedKeys(kinds), ", ")+") for one source form: the same spelling is then named, fingerprinted and printed as if it had been written the other way")
		return true
	})
	c.floor("R10k", "access-building arms of parseDataRef", 3, n)
}
