package main

import (
	"fmt"
	"go/ast"
	"go/constant"
	"go/token"
	"go/types"
	"sort"
	"strings"
)

// ---- round 6 rules ----

// parseFuncByName: the package-level function (no receiver) of package parse with this name.
func parseFuncByName(c *Ctx, name string) *ast.FuncDecl {
	for _, fd := range c.allFuncDecls("parse") {
		if fd.Recv == nil && fd.Name.Name == name {
			return fd
		}
	}
	return nil
}

// runePredicatesCalled: module functions func(rune) bool called (transitively through such predicates) from the
// given bodies.
func runePredicatesCalled(c *Ctx, rel string, bodies []*ast.FuncDecl) map[*types.Func]*ast.FuncDecl {
	p := c.Pkgs[rel]
	info := p.TypesInfo
	byFunc := map[*types.Func]*ast.FuncDecl{}
	for _, d := range c.allFuncDecls(rel) {
		if fn, ok := info.Defs[d.Name].(*types.Func); ok {
			byFunc[fn] = d
		}
	}
	isPred := func(fn *types.Func) bool {
		sig := fn.Type().(*types.Signature)
		if sig.Recv() != nil || sig.Params().Len() != 1 || sig.Results().Len() != 1 {
			return false
		}
		pb, ok1 := sig.Params().At(0).Type().Underlying().(*types.Basic)
		rb, ok2 := sig.Results().At(0).Type().Underlying().(*types.Basic)
		return ok1 && ok2 && pb.Kind() == types.Int32 && rb.Kind() == types.Bool
	}
	out := map[*types.Func]*ast.FuncDecl{}
	var visit func(n ast.Node)
	visit = func(n ast.Node) {
		ast.Inspect(n, func(x ast.Node) bool {
			call, ok := x.(*ast.CallExpr)
			if !ok {
				return true
			}
			fn := calleeFunc(call, info)
			if fn == nil || byFunc[fn] == nil || !isPred(fn) || out[fn] != nil {
				return true
			}
			out[fn] = byFunc[fn]
			visit(byFunc[fn].Body)
			return true
		})
	}
	for _, b := range bodies {
		visit(b.Body)
	}
	return out
}

// R15f: the line joiner counts a run of blanks in characters and copies it back by bytes (s[lastpos-spaces:
// lastpos]), and the text scanner backs up a fixed number of bytes over "one space": both are right only while
// every character their classifiers accept is one byte long. Every func(rune) bool of package parse that
// rawtext or lexText call (directly or through another such predicate) therefore consults no Unicode table
// and compares with one-byte constants only.
func ruleR15f(c *Ctx) {
	p := c.pkg("parse")
	if p == nil {
		return
	}
	info := p.TypesInfo
	var roots []*ast.FuncDecl
	for _, name := range []string{"rawtext", "lexText"} {
		fd := parseFuncByName(c, name)
		if fd == nil {
			c.fatalf("anchor: parse.%s not found", name)
			return
		}
		roots = append(roots, c.withHelpers("parse", fd, 2)...)
	}
	preds := runePredicatesCalled(c, "parse", roots)
	var fns []*types.Func
	for fn := range preds {
		fns = append(fns, fn)
	}
	sort.Slice(fns, func(i, j int) bool { return fns[i].Name() < fns[j].Name() })
	n := 0
	for _, fn := range fns {
		fd := preds[fn]
		n++
		key := "parse." + fn.Name() + " one-byte-classifier"
		why := ""
		var at token.Pos = fd.Pos()
		ast.Inspect(fd.Body, func(x ast.Node) bool {
			switch e := x.(type) {
			case *ast.CallExpr:
				if cal := calleeFunc(e, info); cal != nil && cal.Pkg() != nil && cal.Pkg().Path() == "unicode" && why == "" {
					why, at = "it asks unicode."+cal.Name()+", which accepts characters of two and three bytes (U+00A0, U+2028, U+3000 ...)", e.Pos()
				}
			case ast.Expr:
				if tv, ok := info.Types[e]; ok && tv.Value != nil && tv.Value.Kind() == constant.Int && why == "" {
					if v, exact := constant.Int64Val(tv.Value); exact && v >= 0x80 {
						if _, isLit := e.(*ast.BasicLit); isLit {
							why, at = fmt.Sprintf("it accepts the character U+%04X, which is longer than one byte", v), e.Pos()
						}
					}
				}
			}
			return true
		})
		c.check(why == "", "R15f", key, at, "compares with one-byte characters only",
			"the classifier is used where characters are counted and bytes are copied (rawtext's run of blanks, lexText's step back over one space), but "+why+": such a character in template text is cut in the middle or dropped")
	}
	c.floor("R15f", "character classifiers used by rawtext and lexText", 3, n)
}

// R15g: a line ends at "\r\n", "\r" or "\n" (isEndOfLine). A forward search for the end of a line in package
// parse that looks for "\n" alone treats a lone carriage return as ordinary text: the comment or the fast path
// built on it runs on to the next line. (Counting "\n" and searching backwards for it is how positions are
// computed, R19l, and is not a search for the end of a line.)
func ruleR15g(c *Ctx) {
	p := c.pkg("parse")
	if p == nil {
		return
	}
	info := p.TypesInfo
	forward := map[string]bool{"Index": true, "IndexByte": true, "IndexRune": true, "IndexAny": true, "Contains": true, "ContainsRune": true, "ContainsAny": true,
		"Cut": true, "Split": true, "SplitN": true, "SplitAfter": true, "SplitAfterN": true}
	nsearch, n := 0, 0
	for _, fd := range c.allFuncDecls("parse") {
		if strings.HasSuffix(c.Fset.Position(fd.Pos()).Filename, "_test.go") {
			continue
		}
		ord := 0
		ast.Inspect(fd.Body, func(x ast.Node) bool {
			call, ok := x.(*ast.CallExpr)
			if !ok || len(call.Args) < 2 {
				return true
			}
			cal := calleeFunc(call, info)
			if cal == nil || cal.Pkg() == nil || (cal.Pkg().Path() != "strings" && cal.Pkg().Path() != "bytes") || !forward[cal.Name()] {
				return true
			}
			nsearch++
			tv, ok := info.Types[call.Args[1]]
			if !ok || tv.Value == nil {
				return true
			}
			needle := ""
			switch tv.Value.Kind() {
			case constant.String:
				needle = constant.StringVal(tv.Value)
			case constant.Int:
				v, _ := constant.Int64Val(tv.Value)
				needle = string(rune(v))
			}
			if !strings.Contains(needle, "\n") {
				return true
			}
			ord++
			n++
			c.check(strings.Contains(needle, "\r"), "R15g", fmt.Sprintf("%s line-end-search#%d", c.declKey("parse", fd), ord), call.Pos(),
				"the search for a line end looks for the carriage return too",
				"the search for the end of a line looks for \"\\n\" only: a line that ends in a lone carriage return is not seen to end, so what follows it is swallowed (a comment) or left unjoined (the fast path)")
			return true
		})
	}
	if n == 0 {
		c.ok("R15g", "parse line-end-searches", p.Syntax[0].Pos(), fmt.Sprintf("%d forward searches in package parse examined; none looks for a line feed alone (line ends are recognised through isEndOfLine)", nsearch))
	}
}

// R15h: the line joiner copies the bytes of the text it keeps; it never writes a character it has decoded
// back through an encoder (EncodeRune / AppendRune / WriteRune / string(r)): for bytes that are not valid
// UTF-8 the decoder yields U+FFFD, which re-encodes to three other bytes (different text, a different message
// id, and more bytes than the buffer sized by the input holds).
func ruleR15h(c *Ctx) {
	p := c.pkg("parse")
	fd := parseFuncByName(c, "rawtext")
	if p == nil {
		return
	}
	if fd == nil {
		c.fatalf("anchor: parse.rawtext not found")
		return
	}
	info := p.TypesInfo
	n := 0
	for _, hd := range c.withHelpers("parse", fd, 2) {
		key := c.declKey("parse", hd) + " copies-bytes"
		why := ""
		var at token.Pos = hd.Pos()
		ast.Inspect(hd.Body, func(x ast.Node) bool {
			call, ok := x.(*ast.CallExpr)
			if !ok || why != "" {
				return true
			}
			if cal := calleeFunc(call, info); cal != nil {
				full := cal.FullName()
				switch {
				case cal.Pkg() != nil && cal.Pkg().Path() == "unicode/utf8" && (cal.Name() == "EncodeRune" || cal.Name() == "AppendRune"):
					why, at = "utf8."+cal.Name(), call.Pos()
				case strings.HasSuffix(full, ".WriteRune"):
					why, at = full, call.Pos()
				}
				return true
			}
			// conversion string(r) of a rune
			if tv, ok := info.Types[call.Fun]; ok && tv.IsType() && len(call.Args) == 1 {
				if b, ok := tv.Type.Underlying().(*types.Basic); ok && b.Info()&types.IsString != 0 {
					if atv, ok := info.Types[call.Args[0]]; ok && atv.Value == nil {
						if ab, ok := atv.Type.Underlying().(*types.Basic); ok && ab.Info()&types.IsInteger != 0 {
							why, at = "string("+exprKey(call.Args[0])+")", call.Pos()
						}
					}
				}
			}
			return true
		})
		n++
		c.check(why == "", "R15h", key, at, "no decoded character is re-encoded into the output",
			"the output is written through "+why+": a byte that is not valid UTF-8 comes out as U+FFFD (three bytes), so the text is no longer the author's and can outgrow a buffer sized by the input")
	}
	c.floor("R15h", "functions of the line joiner", 1, n)
}

// R17j: a numeric literal the scanner accepted becomes a node only if strconv converted it without error:
// every error from strconv.ParseInt / ParseUint / ParseFloat in package parse is raised whenever it is not nil
// (`if err != nil { raise }` with no further condition, or handed to a helper that does exactly that). A range
// error let through yields ±Inf, which prints as "+Inf" and does not parse back.
func ruleR17j(c *Ctx) {
	p := c.pkg("parse")
	if p == nil {
		return
	}
	info := p.TypesInfo
	nr := newNoRet(c)
	byFunc := map[*types.Func]*ast.FuncDecl{}
	for _, d := range c.allFuncDecls("parse") {
		if fn, ok := info.Defs[d.Name].(*types.Func); ok {
			byFunc[fn] = d
		}
	}
	// raisesWhenNotNil: stmt is `if <obj> != nil { ...noreturn... }`
	raisesWhenNotNil := func(st ast.Stmt, obj types.Object, inf *types.Info) bool {
		ifs, ok := st.(*ast.IfStmt)
		if !ok || ifs.Init != nil {
			return false
		}
		be, ok := ast.Unparen(ifs.Cond).(*ast.BinaryExpr)
		if !ok || be.Op != token.NEQ {
			return false
		}
		id, ok := ast.Unparen(be.X).(*ast.Ident)
		if !ok || inf.Uses[id] != obj {
			return false
		}
		if y, ok := ast.Unparen(be.Y).(*ast.Ident); !ok || y.Name != "nil" {
			return false
		}
		raises := false
		for _, s := range ifs.Body.List {
			if es, ok := s.(*ast.ExprStmt); ok {
				if call, ok := es.X.(*ast.CallExpr); ok && nr.callNoReturn(call, inf) {
					raises = true
				}
			}
			// ... or handed back to the caller: return "", err
			if rs, ok := s.(*ast.ReturnStmt); ok {
				for _, r := range rs.Results {
					if rid, ok := ast.Unparen(r).(*ast.Ident); ok && inf.Uses[rid] == obj {
						raises = true
					}
				}
			}
		}
		return raises
	}
	n := 0
	for _, fd := range c.allFuncDecls("parse") {
		if strings.HasSuffix(c.Fset.Position(fd.Pos()).Filename, "_test.go") {
			continue
		}
		ord := 0
		var lists [][]ast.Stmt
		ast.Inspect(fd.Body, func(x ast.Node) bool {
			switch b := x.(type) {
			case *ast.BlockStmt:
				lists = append(lists, b.List)
			case *ast.CaseClause:
				lists = append(lists, b.Body)
			}
			return true
		})
		for _, list := range lists {
			for i, st := range list {
				as, ok := st.(*ast.AssignStmt)
				var lhs []ast.Expr
				var rhs ast.Expr
				if ok && len(as.Rhs) == 1 && len(as.Lhs) == 2 {
					lhs, rhs = as.Lhs, as.Rhs[0]
				} else if ds, ok := st.(*ast.DeclStmt); ok {
					if gd, ok := ds.Decl.(*ast.GenDecl); ok && len(gd.Specs) == 1 {
						if vs, ok := gd.Specs[0].(*ast.ValueSpec); ok && len(vs.Names) == 2 && len(vs.Values) == 1 {
							lhs, rhs = []ast.Expr{vs.Names[0], vs.Names[1]}, vs.Values[0]
						}
					}
				}
				if rhs == nil {
					continue
				}
				call, ok := ast.Unparen(rhs).(*ast.CallExpr)
				if !ok {
					continue
				}
				cal := calleeFunc(call, info)
				if cal == nil || cal.Pkg() == nil || cal.Pkg().Path() != "strconv" || !strings.HasPrefix(cal.Name(), "Parse") {
					continue
				}
				errObj := defObj(info, lhs[1])
				ord++
				n++
				key := fmt.Sprintf("%s %s-error#%d", c.declKey("parse", fd), cal.Name(), ord)
				good := false
				if errObj != nil {
					for _, next := range list[i+1:] {
						if raisesWhenNotNil(next, errObj, info) {
							good = true
							break
						}
						// handed to a helper: t.check(err)
						if es, ok := next.(*ast.ExprStmt); ok {
							if hc, ok := es.X.(*ast.CallExpr); ok && len(hc.Args) == 1 {
								if id, ok := ast.Unparen(hc.Args[0]).(*ast.Ident); ok && info.Uses[id] == errObj {
									if hd := byFunc[calleeFunc(hc, info)]; hd != nil && len(hd.Body.List) >= 1 && hd.Type.Params.NumFields() == 1 && len(hd.Type.Params.List[0].Names) == 1 {
										if raisesWhenNotNil(hd.Body.List[0], info.Defs[hd.Type.Params.List[0].Names[0]], info) {
											good = true
											break
										}
									}
								}
							}
						}
						// any other use of the error first: stop
						uses := false
						ast.Inspect(next, func(y ast.Node) bool {
							if id, ok := y.(*ast.Ident); ok && info.Uses[id] == errObj {
								uses = true
							}
							return true
						})
						if uses {
							break
						}
					}
				}
				c.check(good, "R17j", key, call.Pos(), "the conversion error is raised whenever it is not nil",
					"the error of strconv."+cal.Name()+" is not raised on every failure: a literal out of range becomes a node holding the clamped value (±Inf for a float, which prints as \"+Inf\" and does not parse back)")
			}
		}
	}
	c.floor("R17j", "strconv conversions of literals in the parser", 3, n)
}

// loopVarsOf: iteration variables of the loops enclosing each node, collected while walking a function body.
// R19n: a function literal started with `go` (or deferred) inside a loop does not mention the loop's iteration
// variables: the module is built with per-loop (not per-iteration) variables (go.mod says go 1.12), so the
// goroutine sees whatever the variable holds when it gets to run: a file parsed under another file's name.
func ruleR19n(c *Ctx) {
	n, nlit := 0, 0
	for rel, p := range c.Pkgs {
		info := p.TypesInfo
		for _, fd := range c.allFuncDecls(rel) {
			if strings.HasSuffix(c.Fset.Position(fd.Pos()).Filename, "_test.go") {
				continue
			}
			var loopVars []map[types.Object]bool
			base := 0 // loops below this index lie outside the innermost function literal (a defer there runs within the iteration)
			var walk func(n ast.Node)
			walk = func(nd ast.Node) {
				ast.Inspect(nd, func(x ast.Node) bool {
					switch s := x.(type) {
					case *ast.RangeStmt:
						vars := map[types.Object]bool{}
						for _, e := range []ast.Expr{s.Key, s.Value} {
							if e != nil && s.Tok == token.DEFINE {
								if o := defObj(info, e); o != nil {
									vars[o] = true
								}
							}
						}
						loopVars = append(loopVars, vars)
						walk(s.Body)
						loopVars = loopVars[:len(loopVars)-1]
						return false
					case *ast.ForStmt:
						vars := map[types.Object]bool{}
						if as, ok := s.Init.(*ast.AssignStmt); ok && as.Tok == token.DEFINE {
							for _, l := range as.Lhs {
								if o := defObj(info, l); o != nil {
									vars[o] = true
								}
							}
						}
						loopVars = append(loopVars, vars)
						walk(s.Body)
						loopVars = loopVars[:len(loopVars)-1]
						return false
					case *ast.FuncLit:
						// a literal that is called or stored, not started: its defers run when it returns
						saved := base
						base = len(loopVars)
						walk(s.Body)
						base = saved
						return false
					case *ast.GoStmt, *ast.DeferStmt:
						var call *ast.CallExpr
						scope := loopVars
						if g, ok := s.(*ast.GoStmt); ok {
							call = g.Call
						} else {
							call = s.(*ast.DeferStmt).Call
							scope = loopVars[base:]
						}
						lit, ok := ast.Unparen(call.Fun).(*ast.FuncLit)
						if !ok || len(scope) == 0 {
							return true
						}
						nlit++
						var captured []string
						ast.Inspect(lit.Body, func(y ast.Node) bool {
							if id, ok := y.(*ast.Ident); ok {
								for _, vars := range scope {
									if vars[info.Uses[id]] {
										captured = append(captured, id.Name)
									}
								}
							}
							return true
						})
						n++
						c.check(len(captured) == 0, "R19n", fmt.Sprintf("%s goroutine-in-loop#%d", c.declKey(rel, fd), n), s.Pos(),
							"the literal mentions no iteration variable of an enclosing loop",
							"the function literal started here reads the loop variable "+strings.Join(sortedStrings(captured), ", ")+", which all iterations share: by the time it runs the variable holds a later element (a file is parsed under another file's name, so errors and positions name the wrong file)")
						return true
					}
					return true
				})
			}
			walk(fd.Body)
		}
	}
	if n == 0 {
		c.ok("R19n", "module goroutines-in-loops", token.NoPos, "no function literal is started with go or defer inside a loop anywhere in the module")
	}
}

// R13h: what Compile returns does not depend on how goroutines are scheduled: in the root package no function
// literal started with `go` assigns a variable it captured (the "first error wins" pattern, also through a
// nested literal such as once.Do(func(){ firstErr = err })). Writes to distinct elements of a captured slice
// are not assignments to the variable and are accepted.
func ruleR13h(c *Ctx) {
	p := c.Pkgs[""]
	if p == nil {
		return
	}
	info := p.TypesInfo
	n := 0
	for _, fd := range c.allFuncDecls("") {
		if strings.HasSuffix(c.Fset.Position(fd.Pos()).Filename, "_test.go") {
			continue
		}
		ast.Inspect(fd.Body, func(x ast.Node) bool {
			g, ok := x.(*ast.GoStmt)
			if !ok {
				return true
			}
			lit, ok := ast.Unparen(g.Call.Fun).(*ast.FuncLit)
			if !ok {
				return true
			}
			n++
			var written []string
			ast.Inspect(lit.Body, func(y ast.Node) bool {
				as, ok := y.(*ast.AssignStmt)
				if !ok || as.Tok == token.DEFINE {
					return true
				}
				for _, l := range as.Lhs {
					if id, ok := ast.Unparen(l).(*ast.Ident); ok {
						if o := info.Uses[id]; o != nil && (o.Pos() < lit.Pos() || o.Pos() > lit.End()) {
							if _, isVar := o.(*types.Var); isVar {
								written = append(written, id.Name)
							}
						}
					}
				}
				return true
			})
			c.check(len(written) == 0, "R13h", fmt.Sprintf("%s goroutine#%d", c.declKey("", fd), n), g.Pos(),
				"the goroutine assigns no variable of the function that started it",
				"the goroutine assigns "+strings.Join(sortedStrings(written), ", ")+" of the enclosing function: which goroutine gets there first (or last) decides the value, so the same bundle compiled twice can report a different error")
			return true
		})
	}
	if n == 0 {
		c.ok("R13h", "root-package goroutine-literals", token.NoPos, "the root package starts no function literal as a goroutine (the watcher is a method started once the result is final)")
	}
}

// R14g: a Generator is a view of the registry it was given: its methods keep nothing between calls. No method
// of soyjs.Generator assigns a field of its receiver or an element of one (a cache of generated files goes
// stale when the registry is recompiled in place or globals are rebound, while the Go renderer follows).
func ruleR14g(c *Ctx) {
	p := c.pkg("soyjs")
	if p == nil {
		return
	}
	info := p.TypesInfo
	n := 0
	for _, fd := range c.allFuncDecls("soyjs") {
		if fd.Recv == nil || len(fd.Recv.List) == 0 || recvTypeName(fd.Recv.List[0].Type) != "Generator" || len(fd.Recv.List[0].Names) == 0 {
			continue
		}
		recv := info.Defs[fd.Recv.List[0].Names[0]]
		n++
		var bad []string
		var at token.Pos = fd.Pos()
		ast.Inspect(fd.Body, func(x ast.Node) bool {
			check := func(l ast.Expr, pos token.Pos) {
				root := ast.Unparen(l)
				depth := 0
				for {
					switch e := root.(type) {
					case *ast.SelectorExpr:
						root, depth = ast.Unparen(e.X), depth+1
						continue
					case *ast.IndexExpr:
						root = ast.Unparen(e.X)
						continue
					case *ast.StarExpr:
						root = ast.Unparen(e.X)
						continue
					}
					break
				}
				if id, ok := root.(*ast.Ident); ok && recv != nil && info.Uses[id] == recv && depth > 0 {
					bad = append(bad, exprKey(l))
					at = pos
				}
			}
			switch s := x.(type) {
			case *ast.AssignStmt:
				for _, l := range s.Lhs {
					check(l, s.Pos())
				}
			case *ast.IncDecStmt:
				check(s.X, s.Pos())
			}
			return true
		})
		c.check(len(bad) == 0, "R14g", c.declKey("soyjs", fd)+" keeps-nothing", at, "assigns nothing reachable from its receiver",
			"the method stores into "+strings.Join(sortedStrings(bad), ", ")+": what it generated (or looked up) for one state of the registry is served again after the registry was recompiled in place or its globals rebound, while the Go renderer shows the new templates")
	}
	c.floor("R14g", "methods of soyjs.Generator", 1, n)
}

// R19m: the template a render error is attributed to is the one its state was built for: the field of
// soyhtml's state that holds the template record is set in state literals only, never assigned on a live
// state (a callee run "in place" on its caller's state leaves the callee's template there when it fails, and
// the entry's error handler then reports the callee's file and line).
func ruleR19m(c *Ctx) {
	p := c.pkg("soyhtml")
	if p == nil {
		return
	}
	info := p.TypesInfo
	stObj := p.Types.Scope().Lookup("state")
	if stObj == nil {
		c.fatalf("anchor: soyhtml.state not found")
		return
	}
	st := stObj.Type().Underlying().(*types.Struct)
	fields := map[*types.Var]bool{}
	for i := 0; i < st.NumFields(); i++ {
		if r, tn, ok := relPkgOfType(st.Field(i).Type()); ok && r == "template" && tn == "Template" {
			fields[st.Field(i)] = true
		}
	}
	if len(fields) == 0 {
		c.fatalf("anchor: soyhtml.state has no field of type template.Template")
		return
	}
	nlit, n := 0, 0
	for _, fd := range c.allFuncDecls("soyhtml") {
		ast.Inspect(fd.Body, func(x ast.Node) bool {
			switch s := x.(type) {
			case *ast.CompositeLit:
				if tv, ok := info.Types[s]; ok && types.Identical(tv.Type, stObj.Type()) {
					nlit++
				}
			case *ast.AssignStmt:
				for _, l := range s.Lhs {
					if fv := fieldOf(l, info); fv != nil && fields[fv] {
						n++
						c.bad("R19m", fmt.Sprintf("%s assigns-template#%d", c.declKey("soyhtml", fd), n), s.Pos(),
							"the template of a live state is replaced ("+exprKey(l)+" = …): if the walk that follows fails, the error handler of the state finds the other template there and reports its file and line instead of the entry's")
					}
					// whole-state overwrite: *s = saved
					if se, ok := ast.Unparen(l).(*ast.StarExpr); ok {
						if tv, ok := info.Types[se]; ok && types.Identical(tv.Type, stObj.Type()) {
							n++
							c.bad("R19m", fmt.Sprintf("%s assigns-template#%d", c.declKey("soyhtml", fd), n), s.Pos(),
								"a live state is overwritten as a whole ("+exprKey(l)+" = …), its template with it")
						}
					}
				}
			}
			return true
		})
	}
	c.floor("R19m", "state literals (the only places that set the template)", 2, nlit)
	if n == 0 {
		c.ok("R19m", "soyhtml.state template-set-in-literals-only", stObj.Pos(), fmt.Sprintf("no assignment to the template field outside the %d state literals", nlit))
	}
}

// R07p: the accounting kept while one template is checked (locals in scope, params seen used) starts empty
// for every template. In the loop over the registry's templates the checker is either built in the iteration
// (a templateChecker literal, or a constructor every return of which is one), or, when one checker serves all
// templates, every slice or map field of it is assigned afresh in the iteration (not appended to) before the
// template is walked. A field carried over lets a use recorded for one template count for the next.
func ruleR07p(c *Ctx) {
	p := c.pkg("parsepasses")
	fd := c.mustFunc("parsepasses", "CheckDataRefs")
	if p == nil || fd == nil {
		return
	}
	info := p.TypesInfo
	tcObj := p.Types.Scope().Lookup("templateChecker")
	if tcObj == nil {
		c.fatalf("anchor: parsepasses.templateChecker not found")
		return
	}
	st := tcObj.Type().Underlying().(*types.Struct)
	isChecker := func(t types.Type) bool {
		if pt, ok := t.(*types.Pointer); ok {
			t = pt.Elem()
		}
		return types.Identical(t, tcObj.Type())
	}
	byFunc := map[*types.Func]*ast.FuncDecl{}
	for _, d := range c.allFuncDecls("parsepasses") {
		if fn, ok := info.Defs[d.Name].(*types.Func); ok {
			byFunc[fn] = d
		}
	}
	// fresh: the expression is a checker literal or a call all of whose returns are one
	var fresh func(e ast.Expr, depth int) bool
	fresh = func(e ast.Expr, depth int) bool {
		e = ast.Unparen(e)
		if u, ok := e.(*ast.UnaryExpr); ok && u.Op == token.AND {
			e = ast.Unparen(u.X)
		}
		switch x := e.(type) {
		case *ast.CompositeLit:
			tv, ok := info.Types[x]
			return ok && isChecker(tv.Type)
		case *ast.CallExpr:
			hd := byFunc[calleeFunc(x, info)]
			if hd == nil || depth > 2 {
				return false
			}
			all, some := true, false
			ast.Inspect(hd.Body, func(y ast.Node) bool {
				if _, ok := y.(*ast.FuncLit); ok {
					return false
				}
				if rs, ok := y.(*ast.ReturnStmt); ok && len(rs.Results) >= 1 {
					some = true
					r := resolveLocalInit(rs.Results[0], hd.Body, info)
					if !fresh(r, depth+1) {
						all = false
					}
				}
				return true
			})
			return all && some
		}
		return false
	}
	n := 0
	for _, hd := range c.withHelpers("parsepasses", fd, 2) {
		ast.Inspect(hd.Body, func(x ast.Node) bool {
			rs, ok := x.(*ast.RangeStmt)
			if !ok {
				return true
			}
			if fv := fieldOf(rs.X, info); fv == nil || fv.Name() != "Templates" {
				return true
			}
			n++
			key := c.declKey("parsepasses", hd) + " checker-per-template"
			// checker variables used in the body
			used := map[types.Object]*ast.Ident{}
			ast.Inspect(rs.Body, func(y ast.Node) bool {
				if id, ok := y.(*ast.Ident); ok {
					if o, ok := info.Uses[id].(*types.Var); ok && !o.IsField() && isChecker(o.Type()) {
						if used[o] == nil {
							used[o] = id
						}
					}
				}
				return true
			})
			if len(used) == 0 {
				c.unk("R07p", key, rs.Pos(), "no templateChecker variable is used in the loop over the templates")
				return true
			}
			for o := range used {
				inside := rs.Body.Pos() <= o.Pos() && o.Pos() <= rs.Body.End()
				if inside {
					init := resolveLocalInit(used[o], rs.Body, info)
					c.check(fresh(init, 0), "R07p", key, o.Pos(), "a new checker is built for each template",
						"the checker used for a template ("+o.Name()+") is not a value built in that iteration")
					continue
				}
				// shared checker: which fields are assigned afresh in the iteration (body + methods called on it)?
				reset := map[string]bool{}
				var scan func(n ast.Node, recv types.Object, depth int)
				scan = func(nd ast.Node, recv types.Object, depth int) {
					ast.Inspect(nd, func(y ast.Node) bool {
						switch s := y.(type) {
						case *ast.AssignStmt:
							for i, l := range s.Lhs {
								se, ok := ast.Unparen(l).(*ast.SelectorExpr)
								if !ok {
									continue
								}
								id, ok := ast.Unparen(se.X).(*ast.Ident)
								if !ok || info.Uses[id] != recv {
									continue
								}
								selfRef := false
								if i < len(s.Rhs) {
									ast.Inspect(s.Rhs[i], func(z ast.Node) bool {
										if s2, ok := z.(*ast.SelectorExpr); ok && s2.Sel.Name == se.Sel.Name {
											if rid, ok := ast.Unparen(s2.X).(*ast.Ident); ok && info.Uses[rid] == recv {
												selfRef = true
											}
										}
										return true
									})
								}
								if !selfRef {
									reset[se.Sel.Name] = true
								}
							}
						case *ast.CallExpr:
							if depth >= 2 {
								return true
							}
							if se, ok := ast.Unparen(s.Fun).(*ast.SelectorExpr); ok {
								if id, ok := ast.Unparen(se.X).(*ast.Ident); ok && info.Uses[id] == recv {
									if md := byFunc[calleeFunc(s, info)]; md != nil && md.Recv != nil && len(md.Recv.List[0].Names) == 1 {
										// only the straight-line head of the method: statements before any call that walks
										scan(md.Body, info.Defs[md.Recv.List[0].Names[0]], depth+1)
									}
								}
							}
						}
						return true
					})
				}
				// only statements of the loop body up to (and including) the first that walks the template
				scan(rs.Body, o, 0)
				var missing []string
				for i := 0; i < st.NumFields(); i++ {
					switch st.Field(i).Type().Underlying().(type) {
					case *types.Slice, *types.Map:
						if !reset[st.Field(i).Name()] {
							missing = append(missing, st.Field(i).Name())
						}
					}
				}
				c.check(len(missing) == 0, "R07p", key, rs.Pos(), "one checker serves all templates and every collection field of it is assigned afresh per template",
					"one checker ("+o.Name()+") serves every template and its field "+strings.Join(sortedStrings(missing), ", ")+" is never emptied between them: a param use recorded while checking one template counts for the templates checked after it, so an unused param is accepted depending on what was checked before")
			}
			return true
		})
	}
	c.floor("R07p", "loops over the registry's templates in the data-reference check", 1, n)
}

// R09f: a message bundle is shared by every render that was given it, so looking a message up changes nothing:
// the methods of every module type that implements soymsg.Bundle (the renderers call them through the
// interface, where the call graph cannot follow without a program that builds the bundle) write only memory
// they allocated themselves (K1, the same effect analysis as R08a/R09a, with those methods as entries).
func ruleR09f(c *Ctx) {
	mp := c.pkg("soymsg")
	if mp == nil {
		return
	}
	bobj := mp.Types.Scope().Lookup("Bundle")
	if bobj == nil {
		c.fatalf("anchor: soymsg.Bundle not found")
		return
	}
	iface, ok := bobj.Type().Underlying().(*types.Interface)
	if !ok {
		c.fatalf("anchor: soymsg.Bundle is not an interface")
		return
	}
	var specs []entrySpec
	var rels []string
	for rel := range c.Pkgs {
		rels = append(rels, rel)
	}
	sort.Strings(rels)
	for _, rel := range rels {
		p := c.Pkgs[rel]
		for _, name := range p.Types.Scope().Names() {
			tn, ok := p.Types.Scope().Lookup(name).(*types.TypeName)
			if !ok || types.IsInterface(tn.Type()) {
				continue
			}
			recv := ""
			switch {
			case types.Implements(tn.Type(), iface):
				recv = "(" + name + ")"
			case types.Implements(types.NewPointer(tn.Type()), iface):
				recv = "(*" + name + ")"
			default:
				continue
			}
			for i := 0; i < iface.NumMethods(); i++ {
				m := iface.Method(i).Name()
				r := recv
				// a value-receiver method of a type used through its pointer is still declared on the value
				if sel := types.NewMethodSet(types.NewPointer(tn.Type())).Lookup(p.Types, m); sel != nil {
					if sig, ok := sel.Obj().Type().(*types.Signature); ok && sig.Recv() != nil {
						if _, isPtr := sig.Recv().Type().(*types.Pointer); isPtr {
							r = "(*" + name + ")"
						} else {
							r = "(" + name + ")"
						}
					}
				}
				specs = append(specs, entrySpec{rel, r + "." + m})
			}
		}
	}
	c.floor("R09f", "methods of module types implementing soymsg.Bundle", 3, len(specs))
	if len(specs) == 0 {
		return
	}
	nf, nw := runEffects(c, "R09f", specs, false, nil)
	if nw == 0 {
		c.ok("R09f", "soymsg.Bundle implementations write-free", bobj.Pos(), fmt.Sprintf("%d methods of Bundle implementations (%d functions reachable) contain no write to memory at all", len(specs), nf))
	}
}

// R10l: every occurrence in the source gets a node of its own: the parser keeps no table of nodes. No field of
// parse.tree is a map, slice or array that holds ast nodes (a node looked up by its text and handed out twice is
// shared by two messages; the naming pass then writes one message's placeholder name over the other's, after
// its id was computed).
func ruleR10l(c *Ctx) {
	p := c.pkg("parse")
	if p == nil {
		return
	}
	tobj := p.Types.Scope().Lookup("tree")
	if tobj == nil {
		c.fatalf("anchor: parse.tree not found")
		return
	}
	st, ok := tobj.Type().Underlying().(*types.Struct)
	if !ok {
		c.fatalf("anchor: parse.tree is not a struct")
		return
	}
	var holdsNode func(t types.Type, depth int) bool
	holdsNode = func(t types.Type, depth int) bool {
		if depth > 4 {
			return false
		}
		switch u := t.(type) {
		case *types.Pointer:
			return holdsNode(u.Elem(), depth+1)
		case *types.Slice:
			return holdsNode(u.Elem(), depth+1)
		case *types.Array:
			return holdsNode(u.Elem(), depth+1)
		case *types.Map:
			return holdsNode(u.Key(), depth+1) || holdsNode(u.Elem(), depth+1)
		case *types.Named:
			if r, _, ok := relPkgOfType(u); ok && r == "ast" {
				switch u.Underlying().(type) {
				case *types.Struct, *types.Interface:
					return true
				}
			}
		}
		return false
	}
	n := 0
	for i := 0; i < st.NumFields(); i++ {
		f := st.Field(i)
		switch f.Type().Underlying().(type) {
		case *types.Map, *types.Slice, *types.Array:
		default:
			continue
		}
		n++
		c.check(!holdsNode(f.Type(), 0), "R10l", "parse.tree."+f.Name()+" holds-no-nodes", f.Pos(), "the collection holds no ast nodes",
			"the parser keeps ast nodes in tree."+f.Name()+" ("+f.Type().String()+"): a node handed out for more than one place in the source is shared by them, and the passes that write on nodes (placeholder names, globals) then change all of them at once")
	}
	c.floor("R10l", "collection fields of parse.tree", 2, n)
}

// R01m: the value of a global is the expression written after the first '=' of its line, all of it. In
// ParseGlobals every cut of the line is at a position found by searching for "=" (or at a constant): a cut at
// a position found by searching for anything else ("//", "#", ";") also cuts string literals that contain it
// ('http://…'), and the definition no longer parses.
func ruleR01m(c *Ctx) {
	p := c.Pkgs[""]
	fd := c.mustFunc("", "ParseGlobals")
	if p == nil || fd == nil {
		return
	}
	info := p.TypesInfo
	n, ncut := 0, 0
	for _, hd := range c.withHelpers("", fd, 2) {
		ast.Inspect(hd.Body, func(x ast.Node) bool {
			se, ok := x.(*ast.SliceExpr)
			if !ok {
				return true
			}
			if tv, ok := info.Types[se.X]; !ok || !isStringType(tv.Type) {
				return true
			}
			ncut++
			for _, b := range []ast.Expr{se.Low, se.High} {
				if b == nil {
					continue
				}
				ast.Inspect(b, func(y ast.Node) bool {
					id, ok := y.(*ast.Ident)
					if !ok {
						return true
					}
					init := resolveLocalInit(id, hd.Body, info)
					call, ok := ast.Unparen(init).(*ast.CallExpr)
					if !ok || len(call.Args) < 2 {
						return true
					}
					cal := calleeFunc(call, info)
					if cal == nil || cal.Pkg() == nil || cal.Pkg().Path() != "strings" || !strings.Contains(cal.Name(), "Index") {
						return true
					}
					tv, ok := info.Types[call.Args[1]]
					if !ok || tv.Value == nil {
						return true
					}
					needle := ""
					switch tv.Value.Kind() {
					case constant.String:
						needle = constant.StringVal(tv.Value)
					case constant.Int:
						v, _ := constant.Int64Val(tv.Value)
						needle = string(rune(v))
					}
					n++
					c.check(needle == "=", "R01m", fmt.Sprintf("%s cut-at#%d", c.declKey("", hd), n), se.Pos(), "the line is cut where the first '=' was found",
						fmt.Sprintf("the line is cut at a position found by searching for %q: a string value that contains it (a URL, for \"//\") loses its tail and its closing quote, and the globals file is rejected", needle))
					return true
				})
			}
			return true
		})
	}
	c.floor("R01m", "cuts of a globals line at a searched position", 2, n)
	_ = ncut
}

// R06i: the tree walker is never handed a node variable that may still be unset. In soyhtml and soyjs, for
// every local declared without a value (`var body ast.Node`) and later passed to a walk method, every path
// from the declaration to that call assigns the variable (forward may-analysis on the function's CFG), or the
// call sits under a test that the variable is not nil. walk(nil) records nil as the current node, and the
// entry's recover handler then fails on it: a Go panic leaves Render.
func ruleR06i(c *Ctx) {
	nr := newNoRet(c)
	n, ncalls := 0, 0
	for _, rel := range []string{"soyhtml", "soyjs"} {
		p := c.pkg(rel)
		if p == nil {
			continue
		}
		info := p.TypesInfo
		for _, fd := range c.allFuncDecls(rel) {
			// candidates: locals declared without value, of interface or pointer type
			cands := map[types.Object]bool{}
			ast.Inspect(fd.Body, func(x ast.Node) bool {
				if ds, ok := x.(*ast.DeclStmt); ok {
					if gd, ok := ds.Decl.(*ast.GenDecl); ok && gd.Tok == token.VAR {
						for _, sp := range gd.Specs {
							vs := sp.(*ast.ValueSpec)
							if len(vs.Values) != 0 {
								continue
							}
							for _, nm := range vs.Names {
								if o := info.Defs[nm]; o != nil {
									switch o.Type().Underlying().(type) {
									case *types.Interface, *types.Pointer:
										cands[o] = true
									}
								}
							}
						}
					}
				}
				return true
			})
			if len(cands) == 0 {
				continue
			}
			// calls of a walk method with a candidate as argument
			type site struct {
				call *ast.CallExpr
				obj  types.Object
			}
			var sites []site
			guarded := map[*ast.CallExpr]bool{}
			var stack []ast.Node
			ast.Inspect(fd.Body, func(x ast.Node) bool {
				if x == nil {
					stack = stack[:len(stack)-1]
					return true
				}
				stack = append(stack, x)
				call, ok := x.(*ast.CallExpr)
				if !ok {
					return true
				}
				cal := calleeFunc(call, info)
				if cal == nil || cal.Name() != "walk" || cal.Type().(*types.Signature).Recv() == nil {
					return true
				}
				ncalls++
				for _, a := range call.Args {
					id, ok := ast.Unparen(a).(*ast.Ident)
					if !ok || !cands[info.Uses[id]] {
						continue
					}
					sites = append(sites, site{call, info.Uses[id]})
					for i := len(stack) - 2; i >= 0; i-- {
						if ifs, ok := stack[i].(*ast.IfStmt); ok && call.Pos() >= ifs.Body.Pos() && call.End() <= ifs.Body.End() {
							if be, ok := ast.Unparen(ifs.Cond).(*ast.BinaryExpr); ok && be.Op == token.NEQ {
								if cid, ok := ast.Unparen(be.X).(*ast.Ident); ok && info.Uses[cid] == info.Uses[id] && exprKey(be.Y) == "nil" {
									guarded[call] = true
								}
							}
						}
					}
				}
				return true
			})
			if len(sites) == 0 {
				continue
			}
			mayUnset := map[*ast.CallExpr]bool{}
			runFlow(fd.Body, nr.forInfo(info), flowState{}, func(nd ast.Node, st flowState, report bool) flowState {
				ast.Inspect(nd, func(y ast.Node) bool {
					switch s := y.(type) {
					case *ast.FuncLit:
						return false
					case *ast.ValueSpec:
						if len(s.Values) == 0 {
							for _, nm := range s.Names {
								if o := info.Defs[nm]; o != nil && cands[o] {
									st[fmt.Sprint(o.Pos())] = 1
								}
							}
						}
					case *ast.AssignStmt:
						for _, l := range s.Lhs {
							if id, ok := ast.Unparen(l).(*ast.Ident); ok && cands[info.Uses[id]] {
								st[fmt.Sprint(info.Uses[id].Pos())] = 2
							}
						}
					case *ast.CallExpr:
						if report {
							for _, si := range sites {
								if si.call == s && st[fmt.Sprint(si.obj.Pos())]&1 != 0 {
									mayUnset[s] = true
								}
							}
						}
					}
					return true
				})
				return st
			})
			for _, si := range sites {
				n++
				key := fmt.Sprintf("%s walks %s", c.declKey(rel, fd), si.obj.Name())
				c.check(!mayUnset[si.call] || guarded[si.call], "R06i", key, si.call.Pos(), "assigned on every path to the call (or tested against nil around it)",
					"the node variable "+si.obj.Name()+" is declared without a value and some path reaches this walk without assigning it: the walker is handed nil, records it as the current node, and the recover handler of the entry point then fails on it (a Go panic leaves Render instead of an error)")
			}
		}
	}
	if n == 0 {
		c.ok("R06i", "renderer and generator walk-arguments", token.NoPos, fmt.Sprintf("no walk call of the renderer or the generator is handed a local that was declared without a value (%d calls in functions with such locals examined)", ncalls))
	}
}

// R11i: a catalogue entry stands for one message: the loader keeps one id= reference per entry (the last one
// it reads), so the extractor gives every entry exactly one, set where the entry is built. In xgettext-soy the
// References of a po.Message are written in its composite literal only, as a one-element list; nothing adds a
// second reference to an entry made earlier (two messages merged into one entry: the earlier one loses its
// translation and the later one is rendered with the other's).
func ruleR11i(c *Ctx) {
	rel := "soymsg/pomsg/xgettext-soy"
	p := c.Pkgs[rel]
	if p == nil {
		c.fatalf("anchor: package %s not loaded", rel)
		return
	}
	info := p.TypesInfo
	nlit, n := 0, 0
	for _, fd := range c.allFuncDecls(rel) {
		ast.Inspect(fd.Body, func(x ast.Node) bool {
			switch s := x.(type) {
			case *ast.KeyValueExpr:
				if id, ok := s.Key.(*ast.Ident); ok && id.Name == "References" {
					if cl, ok := ast.Unparen(s.Value).(*ast.CompositeLit); ok {
						nlit++
						c.check(len(cl.Elts) == 1, "R11i", fmt.Sprintf("%s entry-references#%d", c.declKey(rel, fd), nlit), s.Pos(), "the entry is built with exactly one reference",
							fmt.Sprintf("the entry is built with %d references: the loader keeps only the last id= it reads", len(cl.Elts)))
					}
				}
			case *ast.AssignStmt:
				for _, l := range s.Lhs {
					if se, ok := ast.Unparen(l).(*ast.SelectorExpr); ok && se.Sel.Name == "References" {
						if fv, ok := info.Uses[se.Sel].(*types.Var); ok && fv.IsField() {
							n++
							c.bad("R11i", fmt.Sprintf("%s extends-references#%d", c.declKey(rel, fd), n), s.Pos(),
								"the references of an entry built earlier are changed ("+exprKey(l)+" = …): an entry that lists two message ids stands for two messages, but the loader keeps one id per entry, so one message loses its translation and the other is rendered with a text extracted for a different message")
						}
					}
				}
			}
			return true
		})
	}
	c.floor("R11i", "catalogue entries built by the extractor", 1, nlit)
}

// R20i: a Go scalar becomes the Soy scalar that holds the same number: in the converter the arms for the
// integer, float, bool and string kinds convert with Go conversions of what reflect hands them; none goes
// through text (no call into strconv or fmt, in the arm or in a helper it calls). A float32 printed with its
// shortest decimal and parsed again is a different float64 (0.1 instead of 0.10000000149011612), so the
// converted value no longer equals the Go value it came from.
func ruleR20i(c *Ctx) {
	p := c.pkg("data")
	fd := c.mustFunc("data", "NewWith")
	if p == nil || fd == nil {
		return
	}
	info := p.TypesInfo
	scalarKinds := map[string]bool{"Int": true, "Int8": true, "Int16": true, "Int32": true, "Int64": true, "Uint": true, "Uint8": true, "Uint16": true, "Uint32": true, "Uint64": true,
		"Float32": true, "Float64": true, "Bool": true, "String": true, "Uintptr": true}
	n := 0
	for _, hd := range c.withHelpers("data", fd, 2) {
		ast.Inspect(hd.Body, func(x ast.Node) bool {
			cc, ok := x.(*ast.CaseClause)
			if !ok || len(cc.List) == 0 {
				return true
			}
			var kinds []string
			for _, e := range cc.List {
				if se, ok := ast.Unparen(e).(*ast.SelectorExpr); ok {
					if k, ok := info.Uses[se.Sel].(*types.Const); ok && k.Pkg() != nil && k.Pkg().Path() == "reflect" && scalarKinds[k.Name()] {
						kinds = append(kinds, k.Name())
					}
				}
			}
			if len(kinds) == 0 {
				return true
			}
			n++
			key := "data.NewWith arm " + strings.Join(kinds, ",") + " converts-directly"
			why := ""
			var at token.Pos = cc.Pos()
			for _, nd := range c.nodeWithHelpers("data", &ast.BlockStmt{List: cc.Body}, 2) {
				ast.Inspect(nd, func(y ast.Node) bool {
					if call, ok := y.(*ast.CallExpr); ok && why == "" {
						if cal := calleeFunc(call, info); cal != nil && cal.Pkg() != nil && (cal.Pkg().Path() == "strconv" || cal.Pkg().Path() == "fmt") {
							why, at = cal.Pkg().Name()+"."+cal.Name(), call.Pos()
						}
					}
					return true
				})
			}
			c.check(why == "", "R20i", key, at, "the value reflect hands over is converted with a Go conversion",
				"the scalar goes through text ("+why+") on its way to the Soy value: a float32 written with its shortest decimal and read back is not the number the Go value holds, so the converted value differs from the same number converted from a float64")
			return true
		})
	}
	// arms reached through a kind table
	tbl := converterTableArms(c)
	var tks []string
	for k := range tbl {
		if scalarKinds[k] {
			tks = append(tks, k)
		}
	}
	sort.Strings(tks)
	for _, k := range tks {
		n++
		why := ""
		var at token.Pos = tbl[k].Pos()
		for _, nd := range c.nodeWithHelpers("data", tbl[k], 2) {
			ast.Inspect(nd, func(y ast.Node) bool {
				if call, ok := y.(*ast.CallExpr); ok && why == "" {
					if cal := calleeFunc(call, info); cal != nil && cal.Pkg() != nil && (cal.Pkg().Path() == "strconv" || cal.Pkg().Path() == "fmt") {
						why, at = cal.Pkg().Name()+"."+cal.Name(), call.Pos()
					}
				}
				return true
			})
		}
		c.check(why == "", "R20i", "data.NewWith arm "+k+" converts-directly", at, "the value reflect hands over is converted with a Go conversion",
			"the scalar goes through text ("+why+") on its way to the Soy value")
	}
	c.floor("R20i", "scalar arms of the converter", 4, n)
}

// R14h: text/template.JSEscape writes an unprintable character beyond U+FFFF as \u followed by five or six
// hex digits ("1"), which JavaScript reads as  and a digit: another string. The generator may use
// the library escaper only inside a function that deals with those characters itself (it encodes them as a
// surrogate pair, unicode/utf16.EncodeRune): every call of text/template.JSEscape / JSEscapeString in
// package soyjs sits in such a function.
func ruleR14h(c *Ctx) {
	p := c.pkg("soyjs")
	if p == nil {
		return
	}
	info := p.TypesInfo
	n := 0
	for _, fd := range c.allFuncDecls("soyjs") {
		if strings.HasSuffix(c.Fset.Position(fd.Pos()).Filename, "_test.go") {
			continue
		}
		handles := false
		var calls []*ast.CallExpr
		ast.Inspect(fd.Body, func(x ast.Node) bool {
			call, ok := x.(*ast.CallExpr)
			if !ok {
				return true
			}
			cal := calleeFunc(call, info)
			if cal == nil || cal.Pkg() == nil {
				return true
			}
			switch {
			case cal.Pkg().Path() == "unicode/utf16" && cal.Name() == "EncodeRune":
				handles = true
			case (cal.Pkg().Path() == "text/template" || cal.Pkg().Path() == "html/template") && strings.HasPrefix(cal.Name(), "JSEscape"):
				calls = append(calls, call)
			}
			return true
		})
		for i, call := range calls {
			n++
			c.check(handles, "R14h", fmt.Sprintf("%s library-escaper#%d", c.declKey("soyjs", fd), i+1), call.Pos(),
				"the library escaper is used inside the function that encodes characters beyond U+FFFF itself",
				"text handed to "+exprKey(call.Fun)+" directly: an unprintable character beyond U+FFFF in it (U+E0001, say) is written as \\uE0001, which JavaScript reads as U+E000 followed by the digit 1, so the generated literal denotes a different string")
		}
	}
	c.floor("R14h", "uses of the library's JavaScript escaper in the generator", 1, n)
}

// ---- round 7 ----

// typeHoldsNode: t (through pointers, slices, arrays, maps and the fields of module structs, a few levels deep)
// holds ast nodes.
func typeHoldsNode(t types.Type, depth int) bool {
	if depth > 5 {
		return false
	}
	switch u := t.(type) {
	case *types.Pointer:
		return typeHoldsNode(u.Elem(), depth+1)
	case *types.Slice:
		return typeHoldsNode(u.Elem(), depth+1)
	case *types.Array:
		return typeHoldsNode(u.Elem(), depth+1)
	case *types.Map:
		return typeHoldsNode(u.Key(), depth+1) || typeHoldsNode(u.Elem(), depth+1)
	case *types.Named:
		if r, _, ok := relPkgOfType(u); ok {
			if r == "ast" {
				switch u.Underlying().(type) {
				case *types.Struct, *types.Interface:
					return true
				}
				return false
			}
			if st, ok := u.Underlying().(*types.Struct); ok {
				for i := 0; i < st.NumFields(); i++ {
					if typeHoldsNode(st.Field(i).Type(), depth+1) {
						return true
					}
				}
			}
		}
	}
	return false
}

// R13i: a Bundle holds sources, not trees: every Compile parses the texts again. No field of soy.Bundle (nor of
// the records it keeps per file) holds ast nodes: Registry.Add rewrites the tree it is given (it moves the
// header params out of the template body), so a tree kept from one compilation is not the tree the next one
// should see, and the same bundle compiled twice is accepted once and rejected once.
func ruleR13i(c *Ctx) {
	p := c.Pkgs[""]
	if p == nil {
		return
	}
	bobj := p.Types.Scope().Lookup("Bundle")
	if bobj == nil {
		c.fatalf("anchor: soy.Bundle not found")
		return
	}
	st, ok := bobj.Type().Underlying().(*types.Struct)
	if !ok {
		c.fatalf("anchor: soy.Bundle is not a struct")
		return
	}
	n := 0
	for i := 0; i < st.NumFields(); i++ {
		f := st.Field(i)
		if _, isFunc := f.Type().Underlying().(*types.Signature); isFunc {
			continue
		}
		if sl, ok := f.Type().Underlying().(*types.Slice); ok {
			if _, isFunc := sl.Elem().Underlying().(*types.Signature); isFunc {
				continue
			}
		}
		n++
		c.check(!typeHoldsNode(f.Type(), 0), "R13i", "soy.Bundle."+f.Name()+" holds-no-trees", f.Pos(), "holds no parsed tree",
			"the bundle keeps parsed trees in "+f.Name()+" ("+f.Type().String()+"): Registry.Add rewrites the tree it registers, so a second Compile of the same bundle works on an altered tree and can reject what the first accepted")
	}
	c.floor("R13i", "data fields of soy.Bundle", 3, n)
}

// R06j: a Tofu is a view of the registry it was given, which a watching Bundle replaces in place: it keeps no
// table derived from the registry's contents and no per-template objects. soyhtml.Tofu has no field of map,
// slice or array type (an index built in NewTofu goes stale when the registry shrinks, and is consulted before
// the recover handler is installed; a cache of renderers carries one call's bundle and injected data into
// the next).
func ruleR06j(c *Ctx) {
	p := c.pkg("soyhtml")
	if p == nil {
		return
	}
	tobj := p.Types.Scope().Lookup("Tofu")
	if tobj == nil {
		c.fatalf("anchor: soyhtml.Tofu not found")
		return
	}
	st, ok := tobj.Type().Underlying().(*types.Struct)
	if !ok {
		c.fatalf("anchor: soyhtml.Tofu is not a struct")
		return
	}
	var holdsCollection func(t types.Type, depth int) bool
	holdsCollection = func(t types.Type, depth int) bool {
		if depth > 4 {
			return false
		}
		switch u := t.Underlying().(type) {
		case *types.Map, *types.Slice, *types.Array:
			return true
		case *types.Pointer:
			return holdsCollection(u.Elem(), depth+1)
		case *types.Struct:
			if _, _, isMod := relPkgOfType(t); !isMod {
				return t.String() == "sync.Map" || t.String() == "sync.Pool"
			}
			for i := 0; i < u.NumFields(); i++ {
				if holdsCollection(u.Field(i).Type(), depth+1) {
					return true
				}
			}
		}
		return false
	}
	bad := 0
	for i := 0; i < st.NumFields(); i++ {
		f := st.Field(i)
		// the registry itself is what the Tofu is a view of
		if r, tn, ok := relPkgOfType(f.Type()); ok && r == "template" && tn == "Registry" {
			continue
		}
		if holdsCollection(f.Type(), 0) {
			bad++
			c.bad("R06j", "soyhtml.Tofu."+f.Name()+" no-derived-table", f.Pos(),
				"the Tofu keeps a collection of its own in "+f.Name()+" ("+f.Type().String()+"): the registry it views is replaced in place on recompilation, so positions or objects remembered from an earlier state are used against the new one (an index past the end before any recover is installed; a renderer that still carries another call's message bundle)")
		}
	}
	if bad == 0 {
		c.ok("R06j", "soyhtml.Tofu no-derived-table", tobj.Pos(), fmt.Sprintf("none of the %d fields of Tofu (the registry it views apart) holds a map, slice, array or pool", st.NumFields()))
	}
	c.floor("R06j", "fields of soyhtml.Tofu", 1, st.NumFields())
}

// R18c: a goroutine the compiler starts has ended when the compiler returns: in the root package, on every
// path from a `go func(){...}()` statement to a return of the enclosing function there is a call of
// (*sync.WaitGroup).Wait. (Workers that send their results on an unbuffered channel stay blocked for ever
// when the receiver returns at the first error.)
func ruleR18c(c *Ctx) {
	p := c.Pkgs[""]
	if p == nil {
		return
	}
	info := p.TypesInfo
	nr := newNoRet(c)
	n := 0
	for _, fd := range c.allFuncDecls("") {
		if strings.HasSuffix(c.Fset.Position(fd.Pos()).Filename, "_test.go") {
			continue
		}
		hasGoLit := false
		ast.Inspect(fd.Body, func(x ast.Node) bool {
			if g, ok := x.(*ast.GoStmt); ok {
				if _, ok := ast.Unparen(g.Call.Fun).(*ast.FuncLit); ok {
					hasGoLit = true
				}
			}
			return true
		})
		if !hasGoLit {
			continue
		}
		n++
		var badAt token.Pos
		runFlow(fd.Body, nr.forInfo(info), flowState{}, func(nd ast.Node, st flowState, report bool) flowState {
			switch s := nd.(type) {
			case *ast.GoStmt:
				if _, ok := ast.Unparen(s.Call.Fun).(*ast.FuncLit); ok {
					st["started"] = 1
				}
				return st
			case *ast.ReturnStmt:
				if report && st["started"]&1 != 0 && badAt == token.NoPos {
					badAt = s.Pos()
				}
			}
			ast.Inspect(nd, func(y ast.Node) bool {
				if _, ok := y.(*ast.FuncLit); ok {
					return false
				}
				if call, ok := y.(*ast.CallExpr); ok {
					if cal := calleeFunc(call, info); cal != nil && cal.FullName() == "(*sync.WaitGroup).Wait" {
						st["started"] = 0
					}
				}
				return true
			})
			return st
		})
		c.check(badAt == token.NoPos, "R18c", c.declKey("", fd)+" goroutines-joined", func() token.Pos {
			if badAt != token.NoPos {
				return badAt
			}
			return fd.Pos()
		}(), "every return after a goroutine literal was started is preceded by WaitGroup.Wait",
			"a path returns while goroutines started here may still be running (no WaitGroup.Wait on the way): a worker blocked on its send or still parsing is left behind each time this happens")
	}
	if n == 0 {
		c.ok("R18c", "root-package goroutines-joined", token.NoPos, "the root package starts no function literal as a goroutine")
	}
}
