package main

import (
	"fmt"
	"go/ast"
	"go/constant"
	"go/token"
	"go/types"
	"sort"
	"strings"
)

// ---- round 6 rules ----

// parseFuncByName: the package-level function (no receiver) of package parse with this name.
func parseFuncByName(c *Ctx, name string) *ast.FuncDecl {
	for _, fd := range c.allFuncDecls("parse") {
		if fd.Recv == nil && fd.Name.Name == name {
			return fd
		}
	}
	return nil
}

// runePredicatesCalled: module functions func(rune) bool called (transitively through such predicates) from the
// given bodies.
func runePredicatesCalled(c *Ctx, rel string, bodies []*ast.FuncDecl) map[*types.Func]*ast.FuncDecl {
	p := c.Pkgs[rel]
	info := p.TypesInfo
	byFunc := map[*types.Func]*ast.FuncDecl{}
	for _, d := range c.allFuncDecls(rel) {
		if fn, ok := info.Defs[d.Name].(*types.Func); ok {
			byFunc[fn] = d
		}
	}
	isPred := func(fn *types.Func) bool {
		sig := fn.Type().(*types.Signature)
		if sig.Recv() != nil || sig.Params().Len() != 1 || sig.Results().Len() != 1 {
			return false
		}
		pb, ok1 := sig.Params().At(0).Type().Underlying().(*types.Basic)
		rb, ok2 := sig.Results().At(0).Type().Underlying().(*types.Basic)
		return ok1 && ok2 && pb.Kind() == types.Int32 && rb.Kind() == types.Bool
	}
	out := map[*types.Func]*ast.FuncDecl{}
	var visit func(n ast.Node)
	visit = func(n ast.Node) {
		ast.Inspect(n, func(x ast.Node) bool {
			call, ok := x.(*ast.CallExpr)
			if !ok {
				return true
			}
			fn := calleeFunc(call, info)
			if fn == nil || byFunc[fn] == nil || !isPred(fn) || out[fn] != nil {
				return true
			}
			out[fn] = byFunc[fn]
			visit(byFunc[fn].Body)
			return true
		})
	}
	for _, b := range bodies {
		visit(b.Body)
	}
	return out
}

// R15f: the line joiner counts a run of blanks in characters and copies it back by bytes (s[lastpos-spaces:
// lastpos]), and the text scanner backs up a fixed number of bytes over "one space": both are right only while
// every character their classifiers accept is one byte long. Every func(rune) bool of package parse that
// rawtext or lexText call (directly or through another such predicate) therefore consults no Unicode table
// and compares with one-byte constants only.
func ruleR15f(c *Ctx) {
	p := c.pkg("parse")
	if p == nil {
		return
	}
	info := p.TypesInfo
	var roots []*ast.FuncDecl
	for _, name := range []string{"rawtext", "lexText"} {
		fd := parseFuncByName(c, name)
		if fd == nil {
			c.fatalf("anchor: parse.%s not found", name)
			return
		}
		roots = append(roots, c.withHelpers("parse", fd, 2)...)
	}
	preds := runePredicatesCalled(c, "parse", roots)
	var fns []*types.Func
	for fn := range preds {
		fns = append(fns, fn)
	}
	sort.Slice(fns, func(i, j int) bool { return fns[i].Name() < fns[j].Name() })
	n := 0
	for _, fn := range fns {
		fd := preds[fn]
		n++
		key := "parse." + fn.Name() + " one-byte-classifier"
		why := ""
		var at token.Pos = fd.Pos()
		ast.Inspect(fd.Body, func(x ast.Node) bool {
			switch e := x.(type) {
			case *ast.CallExpr:
				if cal := calleeFunc(e, info); cal != nil && cal.Pkg() != nil && cal.Pkg().Path() == "unicode" && why == "" {
					why, at = "it asks unicode."+cal.Name()+", which accepts characters of two and three bytes (U+00A0, U+2028, U+3000 ...)", e.Pos()
				}
			case ast.Expr:
				if tv, ok := info.Types[e]; ok && tv.Value != nil && tv.Value.Kind() == constant.Int && why == "" {
					if v, exact := constant.Int64Val(tv.Value); exact && v >= 0x80 {
						if _, isLit := e.(*ast.BasicLit); isLit {
							why, at = fmt.Sprintf("it accepts the character U+%04X, which is longer than one byte", v), e.Pos()
						}
					}
				}
			}
			return true
		})
		c.check(why == "", "R15f", key, at, "compares with one-byte characters only",
			"the classifier is used where characters are counted and bytes are copied (rawtext's run of blanks, lexText's step back over one space), but "+why+": such a character in template text is cut in the middle or dropped")
	}
	c.floor("R15f", "character classifiers used by rawtext and lexText", 3, n)
}

// R15g: a line ends at "\r\n", "\r" or "\n" (isEndOfLine). A forward search for the end of a line in package
// parse that looks for "\n" alone treats a lone carriage return as ordinary text: the comment or the fast path
// built on it runs on to the next line. (Counting "\n" and searching backwards for it is how positions are
// computed, R19l, and is not a search for the end of a line.)
func ruleR15g(c *Ctx) {
	p := c.pkg("parse")
	if p == nil {
		return
	}
	info := p.TypesInfo
	forward := map[string]bool{"Index": true, "IndexByte": true, "IndexRune": true, "IndexAny": true, "Contains": true, "ContainsRune": true, "ContainsAny": true,
		"Cut": true, "Split": true, "SplitN": true, "SplitAfter": true, "SplitAfterN": true}
	nsearch, n := 0, 0
	for _, fd := range c.allFuncDecls("parse") {
		if strings.HasSuffix(c.Fset.Position(fd.Pos()).Filename, "_test.go") {
			continue
		}
		ord := 0
		ast.Inspect(fd.Body, func(x ast.Node) bool {
			call, ok := x.(*ast.CallExpr)
			if !ok || len(call.Args) < 2 {
				return true
			}
			cal := calleeFunc(call, info)
			if cal == nil || cal.Pkg() == nil || (cal.Pkg().Path() != "strings" && cal.Pkg().Path() != "bytes") || !forward[cal.Name()] {
				return true
			}
			nsearch++
			tv, ok := info.Types[call.Args[1]]
			if !ok || tv.Value == nil {
				return true
			}
			needle := ""
			switch tv.Value.Kind() {
			case constant.String:
				needle = constant.StringVal(tv.Value)
			case constant.Int:
				v, _ := constant.Int64Val(tv.Value)
				needle = string(rune(v))
			}
			if !strings.Contains(needle, "\n") {
				return true
			}
			ord++
			n++
			c.check(strings.Contains(needle, "\r"), "R15g", fmt.Sprintf("%s line-end-search#%d", c.declKey("parse", fd), ord), call.Pos(),
				"the search for a line end looks for the carriage return too",
				"the search for the end of a line looks for \"\\n\" only: a line that ends in a lone carriage return is not seen to end, so what follows it is swallowed (a comment) or left unjoined (the fast path)")
			return true
		})
	}
	if n == 0 {
		c.ok("R15g", "parse line-end-searches", p.Syntax[0].Pos(), fmt.Sprintf("%d forward searches in package parse examined; none looks for a line feed alone (line ends are recognised through isEndOfLine)", nsearch))
	}
}

// R15h: the line joiner copies the bytes of the text it keeps; it never writes a character it has decoded
// back through an encoder (EncodeRune / AppendRune / WriteRune / string(r)): for bytes that are not valid
// UTF-8 the decoder yields U+FFFD, which re-encodes to three other bytes (different text, a different message
// id, and more bytes than the buffer sized by the input holds).
func ruleR15h(c *Ctx) {
	p := c.pkg("parse")
	fd := parseFuncByName(c, "rawtext")
	if p == nil {
		return
	}
	if fd == nil {
		c.fatalf("anchor: parse.rawtext not found")
		return
	}
	info := p.TypesInfo
	n := 0
	for _, hd := range c.withHelpers("parse", fd, 2) {
		key := c.declKey("parse", hd) + " copies-bytes"
		why := ""
		var at token.Pos = hd.Pos()
		ast.Inspect(hd.Body, func(x ast.Node) bool {
			call, ok := x.(*ast.CallExpr)
			if !ok || why != "" {
				return true
			}
			if cal := calleeFunc(call, info); cal != nil {
				full := cal.FullName()
				switch {
				case cal.Pkg() != nil && cal.Pkg().Path() == "unicode/utf8" && (cal.Name() == "EncodeRune" || cal.Name() == "AppendRune"):
					why, at = "utf8."+cal.Name(), call.Pos()
				case strings.HasSuffix(full, ".WriteRune"):
					why, at = full, call.Pos()
				}
				return true
			}
			// conversion string(r) of a rune
			if tv, ok := info.Types[call.Fun]; ok && tv.IsType() && len(call.Args) == 1 {
				if b, ok := tv.Type.Underlying().(*types.Basic); ok && b.Info()&types.IsString != 0 {
					if atv, ok := info.Types[call.Args[0]]; ok && atv.Value == nil {
						if ab, ok := atv.Type.Underlying().(*types.Basic); ok && ab.Info()&types.IsInteger != 0 {
							why, at = "string("+exprKey(call.Args[0])+")", call.Pos()
						}
					}
				}
			}
			return true
		})
		n++
		c.check(why == "", "R15h", key, at, "no decoded character is re-encoded into the output",
			"the output is written through "+why+": a byte that is not valid UTF-8 comes out as U+FFFD (three bytes), so the text is no longer the author's and can outgrow a buffer sized by the input")
	}
	c.floor("R15h", "functions of the line joiner", 1, n)
}

// R17j: a numeric literal the scanner accepted becomes a node only if strconv converted it without error:
// every error from strconv.ParseInt / ParseUint / ParseFloat in package parse is raised whenever it is not nil
// (`if err != nil { raise }` with no further condition, or handed to a helper that does exactly that). A range
// error let through yields ±Inf, which prints as "+Inf" and does not parse back.
func ruleR17j(c *Ctx) {
	p := c.pkg("parse")
	if p == nil {
		return
	}
	info := p.TypesInfo
	nr := newNoRet(c)
	byFunc := map[*types.Func]*ast.FuncDecl{}
	for _, d := range c.allFuncDecls("parse") {
		if fn, ok := info.Defs[d.Name].(*types.Func); ok {
			byFunc[fn] = d
		}
	}
	// raisesWhenNotNil: stmt is `if <obj> != nil { ...noreturn... }`
	raisesWhenNotNil := func(st ast.Stmt, obj types.Object, inf *types.Info) bool {
		ifs, ok := st.(*ast.IfStmt)
		if !ok || ifs.Init != nil {
			return false
		}
		be, ok := ast.Unparen(ifs.Cond).(*ast.BinaryExpr)
		if !ok || be.Op != token.NEQ {
			return false
		}
		id, ok := ast.Unparen(be.X).(*ast.Ident)
		if !ok || inf.Uses[id] != obj {
			return false
		}
		if y, ok := ast.Unparen(be.Y).(*ast.Ident); !ok || y.Name != "nil" {
			return false
		}
		raises := false
		for _, s := range ifs.Body.List {
			if es, ok := s.(*ast.ExprStmt); ok {
				if call, ok := es.X.(*ast.CallExpr); ok && nr.callNoReturn(call, inf) {
					raises = true
				}
			}
			// ... or handed back to the caller: return "", err
			if rs, ok := s.(*ast.ReturnStmt); ok {
				for _, r := range rs.Results {
					if rid, ok := ast.Unparen(r).(*ast.Ident); ok && inf.Uses[rid] == obj {
						raises = true
					}
				}
			}
		}
		return raises
	}
	n := 0
	for _, fd := range c.allFuncDecls("parse") {
		if strings.HasSuffix(c.Fset.Position(fd.Pos()).Filename, "_test.go") {
			continue
		}
		ord := 0
		var lists [][]ast.Stmt
		ast.Inspect(fd.Body, func(x ast.Node) bool {
			switch b := x.(type) {
			case *ast.BlockStmt:
				lists = append(lists, b.List)
			case *ast.CaseClause:
				lists = append(lists, b.Body)
			}
			return true
		})
		for _, list := range lists {
			for i, st := range list {
				as, ok := st.(*ast.AssignStmt)
				var lhs []ast.Expr
				var rhs ast.Expr
				if ok && len(as.Rhs) == 1 && len(as.Lhs) == 2 {
					lhs, rhs = as.Lhs, as.Rhs[0]
				} else if ds, ok := st.(*ast.DeclStmt); ok {
					if gd, ok := ds.Decl.(*ast.GenDecl); ok && len(gd.Specs) == 1 {
						if vs, ok := gd.Specs[0].(*ast.ValueSpec); ok && len(vs.Names) == 2 && len(vs.Values) == 1 {
							lhs, rhs = []ast.Expr{vs.Names[0], vs.Names[1]}, vs.Values[0]
						}
					}
				}
				if rhs == nil {
					continue
				}
				call, ok := ast.Unparen(rhs).(*ast.CallExpr)
				if !ok {
					continue
				}
				cal := calleeFunc(call, info)
				if cal == nil || cal.Pkg() == nil || cal.Pkg().Path() != "strconv" || !strings.HasPrefix(cal.Name(), "Parse") {
					continue
				}
				errObj := defObj(info, lhs[1])
				ord++
				n++
				key := fmt.Sprintf("%s %s-error#%d", c.declKey("parse", fd), cal.Name(), ord)
				good := false
				if errObj != nil {
					for _, next := range list[i+1:] {
						if raisesWhenNotNil(next, errObj, info) {
							good = true
							break
						}
						// handed to a helper: t.check(err)
						if es, ok := next.(*ast.ExprStmt); ok {
							if hc, ok := es.X.(*ast.CallExpr); ok && len(hc.Args) == 1 {
								if id, ok := ast.Unparen(hc.Args[0]).(*ast.Ident); ok && info.Uses[id] == errObj {
									if hd := byFunc[calleeFunc(hc, info)]; hd != nil && len(hd.Body.List) >= 1 && hd.Type.Params.NumFields() == 1 && len(hd.Type.Params.List[0].Names) == 1 {
										if raisesWhenNotNil(hd.Body.List[0], info.Defs[hd.Type.Params.List[0].Names[0]], info) {
											good = true
											break
										}
									}
								}
							}
						}
						// any other use of the error first: stop
						uses := false
						ast.Inspect(next, func(y ast.Node) bool {
							if id, ok := y.(*ast.Ident); ok && info.Uses[id] == errObj {
								uses = true
							}
							return true
						})
						if uses {
							break
						}
					}
				}
				c.check(good, "R17j", key, call.Pos(), "the conversion error is raised whenever it is not nil",
					"the error of strconv."+cal.Name()+" is not raised on every failure: a literal out of range becomes a node holding the clamped value (±Inf for a float, which prints as \"+Inf\" and does not parse back)")
			}
		}
	}
	c.floor("R17j", "strconv conversions of literals in the parser", 3, n)
}

// loopVarsOf: iteration variables of the loops enclosing each node, collected while walking a function body.
// R19n: a function literal started with `go` (or deferred) inside a loop does not mention the loop's iteration
// variables: the module is built with per-loop (not per-iteration) variables (go.mod says go 1.12), so the
// goroutine sees whatever the variable holds when it gets to run: a file parsed under another file's name.
func ruleR19n(c *Ctx) {
	n, nlit := 0, 0
	for rel, p := range c.Pkgs {
		info := p.TypesInfo
		for _, fd := range c.allFuncDecls(rel) {
			if strings.HasSuffix(c.Fset.Position(fd.Pos()).Filename, "_test.go") {
				continue
			}
			var loopVars []map[types.Object]bool
			base := 0 // loops below this index lie outside the innermost function literal (a defer there runs within the iteration)
			var walk func(n ast.Node)
			walk = func(nd ast.Node) {
				ast.Inspect(nd, func(x ast.Node) bool {
					switch s := x.(type) {
					case *ast.RangeStmt:
						vars := map[types.Object]bool{}
						for _, e := range []ast.Expr{s.Key, s.Value} {
							if e != nil && s.Tok == token.DEFINE {
								if o := defObj(info, e); o != nil {
									vars[o] = true
								}
							}
						}
						loopVars = append(loopVars, vars)
						walk(s.Body)
						loopVars = loopVars[:len(loopVars)-1]
						return false
					case *ast.ForStmt:
						vars := map[types.Object]bool{}
						if as, ok := s.Init.(*ast.AssignStmt); ok && as.Tok == token.DEFINE {
							for _, l := range as.Lhs {
								if o := defObj(info, l); o != nil {
									vars[o] = true
								}
							}
						}
						loopVars = append(loopVars, vars)
						walk(s.Body)
						loopVars = loopVars[:len(loopVars)-1]
						return false
					case *ast.FuncLit:
						// a literal that is called or stored, not started: its defers run when it returns
						saved := base
						base = len(loopVars)
						walk(s.Body)
						base = saved
						return false
					case *ast.GoStmt, *ast.DeferStmt:
						var call *ast.CallExpr
						scope := loopVars
						if g, ok := s.(*ast.GoStmt); ok {
							call = g.Call
						} else {
							call = s.(*ast.DeferStmt).Call
							scope = loopVars[base:]
						}
						lit, ok := ast.Unparen(call.Fun).(*ast.FuncLit)
						if !ok || len(scope) == 0 {
							return true
						}
						nlit++
						var captured []string
						ast.Inspect(lit.Body, func(y ast.Node) bool {
							if id, ok := y.(*ast.Ident); ok {
								for _, vars := range scope {
									if vars[info.Uses[id]] {
										captured = append(captured, id.Name)
									}
								}
							}
							return true
						})
						n++
						c.check(len(captured) == 0, "R19n", fmt.Sprintf("%s goroutine-in-loop#%d", c.declKey(rel, fd), n), s.Pos(),
							"the literal mentions no iteration variable of an enclosing loop",
							"the function literal started here reads the loop variable "+strings.Join(sortedStrings(captured), ", ")+", which all iterations share: by the time it runs the variable holds a later element (a file is parsed under another file's name, so errors and positions name the wrong file)")
						return true
					}
					return true
				})
			}
			walk(fd.Body)
		}
	}
	if n == 0 {
		c.ok("R19n", "module goroutines-in-loops", token.NoPos, "no function literal is started with go or defer inside a loop anywhere in the module")
	}
}

// R13h: what Compile returns does not depend on how goroutines are scheduled: in the root package no function
// literal started with `go` assigns a variable it captured (the "first error wins" pattern, also through a
// nested literal such as once.Do(func(){ firstErr = err })). Writes to distinct elements of a captured slice
// are not assignments to the variable and are accepted.
func ruleR13h(c *Ctx) {
	p := c.Pkgs[""]
	if p == nil {
		return
	}
	info := p.TypesInfo
	n := 0
	for _, fd := range c.allFuncDecls("") {
		if strings.HasSuffix(c.Fset.Position(fd.Pos()).Filename, "_test.go") {
			continue
		}
		ast.Inspect(fd.Body, func(x ast.Node) bool {
			g, ok := x.(*ast.GoStmt)
			if !ok {
				return true
			}
			lit, ok := ast.Unparen(g.Call.Fun).(*ast.FuncLit)
			if !ok {
				return true
			}
			n++
			var written []string
			ast.Inspect(lit.Body, func(y ast.Node) bool {
				as, ok := y.(*ast.AssignStmt)
				if !ok || as.Tok == token.DEFINE {
					return true
				}
				for _, l := range as.Lhs {
					if id, ok := ast.Unparen(l).(*ast.Ident); ok {
						if o := info.Uses[id]; o != nil && (o.Pos() < lit.Pos() || o.Pos() > lit.End()) {
							if _, isVar := o.(*types.Var); isVar {
								written = append(written, id.Name)
							}
						}
					}
				}
				return true
			})
			c.check(len(written) == 0, "R13h", fmt.Sprintf("%s goroutine#%d", c.declKey("", fd), n), g.Pos(),
				"the goroutine assigns no variable of the function that started it",
				"the goroutine assigns "+strings.Join(sortedStrings(written), ", ")+" of the enclosing function: which goroutine gets there first (or last) decides the value, so the same bundle compiled twice can report a different error")
			return true
		})
	}
	if n == 0 {
		c.ok("R13h", "root-package goroutine-literals", token.NoPos, "the root package starts no function literal as a goroutine (the watcher is a method started once the result is final)")
	}
}

// R14g: a Generator is a view of the registry it was given: its methods keep nothing between calls. No method
// of soyjs.Generator assigns a field of its receiver or an element of one (a cache of generated files goes
// stale when the registry is recompiled in place or globals are rebound, while the Go renderer follows).
func ruleR14g(c *Ctx) {
	p := c.pkg("soyjs")
	if p == nil {
		return
	}
	info := p.TypesInfo
	n := 0
	for _, fd := range c.allFuncDecls("soyjs") {
		if fd.Recv == nil || len(fd.Recv.List) == 0 || recvTypeName(fd.Recv.List[0].Type) != "Generator" || len(fd.Recv.List[0].Names) == 0 {
			continue
		}
		recv := info.Defs[fd.Recv.List[0].Names[0]]
		n++
		var bad []string
		var at token.Pos = fd.Pos()
		ast.Inspect(fd.Body, func(x ast.Node) bool {
			check := func(l ast.Expr, pos token.Pos) {
				root := ast.Unparen(l)
				depth := 0
				for {
					switch e := root.(type) {
					case *ast.SelectorExpr:
						root, depth = ast.Unparen(e.X), depth+1
						continue
					case *ast.IndexExpr:
						root = ast.Unparen(e.X)
						continue
					case *ast.StarExpr:
						root = ast.Unparen(e.X)
						continue
					}
					break
				}
				if id, ok := root.(*ast.Ident); ok && recv != nil && info.Uses[id] == recv && depth > 0 {
					bad = append(bad, exprKey(l))
					at = pos
				}
			}
			switch s := x.(type) {
			case *ast.AssignStmt:
				for _, l := range s.Lhs {
					check(l, s.Pos())
				}
			case *ast.IncDecStmt:
				check(s.X, s.Pos())
			}
			return true
		})
		c.check(len(bad) == 0, "R14g", c.declKey("soyjs", fd)+" keeps-nothing", at, "assigns nothing reachable from its receiver",
			"the method stores into "+strings.Join(sortedStrings(bad), ", ")+": what it generated (or looked up) for one state of the registry is served again after the registry was recompiled in place or its globals rebound, while the Go renderer shows the new templates")
	}
	c.floor("R14g", "methods of soyjs.Generator", 1, n)
}

// R19m: the template a render error is attributed to is the one its state was built for: the field of
// soyhtml's state that holds the template record is set in state literals only, never assigned on a live
// state (a callee run "in place" on its caller's state leaves the callee's template there when it fails, and
// the entry's error handler then reports the callee's file and line).
func ruleR19m(c *Ctx) {
	p := c.pkg("soyhtml")
	if p == nil {
		return
	}
	info := p.TypesInfo
	stObj := p.Types.Scope().Lookup("state")
	if stObj == nil {
		c.fatalf("anchor: soyhtml.state not found")
		return
	}
	st := stObj.Type().Underlying().(*types.Struct)
	fields := map[*types.Var]bool{}
	for i := 0; i < st.NumFields(); i++ {
		if r, tn, ok := relPkgOfType(st.Field(i).Type()); ok && r == "template" && tn == "Template" {
			fields[st.Field(i)] = true
		}
	}
	if len(fields) == 0 {
		c.fatalf("anchor: soyhtml.state has no field of type template.Template")
		return
	}
	nlit, n := 0, 0
	for _, fd := range c.allFuncDecls("soyhtml") {
		ast.Inspect(fd.Body, func(x ast.Node) bool {
			switch s := x.(type) {
			case *ast.CompositeLit:
				if tv, ok := info.Types[s]; ok && types.Identical(tv.Type, stObj.Type()) {
					nlit++
				}
			case *ast.AssignStmt:
				for _, l := range s.Lhs {
					if fv := fieldOf(l, info); fv != nil && fields[fv] {
						n++
						c.bad("R19m", fmt.Sprintf("%s assigns-template#%d", c.declKey("soyhtml", fd), n), s.Pos(),
							"the template of a live state is replaced ("+exprKey(l)+" = …): if the walk that follows fails, the error handler of the state finds the other template there and reports its file and line instead of the entry's")
					}
					// whole-state overwrite: *s = saved
					if se, ok := ast.Unparen(l).(*ast.StarExpr); ok {
						if tv, ok := info.Types[se]; ok && types.Identical(tv.Type, stObj.Type()) {
							n++
							c.bad("R19m", fmt.Sprintf("%s assigns-template#%d", c.declKey("soyhtml", fd), n), s.Pos(),
								"a live state is overwritten as a whole ("+exprKey(l)+" = …), its template with it")
						}
					}
				}
			}
			return true
		})
	}
	c.floor("R19m", "state literals (the only places that set the template)", 2, nlit)
	if n == 0 {
		c.ok("R19m", "soyhtml.state template-set-in-literals-only", stObj.Pos(), fmt.Sprintf("no assignment to the template field outside the %d state literals", nlit))
	}
}
