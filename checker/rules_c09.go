package main

import (
	"fmt"
	"go/ast"
	"go/types"
	"sort"
	"strings"

	"golang.org/x/tools/go/callgraph"
	"golang.org/x/tools/go/ssa"
)

// R09a: the C08 effect analysis over every documented concurrent entry.
func ruleR09a(c *Ctx) {
	nf, nw := runEffects(c, "R09a", renderEntries, false, map[string]string{
		"(soyhtml.scope).set mapupdate": "R08b proves the top frame of every scope on which set runs is a map allocated by the renderer",
	})
	c.floor("R09a", "soy functions reachable from the render/JS entries", 150, nf)
	c.floor("R09a", "write sites classified", 60, nw)
	nf2, nw2 := runEffects(c, "R09a-compile", compileEntries, true, nil)
	c.floor("R09a-compile", "soy functions reachable from the compile-side entries", 100, nf2)
	c.floor("R09a-compile", "write sites classified", 100, nw2)
}

// reachFrom computes functions reachable in the call graph, optionally not following `go` sites.
func reachFrom(cg *callgraph.Graph, roots []*ssa.Function, followGo bool) map[*ssa.Function]bool {
	seen := map[*ssa.Function]bool{}
	var work []*ssa.Function
	for _, r := range roots {
		if r != nil && !seen[r] {
			seen[r] = true
			work = append(work, r)
		}
	}
	for len(work) > 0 {
		f := work[len(work)-1]
		work = work[:len(work)-1]
		for _, an := range f.AnonFuncs {
			if !seen[an] {
				seen[an] = true
				work = append(work, an)
			}
		}
		n := cg.Nodes[f]
		if n == nil {
			continue
		}
		for _, e := range n.Out {
			if _, isGo := e.Site.(*ssa.Go); isGo && !followGo {
				continue
			}
			g := e.Callee.Func
			if g != nil && !seen[g] && traversable(g) {
				seen[g] = true
				work = append(work, g)
			}
		}
	}
	return seen
}

// R09b: the scanner goroutine and the parser share no lexer field except the channel.
func ruleR09b(c *Ctx) {
	c.buildSSA()
	run := c.ssaFunc("parse", "(*lexer).run")
	if run == nil {
		c.fatalf("anchor: parse.(*lexer).run not found")
		return
	}
	cg := c.VTA()
	lexSide := reachFrom(cg, []*ssa.Function{run}, true)
	var roots []*ssa.Function
	for _, s := range []string{"SoyFile", "Expr"} {
		f := c.ssaFunc("parse", s)
		if f == nil {
			c.fatalf("anchor: parse.%s not found", s)
			return
		}
		roots = append(roots, f)
	}
	treeSide := reachFrom(cg, roots, false)
	lexType := c.SSA["parse"].Type("lexer")
	if lexType == nil {
		c.fatalf("anchor: type parse.lexer not found")
		return
	}
	st := lexType.Type().Underlying().(*types.Struct)
	type acc struct{ r, w map[string][]string }
	collect := func(fs map[*ssa.Function]bool) acc {
		a := acc{map[string][]string{}, map[string][]string{}}
		for f := range fs {
			if !isSoyFunc(f) || f.Blocks == nil {
				continue
			}
			for _, b := range f.Blocks {
				for _, in := range b.Instrs {
					fa, ok := in.(*ssa.FieldAddr)
					if !ok {
						continue
					}
					pt, ok := fa.X.Type().Underlying().(*types.Pointer)
					if !ok || !types.Identical(pt.Elem(), lexType.Type()) {
						continue
					}
					// fields of an object allocated in this function (the constructor) are not yet shared
					if _, fresh := stripAddr(fa.X).(*ssa.Alloc); fresh {
						continue
					}
					name := st.Field(fa.Field).Name()
					written := false
					for _, ref := range *fa.Referrers() {
						if s, ok := ref.(*ssa.Store); ok && s.Addr == fa {
							written = true
						}
					}
					fk := strings.ReplaceAll(f.String(), modPath+"/", "")
					if written {
						a.w[name] = append(a.w[name], fk)
					} else {
						a.r[name] = append(a.r[name], fk)
					}
				}
			}
		}
		return a
	}
	la, ta := collect(lexSide), collect(treeSide)
	n := 0
	for i := 0; i < st.NumFields(); i++ {
		name := st.Field(i).Name()
		n++
		key := "parse.lexer." + name
		if _, isChan := st.Field(i).Type().Underlying().(*types.Chan); isChan {
			c.ok("R09b", key, st.Field(i).Pos(), "channel: the one synchronised hand-over between scanner goroutine and parser")
			continue
		}
		lw, tw := len(la.w[name]) > 0, len(ta.w[name]) > 0
		lr, tr := len(la.r[name]) > 0, len(ta.r[name]) > 0
		switch {
		case lw && (tw || tr):
			sort.Strings(ta.r[name])
			c.bad("R09b", key, st.Field(i).Pos(), fmt.Sprintf("written by the scanner goroutine (%s) and accessed by the parser (%s) without synchronisation", first(la.w[name]), first(append(ta.w[name], ta.r[name]...))))
		case tw && (lr || lw):
			c.bad("R09b", key, st.Field(i).Pos(), fmt.Sprintf("written by the parser (%s) while the scanner goroutine accesses it (%s)", first(ta.w[name]), first(append(la.w[name], la.r[name]...))))
		default:
			c.ok("R09b", key, st.Field(i).Pos(), fmt.Sprintf("scanner side: read=%v write=%v; parser side: read=%v write=%v: no unsynchronised sharing", lr, lw, tr, tw))
		}
	}
	c.floor("R09b", "lexer fields", 8, n)
}

func first(s []string) string {
	if len(s) == 0 {
		return "-"
	}
	sort.Strings(s)
	return s[0]
}

// R09c / R18b: the scanner closes its channel on every exit of run.
func ruleRunCloses(c *Ctx, rule string) {
	fd := c.mustFunc("parse", "lexer.run")
	if fd == nil {
		return
	}
	p := c.pkg("parse")
	info := p.TypesInfo
	nr := newNoRet(c)
	const open, closed = 1, 2
	deferredClose := false
	ast.Inspect(fd.Body, func(x ast.Node) bool {
		if d, ok := x.(*ast.DeferStmt); ok {
			if id, ok := d.Call.Fun.(*ast.Ident); ok && id.Name == "close" {
				deferredClose = true
			}
		}
		return true
	})
	res := runFlow(fd.Body, nr.forInfo(info), flowState{"ch": open}, func(n ast.Node, st flowState, report bool) flowState {
		ast.Inspect(n, func(x ast.Node) bool {
			if _, ok := x.(*ast.FuncLit); ok {
				return false
			}
			if _, ok := x.(*ast.DeferStmt); ok {
				return false
			}
			if call, ok := x.(*ast.CallExpr); ok {
				if id, ok := call.Fun.(*ast.Ident); ok && id.Name == "close" {
					if _, ok := info.Uses[id].(*types.Builtin); ok {
						st["ch"] = closed
					}
				}
			}
			return true
		})
		return st
	})
	okAll := true
	for _, b := range res.exitBlocks() {
		if res.out[b]["ch"] != closed && !deferredClose {
			okAll = false
		}
	}
	c.check(okAll && len(res.exitBlocks()) > 0, rule, "parse.lexer.run#closes-items", fd.Pos(),
		"every exit of the scanner's run loop closes the item channel, so drain and nextItem cannot block on a finished scanner",
		"an exit of run leaves the item channel open: a parser waiting on it (or drain) blocks forever")
}

func ruleR09c(c *Ctx) { ruleRunCloses(c, "R09c") }

// R09d: no goroutine is started on the render / JS-generation path.
func ruleR09d(c *Ctx) {
	entries := c.entryFuncs(renderEntries)
	if len(entries) != len(renderEntries) {
		return
	}
	reach := reachFrom(c.VTA(), entries, true)
	n, gos := 0, 0
	for f := range reach {
		if !isSoyFunc(f) || f.Blocks == nil {
			continue
		}
		n++
		for _, b := range f.Blocks {
			for _, in := range b.Instrs {
				if g, ok := in.(*ssa.Go); ok {
					gos++
					c.bad("R09d", strings.ReplaceAll(f.String(), modPath+"/", "")+" go", g.Pos(), "a goroutine is started while rendering/generating: its writes are concurrent with the render's own")
				}
			}
		}
	}
	if gos == 0 {
		c.ok("R09d", "render-path#no-go-statements", entries[0].Pos(), fmt.Sprintf("no go statement in the %d soy functions reachable from the render/JS entries: a render's own writes are sequential", n))
	}
}
