package main

import (
	"fmt"
	"go/ast"
	"go/constant"
	"go/token"
	"go/types"
	"strings"
)

// node kinds handled by only one backend, with the reason.
var backendOnly = map[string]string{
	"SoyDocNode":      "JS only: the generator walks whole files; the Go renderer starts at a template",
	"NamespaceNode":   "JS only: emits the namespace objects; the Go renderer takes the namespace from the registry",
	"SoyFileNode":     "both list it; kept for symmetry",
	"HeaderParamNode": "Go only: the registry strips header params from the body before either backend sees it",
}

// R04a: both backends handle the same node kinds.
func ruleR04a(c *Ctx) {
	goCases, gfd := walkCaseTypes(c, "soyhtml", "state.walk")
	jsCases, _ := walkCaseTypes(c, "soyjs", "state.walk")
	if goCases == nil || jsCases == nil {
		return
	}
	all := map[string]bool{}
	for k := range goCases {
		all[k] = true
	}
	for k := range jsCases {
		all[k] = true
	}
	for _, k := range sortedKeys(all) {
		key := "node-case " + k
		switch {
		case goCases[k] != nil && jsCases[k] != nil:
			c.ok("R04a", key, goCases[k].Pos(), "handled by the Go renderer and by the JavaScript generator")
		case backendOnly[k] != "":
			c.okTrivial("R04a", key, gfd.Pos(), "named exception: "+backendOnly[k])
		case goCases[k] != nil:
			c.bad("R04a", key, goCases[k].Pos(), "the Go renderer handles "+k+" but the JavaScript generator does not: generation fails (or differs) for templates the Go renderer accepts")
		default:
			c.bad("R04a", key, jsCases[k].Pos(), "the JavaScript generator handles "+k+" but the Go renderer does not")
		}
	}
	c.floor("R04a", "node kinds across both backends", 40, len(all))
}

// jsFuncTable reads soyjs's []Func{...} literal.
func jsFuncTable(c *Ctx) map[string][]int {
	cl := jsFuncsLit(c)
	if cl == nil {
		return nil
	}
	info := c.Pkgs["soyjs"].TypesInfo
	out := map[string][]int{}
	for _, el := range cl.Elts {
		row, ok := el.(*ast.CompositeLit)
		if !ok || len(row.Elts) == 0 {
			continue
		}
		first := row.Elts[0]
		if kv, ok := first.(*ast.KeyValueExpr); ok {
			first = kv.Value
		}
		v := info.Types[first].Value
		if v == nil || v.Kind() != constant.String {
			continue
		}
		out[constant.StringVal(v)] = intSliceIn(row, info)
	}
	return out
}

var funcTableExceptions = map[string]string{
	"range":         "Go only as a function: the JavaScript generator compiles range() in a for loop header (visitForRange)",
	"bidiGlobalDir": "JS only: bidi support is not implemented by the Go renderer", "bidiDirAttr": "JS only (bidi)",
	"bidiStartEdge": "JS only (bidi)", "bidiEndEdge": "JS only (bidi)",
}

// R04b: function and directive tables agree between the backends.
func ruleR04b(c *Ctx) {
	g := funcTableGo(c)
	j := jsFuncTable(c)
	if g == nil || j == nil {
		return
	}
	pos := jsFuncsLit(c).Pos()
	all := map[string]bool{}
	for k := range g {
		all[k] = true
	}
	for k := range j {
		all[k] = true
	}
	for _, k := range sortedKeys(all) {
		key := "func " + k
		gv, gok := g[k]
		jv, jok := j[k]
		switch {
		case gok && jok && fmt.Sprint(gv) == fmt.Sprint(jv):
			c.ok("R04b", key, pos, fmt.Sprintf("both backends, argument counts %v", gv))
		case gok && jok:
			c.bad("R04b", key, pos, fmt.Sprintf("argument counts differ: Go %v, JavaScript %v", gv, jv))
		case funcTableExceptions[k] != "":
			c.okTrivial("R04b", key, pos, "named exception: "+funcTableExceptions[k])
		default:
			c.bad("R04b", key, pos, fmt.Sprintf("function %s exists in only one backend (Go=%v, JavaScript=%v)", k, gok, jok))
		}
	}
	c.floor("R04b", "functions across both backends", 14, len(all))
	// loop functions: Go table vs the JS generator's switch
	vf := c.mustFunc("soyjs", "state.visitFunction")
	if vf != nil {
		info := c.Pkgs["soyjs"].TypesInfo
		jsLoop := map[string]bool{}
		ast.Inspect(vf.Body, func(x ast.Node) bool {
			if cc, ok := x.(*ast.CaseClause); ok {
				for _, e := range cc.List {
					if v := info.Types[e].Value; v != nil && v.Kind() == constant.String {
						jsLoop[constant.StringVal(v)] = true
					}
				}
			}
			return true
		})
		for _, n := range []string{"index", "isFirst", "isLast"} {
			c.check(jsLoop[n], "R04b", "loopfunc "+n, vf.Pos(), "compiled by the JavaScript generator", "loop function "+n+" is not compiled by the JavaScript generator")
		}
	}
	// directives
	gd := directiveTable(c, "soyhtml")
	jd := directiveTable(c, "soyjs")
	if gd == nil || jd == nil {
		return
	}
	gm, jm := map[string]directiveEntry{}, map[string]directiveEntry{}
	names := map[string]bool{}
	for _, e := range gd {
		gm[e.name] = e
		names[e.name] = true
	}
	for _, e := range jd {
		jm[e.name] = e
		names[e.name] = true
	}
	for _, n := range sortedKeys(names) {
		key := "directive " + n
		ge, gok := gm[n]
		je, jok := jm[n]
		switch {
		case !gok || !jok:
			p := ge.pos
			if !gok {
				p = je.pos
			}
			c.bad("R04b", key, p, fmt.Sprintf("print directive %s exists in only one backend (Go=%v, JavaScript=%v)", n, gok, jok))
		case ge.cancel != je.cancel:
			c.bad("R04b", key, je.pos, fmt.Sprintf("CancelAutoescape differs: Go %v, JavaScript %v: one backend escapes the directive's output and the other does not", ge.cancel, je.cancel))
		default:
			c.ok("R04b", key, ge.pos, fmt.Sprintf("both backends, CancelAutoescape=%v", ge.cancel))
		}
	}
	c.floor("R04b", "print directives across both backends", 11, len(names))
}

func ruleR04d(c *Ctx) {
	rulePairing(c, "R04d", "soyjs")
	ruleBlocks(c, "R04d", "soyjs", 8)
}

// R04f: the JavaScript operator emitted for each operator node is the language's.
func ruleR04f(c *Ctx) {
	jsCases, _ := walkCaseTypes(c, "soyjs", "state.walk")
	if jsCases == nil {
		return
	}
	info := c.Pkgs["soyjs"].TypesInfo
	n := 0
	for _, op := range langOps {
		cc := jsCases[op.node]
		if cc == nil || op.jsOp == "" {
			continue
		}
		n++
		key := "soyjs.walk " + op.node
		// string constants passed in this case's emit calls
		var lits []string
		ast.Inspect(cc, func(x ast.Node) bool {
			if call, ok := x.(*ast.CallExpr); ok {
				for _, a := range call.Args {
					if v := info.Types[a].Value; v != nil && v.Kind() == constant.String {
						lits = append(lits, constant.StringVal(v))
					}
				}
			}
			return true
		})
		joined := strings.Join(lits, " ")
		stripped := strings.NewReplacer("(", "", ")", "", " ", "").Replace(joined)
		c.check(stripped == op.jsOp, "R04f", key, cc.Pos(), "emits the JavaScript operator "+op.jsOp,
			fmt.Sprintf("emits %q where the language's operator %s maps to JavaScript %s", joined, op.symbol, op.jsOp))
	}
	c.floor("R04f", "operator cases of the JavaScript generator", 15, n)
	// operand order in the shared emitter and in ternary / elvis
	argOrder := func(cc ast.Node) []string {
		var out []string
		ast.Inspect(cc, func(x ast.Node) bool {
			if call, ok := x.(*ast.CallExpr); ok {
				for _, a := range call.Args {
					if se, ok := ast.Unparen(a).(*ast.SelectorExpr); ok && strings.HasPrefix(se.Sel.Name, "Arg") {
						out = append(out, se.Sel.Name)
					}
					if ix, ok := ast.Unparen(a).(*ast.IndexExpr); ok {
						if v := info.Types[ix.Index].Value; v != nil {
							out = append(out, "child"+v.ExactString())
						}
					}
				}
			}
			return true
		})
		return out
	}
	if opfd := c.funcDecl("soyjs", "state.op"); opfd != nil {
		c.check(fmt.Sprint(argOrder(opfd.Body)) == "[child0 child1]", "R04f", "soyjs.state.op#operand-order", opfd.Pos(), "emits (left) op (right)", "the shared binary emitter writes the operands in the wrong order: "+fmt.Sprint(argOrder(opfd.Body)))
	} else {
		c.fatalf("anchor: soyjs.(*state).op not found")
	}
	if cc := jsCases["TernNode"]; cc != nil {
		c.check(fmt.Sprint(argOrder(cc)) == "[Arg1 Arg2 Arg3]", "R04f", "soyjs.walk TernNode", cc.Pos(), "emits cond ? then : else", "ternary operands emitted in the order "+fmt.Sprint(argOrder(cc)))
	}
	if cc := jsCases["ElvisNode"]; cc != nil {
		c.check(fmt.Sprint(argOrder(cc)) == "[Arg1 Arg1 Arg2]", "R04f", "soyjs.walk ElvisNode", cc.Pos(), "emits (a != null ? a : b)", "?: operands emitted in the order "+fmt.Sprint(argOrder(cc)))
	}
}

// jsPrintHypo: autoescape mode and cancel flag for the generator's print.
type jsPrintHypo struct {
	mode    constant.Value
	cancel  bool
	modeFld *types.Var
	cancFld *types.Var
}

func (h jsPrintHypo) expr(ev *evaluator, e ast.Expr, info *types.Info) (aval, bool) {
	if se, ok := e.(*ast.SelectorExpr); ok {
		if sel, ok := info.Selections[se]; ok && sel.Kind() == types.FieldVal {
			if sel.Obj() == h.modeFld {
				return constVal(h.mode), true
			}
			if sel.Obj() == h.cancFld {
				return boolVal(h.cancel), true
			}
		}
	}
	return unknown, false
}
func (h jsPrintHypo) prim(ev *evaluator, fn *types.Func, call *ast.CallExpr, st state) (aval, bool) {
	return unknown, false
}
func (h jsPrintHypo) isRead(fn *types.Func) bool { return false }

// R04g: the generator wraps a print in escapeHtml exactly when the Go renderer escapes it.
func ruleR04g(c *Ctx) {
	p := c.pkg("soyjs")
	fd := c.mustFunc("soyjs", "state.visitPrint")
	if p == nil || fd == nil {
		return
	}
	info := p.TypesInfo
	stObj := p.Types.Scope().Lookup("state")
	pdObj := p.Types.Scope().Lookup("PrintDirective")
	var modeFld, cancFld *types.Var
	if stObj != nil {
		st := stObj.Type().Underlying().(*types.Struct)
		for i := 0; i < st.NumFields(); i++ {
			if _, tn, ok := relPkgOfType(st.Field(i).Type()); ok && tn == "AutoescapeType" {
				modeFld = st.Field(i)
			}
		}
	}
	if pdObj != nil {
		pd := pdObj.Type().Underlying().(*types.Struct)
		for i := 0; i < pd.NumFields(); i++ {
			if b, ok := pd.Field(i).Type().(*types.Basic); ok && b.Kind() == types.Bool {
				cancFld = pd.Field(i)
			}
		}
	}
	if modeFld == nil || cancFld == nil {
		c.fatalf("anchor: soyjs state autoescape field / PrintDirective cancel flag not found")
		return
	}
	c.seen("soyjs.state.visitPrint")
	ap := c.pkg("ast")
	for _, mn := range ap.Types.Scope().Names() {
		k, ok := ap.Types.Scope().Lookup(mn).(*types.Const)
		if !ok {
			continue
		}
		if _, tn, ok := relPkgOfType(k.Type()); !ok || tn != "AutoescapeType" {
			continue
		}
		for _, cancel := range []bool{false, true} {
			ev := newEvaluator(c, jsPrintHypo{k.Val(), cancel, modeFld, cancFld})
			ev.watchLit = "escapeHtml"
			comps := ev.execBlock(fd.Body.List, state{env: env{}}, info)
			paths, wrapped := 0, 0
			for _, cp := range comps {
				if cp.kind == cNoReturn || cp.kind == cSpin {
					continue
				}
				paths++
				for _, e := range cp.st.tr.list() {
					if strings.HasPrefix(e.name, "lit:") {
						wrapped++
						break
					}
				}
			}
			key := fmt.Sprintf("soyjs.state.visitPrint mode=%s cancel=%v", mn, cancel)
			must := !strings.HasSuffix(mn, "Off") && !cancel
			switch {
			case paths == 0:
				c.unk("R04g", key, fd.Pos(), "no completing path evaluated")
			case must && wrapped != paths:
				c.bad("R04g", key, fd.Pos(), fmt.Sprintf("only %d of %d completing paths wrap the printed value in escapeHtml, but the Go renderer escapes it", wrapped, paths))
			case must:
				c.ok("R04g", key, fd.Pos(), fmt.Sprintf("all %d completing paths wrap the value in escapeHtml, as the Go renderer escapes it", paths))
			case strings.HasSuffix(mn, "Off") && wrapped > 0:
				c.bad("R04g", key, fd.Pos(), "the generator escapes although autoescaping is off: the Go renderer writes the value raw")
			default:
				c.okTrivial("R04g", key, fd.Pos(), fmt.Sprintf("escaping not required here (%d of %d paths wrap)", wrapped, paths))
			}
		}
	}
}

var _ = token.ADD

// jsFuncsLit: the rows of the generator's function table, whichever way it is declared: the package-level
// variable of soyjs initialised by a []Func literal (copied into Funcs by init) or by a map[string]Func
// literal. A map literal is normalised to the list of its row literals.
func jsFuncsLit(c *Ctx) *ast.CompositeLit {
	p := c.pkg("soyjs")
	if p == nil {
		return nil
	}
	fobj := p.Types.Scope().Lookup("Func")
	if fobj == nil {
		c.fatalf("anchor: soyjs.Func not found")
		return nil
	}
	for _, f := range p.Syntax {
		for _, d := range f.Decls {
			gd, ok := d.(*ast.GenDecl)
			if !ok || gd.Tok != token.VAR {
				continue
			}
			for _, sp := range gd.Specs {
				vs := sp.(*ast.ValueSpec)
				for _, v := range vs.Values {
					cl, ok := ast.Unparen(v).(*ast.CompositeLit)
					if !ok {
						continue
					}
					tv, ok := p.TypesInfo.Types[cl]
					if !ok {
						continue
					}
					switch t := tv.Type.Underlying().(type) {
					case *types.Slice:
						if types.Identical(t.Elem(), fobj.Type()) {
							return cl
						}
					case *types.Map:
						if types.Identical(t.Elem(), fobj.Type()) {
							rows := &ast.CompositeLit{Type: cl.Type, Lbrace: cl.Lbrace, Rbrace: cl.Rbrace}
							for _, el := range cl.Elts {
								if kv, ok := el.(*ast.KeyValueExpr); ok {
									rows.Elts = append(rows.Elts, kv.Value)
								}
							}
							return rows
						}
					}
				}
			}
		}
	}
	c.fatalf("anchor: soyjs's function table ([]Func or map[string]Func literal) not found")
	return nil
}
