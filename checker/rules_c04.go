package main

import (
	"fmt"
	"go/ast"
	"go/constant"
	"go/token"
	"go/types"
	"os"
	"path/filepath"
	"strings"
)

// node kinds handled by only one backend, with the reason.
var backendOnly = map[string]string{
	"SoyDocNode":      "JS only: the generator walks whole files; the Go renderer starts at a template",
	"NamespaceNode":   "JS only: emits the namespace objects; the Go renderer takes the namespace from the registry",
	"SoyFileNode":     "both list it; kept for symmetry",
	"HeaderParamNode": "Go only: the registry strips header params from the body before either backend sees it",
}

// R04a: both backends handle the same node kinds.
func ruleR04a(c *Ctx) {
	goCases, gfd := walkCaseTypes(c, "soyhtml", "state.walk")
	jsCases, _ := walkCaseTypes(c, "soyjs", "state.walk")
	if goCases == nil || jsCases == nil {
		return
	}
	all := map[string]bool{}
	for k := range goCases {
		all[k] = true
	}
	for k := range jsCases {
		all[k] = true
	}
	for _, k := range sortedKeys(all) {
		key := "node-case " + k
		switch {
		case goCases[k] != nil && jsCases[k] != nil:
			c.ok("R04a", key, goCases[k].Pos(), "handled by the Go renderer and by the JavaScript generator")
		case backendOnly[k] != "":
			c.okTrivial("R04a", key, gfd.Pos(), "named exception: "+backendOnly[k])
		case goCases[k] != nil:
			c.bad("R04a", key, goCases[k].Pos(), "the Go renderer handles "+k+" but the JavaScript generator does not: generation fails (or differs) for templates the Go renderer accepts")
		default:
			c.bad("R04a", key, jsCases[k].Pos(), "the JavaScript generator handles "+k+" but the Go renderer does not")
		}
	}
	c.floor("R04a", "node kinds across both backends", 40, len(all))
}

// jsFuncTable reads soyjs's []Func{...} literal.
func jsFuncTable(c *Ctx) map[string][]int {
	cl := jsFuncsLit(c)
	if cl == nil {
		return nil
	}
	info := c.Pkgs["soyjs"].TypesInfo
	out := map[string][]int{}
	for _, el := range cl.Elts {
		row, ok := el.(*ast.CompositeLit)
		if !ok || len(row.Elts) == 0 {
			continue
		}
		first := row.Elts[0]
		if kv, ok := first.(*ast.KeyValueExpr); ok {
			first = kv.Value
		}
		v := info.Types[first].Value
		if v == nil || v.Kind() != constant.String {
			continue
		}
		out[constant.StringVal(v)] = intSliceIn(row, info)
	}
	return out
}

var funcTableExceptions = map[string]string{
	"range":         "Go only as a function: the JavaScript generator compiles range() in a for loop header (visitForRange)",
	"bidiGlobalDir": "JS only: bidi support is not implemented by the Go renderer", "bidiDirAttr": "JS only (bidi)",
	"bidiStartEdge": "JS only (bidi)", "bidiEndEdge": "JS only (bidi)",
}

// R04b: function and directive tables agree between the backends.
func ruleR04b(c *Ctx) {
	g := funcTableGo(c)
	j := jsFuncTable(c)
	if g == nil || j == nil {
		return
	}
	pos := jsFuncsLit(c).Pos()
	all := map[string]bool{}
	for k := range g {
		all[k] = true
	}
	for k := range j {
		all[k] = true
	}
	for _, k := range sortedKeys(all) {
		key := "func " + k
		gv, gok := g[k]
		jv, jok := j[k]
		switch {
		case gok && jok && fmt.Sprint(gv) == fmt.Sprint(jv):
			c.ok("R04b", key, pos, fmt.Sprintf("both backends, argument counts %v", gv))
		case gok && jok:
			c.bad("R04b", key, pos, fmt.Sprintf("argument counts differ: Go %v, JavaScript %v", gv, jv))
		case funcTableExceptions[k] != "":
			c.okTrivial("R04b", key, pos, "named exception: "+funcTableExceptions[k])
		default:
			c.bad("R04b", key, pos, fmt.Sprintf("function %s exists in only one backend (Go=%v, JavaScript=%v)", k, gok, jok))
		}
	}
	c.floor("R04b", "functions across both backends", 14, len(all))
	// loop functions: Go table vs the JS generator's switch
	vf := c.mustFunc("soyjs", "state.visitFunction")
	if vf != nil {
		info := c.Pkgs["soyjs"].TypesInfo
		jsLoop := map[string]bool{}
		ast.Inspect(vf.Body, func(x ast.Node) bool {
			if cc, ok := x.(*ast.CaseClause); ok {
				for _, e := range cc.List {
					if v := info.Types[e].Value; v != nil && v.Kind() == constant.String {
						jsLoop[constant.StringVal(v)] = true
					}
				}
			}
			return true
		})
		for _, n := range []string{"index", "isFirst", "isLast"} {
			c.check(jsLoop[n], "R04b", "loopfunc "+n, vf.Pos(), "compiled by the JavaScript generator", "loop function "+n+" is not compiled by the JavaScript generator")
		}
	}
	// directives
	gd := directiveTable(c, "soyhtml")
	jd := directiveTable(c, "soyjs")
	if gd == nil || jd == nil {
		return
	}
	gm, jm := map[string]directiveEntry{}, map[string]directiveEntry{}
	names := map[string]bool{}
	for _, e := range gd {
		gm[e.name] = e
		names[e.name] = true
	}
	for _, e := range jd {
		jm[e.name] = e
		names[e.name] = true
	}
	for _, n := range sortedKeys(names) {
		key := "directive " + n
		ge, gok := gm[n]
		je, jok := jm[n]
		switch {
		case !gok || !jok:
			p := ge.pos
			if !gok {
				p = je.pos
			}
			c.bad("R04b", key, p, fmt.Sprintf("print directive %s exists in only one backend (Go=%v, JavaScript=%v)", n, gok, jok))
		case ge.cancel != je.cancel:
			c.bad("R04b", key, je.pos, fmt.Sprintf("CancelAutoescape differs: Go %v, JavaScript %v: one backend escapes the directive's output and the other does not", ge.cancel, je.cancel))
		default:
			c.ok("R04b", key, ge.pos, fmt.Sprintf("both backends, CancelAutoescape=%v", ge.cancel))
		}
	}
	c.floor("R04b", "print directives across both backends", 11, len(names))
}

func ruleR04d(c *Ctx) {
	rulePairing(c, "R04d", "soyjs")
	ruleBlocks(c, "R04d", "soyjs", 8)
}

// R04f: the JavaScript operator emitted for each operator node is the language's.
func ruleR04f(c *Ctx) {
	jsCases, _ := walkCaseTypes(c, "soyjs", "state.walk")
	if jsCases == nil {
		return
	}
	info := c.Pkgs["soyjs"].TypesInfo
	n := 0
	for _, op := range langOps {
		cc := jsCases[op.node]
		if cc == nil || op.jsOp == "" {
			continue
		}
		n++
		key := "soyjs.walk " + op.node
		// string constants passed in this case's emit calls
		var lits []string
		ast.Inspect(cc, func(x ast.Node) bool {
			if call, ok := x.(*ast.CallExpr); ok {
				for _, a := range call.Args {
					if v := info.Types[a].Value; v != nil && v.Kind() == constant.String {
						lits = append(lits, constant.StringVal(v))
					}
				}
			}
			return true
		})
		joined := strings.Join(lits, " ")
		stripped := strings.NewReplacer("(", "", ")", "", " ", "").Replace(joined)
		c.check(stripped == op.jsOp, "R04f", key, cc.Pos(), "emits the JavaScript operator "+op.jsOp,
			fmt.Sprintf("emits %q where the language's operator %s maps to JavaScript %s", joined, op.symbol, op.jsOp))
	}
	c.floor("R04f", "operator cases of the JavaScript generator", 15, n)
	// operand order in the shared emitter and in ternary / elvis
	argOrder := func(cc ast.Node) []string {
		var out []string
		ast.Inspect(cc, func(x ast.Node) bool {
			if call, ok := x.(*ast.CallExpr); ok {
				for _, a := range call.Args {
					if se, ok := ast.Unparen(a).(*ast.SelectorExpr); ok && strings.HasPrefix(se.Sel.Name, "Arg") {
						out = append(out, se.Sel.Name)
					}
					if ix, ok := ast.Unparen(a).(*ast.IndexExpr); ok {
						if v := info.Types[ix.Index].Value; v != nil {
							out = append(out, "child"+v.ExactString())
						}
					}
				}
			}
			return true
		})
		return out
	}
	if opfd := c.funcDecl("soyjs", "state.op"); opfd != nil {
		c.check(fmt.Sprint(argOrder(opfd.Body)) == "[child0 child1]", "R04f", "soyjs.state.op#operand-order", opfd.Pos(), "emits (left) op (right)", "the shared binary emitter writes the operands in the wrong order: "+fmt.Sprint(argOrder(opfd.Body)))
	} else {
		c.fatalf("anchor: soyjs.(*state).op not found")
	}
	if cc := jsCases["TernNode"]; cc != nil {
		c.check(fmt.Sprint(argOrder(cc)) == "[Arg1 Arg2 Arg3]", "R04f", "soyjs.walk TernNode", cc.Pos(), "emits cond ? then : else", "ternary operands emitted in the order "+fmt.Sprint(argOrder(cc)))
	}
	if cc := jsCases["ElvisNode"]; cc != nil {
		c.check(fmt.Sprint(argOrder(cc)) == "[Arg1 Arg1 Arg2]", "R04f", "soyjs.walk ElvisNode", cc.Pos(), "emits (a != null ? a : b)", "?: operands emitted in the order "+fmt.Sprint(argOrder(cc)))
	}
}

// jsPrintHypo: autoescape mode and cancel flag for the generator's print.
type jsPrintHypo struct {
	mode    constant.Value
	cancel  bool
	modeFld *types.Var
	cancFld *types.Var
	name    string // when not empty: the Name of every directive node of the print
}

func (h jsPrintHypo) expr(ev *evaluator, e ast.Expr, info *types.Info) (aval, bool) {
	if se, ok := e.(*ast.SelectorExpr); ok {
		if sel, ok := info.Selections[se]; ok && sel.Kind() == types.FieldVal {
			if sel.Obj() == h.modeFld {
				return constVal(h.mode), true
			}
			if sel.Obj() == h.cancFld {
				return boolVal(h.cancel), true
			}
			if h.name != "" && sel.Obj().Name() == "Name" {
				if _, tn, ok := relPkgOfType(sel.Recv()); ok && tn == "PrintDirectiveNode" {
					return constVal(constant.MakeString(h.name)), true
				}
			}
		}
	}
	return unknown, false
}
func (h jsPrintHypo) prim(ev *evaluator, fn *types.Func, call *ast.CallExpr, st state) (aval, bool) {
	// the printed expression is generated by the tree walker: not followed (it may hold prints of its own,
	// whose escaping is not this print's)
	if fn != nil && fn.Name() == "walk" && fn.Type().(*types.Signature).Recv() != nil {
		return unknown, true
	}
	return unknown, false
}
func (h jsPrintHypo) isRead(fn *types.Func) bool { return false }

// R04g: the generator wraps a print in escapeHtml exactly when the Go renderer escapes it.
func ruleR04g(c *Ctx) {
	p := c.pkg("soyjs")
	fd := c.mustFunc("soyjs", "state.visitPrint")
	if p == nil || fd == nil {
		return
	}
	info := p.TypesInfo
	stObj := p.Types.Scope().Lookup("state")
	pdObj := p.Types.Scope().Lookup("PrintDirective")
	var modeFld, cancFld *types.Var
	if stObj != nil {
		st := stObj.Type().Underlying().(*types.Struct)
		for i := 0; i < st.NumFields(); i++ {
			if _, tn, ok := relPkgOfType(st.Field(i).Type()); ok && tn == "AutoescapeType" {
				modeFld = st.Field(i)
			}
		}
	}
	if pdObj != nil {
		pd := pdObj.Type().Underlying().(*types.Struct)
		for i := 0; i < pd.NumFields(); i++ {
			if b, ok := pd.Field(i).Type().(*types.Basic); ok && b.Kind() == types.Bool {
				cancFld = pd.Field(i)
			}
		}
	}
	if modeFld == nil || cancFld == nil {
		c.fatalf("anchor: soyjs state autoescape field / PrintDirective cancel flag not found")
		return
	}
	c.seen("soyjs.state.visitPrint")
	ap := c.pkg("ast")
	for _, mn := range ap.Types.Scope().Names() {
		k, ok := ap.Types.Scope().Lookup(mn).(*types.Const)
		if !ok {
			continue
		}
		if _, tn, ok := relPkgOfType(k.Type()); !ok || tn != "AutoescapeType" {
			continue
		}
		for _, cancel := range []bool{false, true} {
			// the directives of the print: an ordinary one (not HTML-producing, not a no-op marker) with this flag
			ev := newEvaluator(c, jsPrintHypo{k.Val(), cancel, modeFld, cancFld, plainDirective(c, cancel)})
			ev.watchLit = "escapeHtml"
			ev.stmtHook = dirAppendHook(c, info)
			comps := ev.execBlock(fd.Body.List, state{env: env{}}, info)
			paths, wrapped := 0, 0
			withDir, withDirWrapped := 0, 0
			for _, cp := range comps {
				if cp.kind == cNoReturn || cp.kind == cSpin {
					continue
				}
				paths++
				w, d := false, false
				for _, e := range cp.st.tr.list() {
					if strings.HasPrefix(e.name, "lit:") {
						w = true
					}
					if strings.HasPrefix(e.name, "append-dir") || e.name == "append-esc-dir" {
						d = true
					}
				}
				if w {
					wrapped++
				}
				if d {
					withDir++
					if w {
						withDirWrapped++
					}
				}
			}
			if cancel && withDir > 0 {
				key := fmt.Sprintf("soyjs.state.visitPrint mode=%s cancelling-directive", mn)
				c.check(withDirWrapped == 0, "R04g", key, fd.Pos(), fmt.Sprintf("no path that puts a cancelling directive on the list (%d) also wraps the value in escapeHtml", withDir),
					"the generator wraps the value in escapeHtml although a directive of the print cancels autoescaping: the Go renderer does not escape it")
			}
			key := fmt.Sprintf("soyjs.state.visitPrint mode=%s cancel=%v", mn, cancel)
			must := !strings.HasSuffix(mn, "Off") && !cancel
			switch {
			case paths == 0:
				c.unk("R04g", key, fd.Pos(), "no completing path evaluated")
			case must && wrapped != paths:
				c.bad("R04g", key, fd.Pos(), fmt.Sprintf("only %d of %d completing paths wrap the printed value in escapeHtml, but the Go renderer escapes it", wrapped, paths))
			case must:
				c.ok("R04g", key, fd.Pos(), fmt.Sprintf("all %d completing paths wrap the value in escapeHtml, as the Go renderer escapes it", paths))
			case strings.HasSuffix(mn, "Off") && wrapped > 0:
				c.bad("R04g", key, fd.Pos(), "the generator escapes although autoescaping is off: the Go renderer writes the value raw")
			default:
				c.okTrivial("R04g", key, fd.Pos(), fmt.Sprintf("escaping not required here (%d of %d paths wrap)", wrapped, paths))
			}
		}
	}
}

var _ = token.ADD

// jsFuncsLit: the rows of the generator's function table, whichever way it is declared: the package-level
// variable of soyjs initialised by a []Func literal (copied into Funcs by init) or by a map[string]Func
// literal. A map literal is normalised to the list of its row literals.
func jsFuncsLit(c *Ctx) *ast.CompositeLit {
	p := c.pkg("soyjs")
	if p == nil {
		return nil
	}
	fobj := p.Types.Scope().Lookup("Func")
	if fobj == nil {
		c.fatalf("anchor: soyjs.Func not found")
		return nil
	}
	for _, f := range p.Syntax {
		for _, d := range f.Decls {
			gd, ok := d.(*ast.GenDecl)
			if !ok || gd.Tok != token.VAR {
				continue
			}
			for _, sp := range gd.Specs {
				vs := sp.(*ast.ValueSpec)
				for _, v := range vs.Values {
					cl, ok := ast.Unparen(v).(*ast.CompositeLit)
					if !ok {
						continue
					}
					tv, ok := p.TypesInfo.Types[cl]
					if !ok {
						continue
					}
					switch t := tv.Type.Underlying().(type) {
					case *types.Slice:
						if types.Identical(t.Elem(), fobj.Type()) {
							return cl
						}
					case *types.Map:
						if types.Identical(t.Elem(), fobj.Type()) {
							rows := &ast.CompositeLit{Type: cl.Type, Lbrace: cl.Lbrace, Rbrace: cl.Rbrace}
							for _, el := range cl.Elts {
								if kv, ok := el.(*ast.KeyValueExpr); ok {
									rows.Elts = append(rows.Elts, kv.Value)
								}
							}
							return rows
						}
					}
				}
			}
		}
	}
	c.fatalf("anchor: soyjs's function table ([]Func or map[string]Func literal) not found")
	return nil
}

// jsDirectiveFuncs: directive name -> name of the JavaScript function in soyjs.PrintDirectives.
func jsDirectiveFuncs(c *Ctx) map[string]string {
	p := c.pkg("soyjs")
	init := c.mustVarInit("soyjs", "PrintDirectives")
	if p == nil || init == nil {
		return nil
	}
	cl, ok := init.(*ast.CompositeLit)
	if !ok {
		return nil
	}
	out := map[string]string{}
	for _, el := range cl.Elts {
		kv, ok := el.(*ast.KeyValueExpr)
		if !ok {
			continue
		}
		ktv := p.TypesInfo.Types[kv.Key]
		row, ok := kv.Value.(*ast.CompositeLit)
		if ktv.Value == nil || !ok {
			continue
		}
		for _, f := range row.Elts {
			val := f
			if kv2, ok := f.(*ast.KeyValueExpr); ok {
				val = kv2.Value
			}
			if tv := p.TypesInfo.Types[val]; tv.Value != nil && tv.Value.Kind() == constant.String {
				out[constant.StringVal(ktv.Value)] = constant.StringVal(tv.Value)
				break
			}
		}
	}
	return out
}

// plainDirective: a directive of the generator's table with the given cancel flag that has a JavaScript
// function of its own and is not HTML-producing ("" when there is none).
func plainDirective(c *Ctx, cancel bool) string {
	fns := jsDirectiveFuncs(c)
	for _, e := range directiveTable(c, "soyjs") {
		if e.cancel == cancel && fns[e.name] != "" && !strings.HasPrefix(cancelClass[e.name], "html:") {
			return e.name
		}
	}
	return ""
}

// R04r: a directive that adds markup to the text (class "html" of R03b: the Go Apply escapes the value it is
// given, whatever the autoescape mode) works on the escaped value in the generated JavaScript too. The
// runtime functions behind changeNewlineToBr and insertWordBreaks do not escape, so the generator has to
// put escapeHtml before them: visitPrint is evaluated (K2) with autoescaping off and every directive of
// the print being that directive; on every path each append of the directive node to the call list is
// preceded, in that iteration, by the append of an escapeHtml node (or carries it as an earlier argument).
func ruleR04r(c *Ctx) {
	p := c.pkg("soyjs")
	fd := c.mustFunc("soyjs", "state.visitPrint")
	if p == nil || fd == nil {
		return
	}
	info := p.TypesInfo
	var modeFld, cancFld *types.Var
	if stObj := p.Types.Scope().Lookup("state"); stObj != nil {
		st := stObj.Type().Underlying().(*types.Struct)
		for i := 0; i < st.NumFields(); i++ {
			if _, tn, ok := relPkgOfType(st.Field(i).Type()); ok && tn == "AutoescapeType" {
				modeFld = st.Field(i)
			}
		}
	}
	if pdObj := p.Types.Scope().Lookup("PrintDirective"); pdObj != nil {
		pd := pdObj.Type().Underlying().(*types.Struct)
		for i := 0; i < pd.NumFields(); i++ {
			if b, ok := pd.Field(i).Type().(*types.Basic); ok && b.Kind() == types.Bool {
				cancFld = pd.Field(i)
			}
		}
	}
	var off constant.Value
	for _, n := range c.pkg("ast").Types.Scope().Names() {
		if k, ok := c.pkg("ast").Types.Scope().Lookup(n).(*types.Const); ok && strings.HasSuffix(n, "Off") {
			if _, tn, ok := relPkgOfType(k.Type()); ok && tn == "AutoescapeType" {
				off = k.Val()
			}
		}
	}
	if modeFld == nil || cancFld == nil || off == nil {
		c.fatalf("anchor: soyjs state autoescape field / PrintDirective cancel flag / ast.AutoescapeOff not found")
		return
	}
	hook := dirAppendHook(c, info)
	fns := jsDirectiveFuncs(c)
	n := 0
	for _, e := range directiveTable(c, "soyjs") {
		if !strings.HasPrefix(cancelClass[e.name], "html:") {
			continue
		}
		key := "soyjs.state.visitPrint escapes-before " + e.name
		if fns[e.name] != "" && fns[e.name] == fns["escapeHtml"] {
			n++
			c.okTrivial("R04r", key, e.pos, "the directive's JavaScript function is the escaper itself")
			continue
		}
		// the runtime function, as shipped in the tree: does it escape by itself?
		if body, ok := jsRuntimeFunc(c, fns[e.name]); !ok {
			c.unk("R04r", key, e.pos, "the runtime function "+fns[e.name]+" is not defined in soyjs/lib/soyutils.js")
			n++
			continue
		} else if strings.Contains(body, "escapeHtml") {
			n++
			c.okTrivial("R04r", key, e.pos, "the runtime function "+fns[e.name]+" escapes its argument itself")
			continue
		}
		ev := newEvaluator(c, jsPrintHypo{off, e.cancel, modeFld, cancFld, e.name})
		ev.watchLit = "escapeHtml"
		ev.stmtHook = hook
		comps := ev.execBlock(fd.Body.List, state{env: env{}}, info)
		good, bad := 0, 0
		var badPos token.Pos
		for _, cp := range comps {
			if cp.kind == cNoReturn || cp.kind == cSpin {
				continue
			}
			pending := false
			for _, x := range cp.st.tr.list() {
				switch x.name {
				case "lit:escapeHtml":
					pending = true
				case "append-esc-dir":
					good++
					pending = false
				case "append-dir-esc":
					bad++
					badPos = x.pos
				case "append-dir":
					if pending {
						good++
					} else {
						bad++
						badPos = x.pos
					}
					pending = false
				}
			}
		}
		n++
		switch {
		case good+bad == 0:
			c.unk("R04r", key, fd.Pos(), "no evaluated path puts the directive on the call list")
		case bad > 0:
			c.bad("R04r", key, badPos, "the generated call "+fns[e.name]+"(value) is given the raw value: the runtime function does not escape, while the Go directive escapes the value it is given, so {$x|"+e.name+"} prints markup characters of $x raw in JavaScript and as references in Go")
		default:
			c.ok("R04r", key, fd.Pos(), "on every path an escapeHtml call is put on the list immediately before the directive's own: it works on the escaped value, as the Go directive does")
		}
	}
	c.floor("R04r", "HTML-producing directives of the generator's table", 3, n)
}

// jsRuntimeFunc: the text of `name = function(...) { ... };` in the runtime library of the tree.
func jsRuntimeFunc(c *Ctx, name string) (string, bool) {
	src, err := os.ReadFile(filepath.Join(c.Repo, "soyjs", "lib", "soyutils.js"))
	if err != nil || name == "" {
		return "", false
	}
	txt := string(src)
	i := strings.Index(txt, "\n"+name+" = function(")
	if i < 0 {
		return "", false
	}
	j := strings.Index(txt[i:], "\n};")
	if j < 0 {
		return "", false
	}
	return txt[i : i+j], true
}

// dirAppendHook: a statement hook for evaluating visitPrint that records, for every append putting the
// range variable over a print's directive nodes on a list, the event append-dir (or append-esc-dir /
// append-dir-esc when the same call also appends an escapeHtml node before / after it).
func dirAppendHook(c *Ctx, info *types.Info) func(s ast.Stmt, st state, info *types.Info) *event {
	// range variables over a print's directive nodes
	dirVars := map[types.Object]bool{}
	for _, hd := range c.allFuncDecls("soyjs") {
		ast.Inspect(hd.Body, func(x ast.Node) bool {
			if rs, ok := x.(*ast.RangeStmt); ok && rs.Value != nil {
				if id, ok := rs.Value.(*ast.Ident); ok && info.Defs[id] != nil {
					if _, tn, ok := relPkgOfType(info.Defs[id].Type()); ok && tn == "PrintDirectiveNode" {
						dirVars[info.Defs[id]] = true
					}
				}
			}
			return true
		})
	}
	hasEscLit := func(e ast.Expr) bool {
		found := false
		ast.Inspect(e, func(y ast.Node) bool {
			if ex, ok := y.(ast.Expr); ok {
				if tv, ok := info.Types[ex]; ok && tv.Value != nil && tv.Value.Kind() == constant.String && constant.StringVal(tv.Value) == "escapeHtml" {
					found = true
				}
			}
			return true
		})
		return found
	}
	hook := func(s ast.Stmt, st state, info *types.Info) *event {
		var out *event
		switch s.(type) {
		case *ast.AssignStmt, *ast.ExprStmt:
		default:
			return nil
		}
		ast.Inspect(s, func(x ast.Node) bool {
			call, ok := x.(*ast.CallExpr)
			if !ok {
				return true
			}
			id, ok := call.Fun.(*ast.Ident)
			if !ok || id.Name != "append" || len(call.Args) < 2 {
				return true
			}
			dirAt, escAt := -1, -1
			for i, a := range call.Args[1:] {
				if aid, ok := ast.Unparen(a).(*ast.Ident); ok && dirVars[info.Uses[aid]] {
					dirAt = i
				} else if hasEscLit(a) && escAt < 0 {
					escAt = i
				}
			}
			switch {
			case dirAt < 0:
			case escAt >= 0 && escAt < dirAt:
				out = &event{name: "append-esc-dir", pos: call.Pos()}
			case escAt >= 0:
				out = &event{name: "append-dir-esc", pos: call.Pos()}
			default:
				out = &event{name: "append-dir", pos: call.Pos()}
			}
			return true
		})
		return out
	}
	return hook
}
