package main

import (
	"fmt"
	"go/ast"
	"go/constant"
	"go/token"
	"go/types"
	"regexp"
	"strings"
)

// R11a: every kind of message part is rendered by both backends.
func ruleR11a(c *Ctx) {
	sm := c.pkg("soymsg")
	if sm == nil {
		return
	}
	// part kinds: the struct types placed into []Part values anywhere in the module
	partObj := sm.Types.Scope().Lookup("Part")
	if partObj == nil {
		c.fatalf("anchor: soymsg.Part not found")
		return
	}
	kinds := map[string]bool{}
	for rel, p := range c.Pkgs {
		for _, fd := range c.allFuncDecls(rel) {
			ast.Inspect(fd.Body, func(x ast.Node) bool {
				cl, ok := x.(*ast.CompositeLit)
				if !ok {
					return true
				}
				tv, ok := p.TypesInfo.Types[cl]
				if !ok {
					return true
				}
				if r, tn, ok := relPkgOfType(tv.Type); ok && r == "soymsg" && strings.HasSuffix(tn, "Part") {
					if _, isStruct := tv.Type.Underlying().(*types.Struct); isStruct {
						kinds[tn] = true
					}
				}
				return true
			})
		}
	}
	for _, rel := range []string{"soyhtml", "soyjs"} {
		fd := c.mustFunc(rel, "state.evalMsgParts")
		if fd == nil {
			continue
		}
		c.seen(rel + ".state.evalMsgParts")
		info := c.Pkgs[rel].TypesInfo
		handled := map[string]*ast.CaseClause{}
		ast.Inspect(fd.Body, func(x ast.Node) bool {
			if cc, ok := x.(*ast.CaseClause); ok {
				for _, e := range cc.List {
					if tv, ok := info.Types[e]; ok && tv.IsType() {
						if r, tn, ok := relPkgOfType(tv.Type); ok && r == "soymsg" {
							handled[tn] = cc
						}
					}
				}
			}
			return true
		})
		for _, k := range sortedKeys(kinds) {
			key := rel + ".evalMsgParts " + k
			cc := handled[k]
			switch {
			case cc == nil:
				c.bad("R11a", key, fd.Pos(), "a translated message containing a "+k+" is rendered without it: this backend's part switch has no case for it")
			case len(cc.Body) == 0 || isJump(cc.Body[0]):
				c.bad("R11a", key, cc.Pos(), "the case for "+k+" does nothing (empty, or leaves at once): the part is silently dropped from translated messages")
			default:
				c.ok("R11a", key, cc.Pos(), "rendered by a non-empty case")
			}
		}
	}
	c.floor("R11a", "message part kinds", 3, len(kinds))
}

var kvPrefix = regexp.MustCompile(`([a-z]+)=`)

// R11b: what the extractor writes is what the catalogue loader reads.
func ruleR11b(c *Ctx) {
	xrel := "soymsg/pomsg/xgettext-soy"
	ex := c.mustFunc(xrel, "extractor.extract")
	nb := c.mustFunc("soymsg/pomsg", "newBundle")
	if ex == nil || nb == nil {
		return
	}
	c.seen("xgettext-soy.extractor.extract")
	c.seen("pomsg.newBundle")
	written := map[string]bool{}
	xinfo := c.Pkgs[xrel].TypesInfo
	exScope := &ast.BlockStmt{} // extract, or the function it builds the entry in (poMessage)
	for _, hd := range c.withHelpers(xrel, ex, 2) {
		exScope.List = append(exScope.List, hd.Body)
	}
	ast.Inspect(exScope, func(x ast.Node) bool {
		if e, ok := x.(ast.Expr); ok {
			if v := xinfo.Types[e].Value; v != nil && v.Kind() == constant.String {
				for _, m := range kvPrefix.FindAllStringSubmatch(constant.StringVal(v), -1) {
					written[m[1]] = true
				}
			}
		}
		return true
	})
	read := map[string]bool{}
	pinfo := c.Pkgs["soymsg/pomsg"].TypesInfo
	nbScope := &ast.BlockStmt{}
	for _, hd := range c.withHelpers("soymsg/pomsg", nb, 2) {
		nbScope.List = append(nbScope.List, hd.Body)
	}
	ast.Inspect(nbScope, func(x ast.Node) bool {
		call, ok := x.(*ast.CallExpr)
		if !ok {
			return true
		}
		if cal := calleeFunc(call, pinfo); cal != nil && cal.Name() == "HasPrefix" && len(call.Args) == 2 {
			if v := pinfo.Types[call.Args[1]].Value; v != nil {
				for _, m := range kvPrefix.FindAllStringSubmatch(constant.StringVal(v), -1) {
					read[m[1]] = true
				}
			}
		}
		return true
	})
	all := map[string]bool{}
	for k := range written {
		all[k] = true
	}
	for k := range read {
		all[k] = true
	}
	for _, k := range sortedKeys(all) {
		c.check(written[k] && read[k], "R11b", "reference-key "+k+"=", nb.Pos(),
			"written by the extractor and read by the catalogue loader",
			fmt.Sprintf("reference key %s= written by extractor=%v, read by loader=%v: translations are not matched back to their message", k, written[k], read[k]))
	}
	c.floor("R11b", "reference keys", 2, len(all))
	// length of the prefix skipped equals the prefix tested (ref[3:] after "id=")
	ast.Inspect(nbScope, func(x ast.Node) bool {
		cc, ok := x.(*ast.CaseClause)
		if !ok || len(cc.List) != 1 {
			return true
		}
		call, ok := cc.List[0].(*ast.CallExpr)
		if !ok || len(call.Args) != 2 {
			return true
		}
		v := pinfo.Types[call.Args[1]].Value
		if v == nil {
			return true
		}
		prefix := constant.StringVal(v)
		ast.Inspect(cc, func(y ast.Node) bool {
			se, ok := y.(*ast.SliceExpr)
			if !ok || se.Low == nil || se.High != nil {
				return true
			}
			lv := pinfo.Types[se.Low].Value
			if lv == nil {
				return true
			}
			n, _ := constant.Int64Val(lv)
			c.check(int(n) == len(prefix), "R11b", "loader skips "+prefix, se.Pos(), "the value is read after exactly the tested prefix", fmt.Sprintf("after testing prefix %q the loader skips %d characters", prefix, n))
			return true
		})
		return true
	})
	// placeholder syntax: writer braces vs reader pattern
	wp := c.mustFunc("soymsg/pomsg", "writeph")
	re := c.mustVarInit("soymsg", "phRegex")
	if wp != nil && re != nil {
		var lits []string
		ast.Inspect(wp.Body, func(x ast.Node) bool {
			if e, ok := x.(ast.Expr); ok {
				if v := pinfo.Types[e].Value; v != nil && v.Kind() == constant.String {
					lits = append(lits, constant.StringVal(v))
				}
			}
			return true
		})
		pat := ""
		sinfo := c.Pkgs["soymsg"].TypesInfo
		ast.Inspect(re, func(x ast.Node) bool {
			if e, ok := x.(ast.Expr); ok {
				if v := sinfo.Types[e].Value; v != nil && v.Kind() == constant.String {
					pat = constant.StringVal(v)
				}
			}
			return true
		})
		open, close := false, false
		for _, l := range lits {
			open = open || l == "{"
			close = close || l == "}"
		}
		c.check(open && close && strings.HasPrefix(pat, "{") && strings.HasSuffix(pat, "}"), "R11b", "placeholder-syntax braces", wp.Pos(),
			"the msgid writer brackets placeholder names with { } and the part reader's pattern is delimited by { }",
			fmt.Sprintf("msgid writer literals %v vs reader pattern %q: placeholders written are not recognised when read back", lits, pat))
	}
}

// fieldComparedIn reports whether fn compares (==) a selector .field of the given ast type.
func fieldComparedIn(fd *ast.FuncDecl, info *types.Info, typeName, field string) bool {
	found := false
	ast.Inspect(fd.Body, func(x ast.Node) bool {
		be, ok := x.(*ast.BinaryExpr)
		if !ok || be.Op != token.EQL {
			return true
		}
		for _, side := range []ast.Expr{be.X, be.Y} {
			if se, ok := ast.Unparen(side).(*ast.SelectorExpr); ok && se.Sel.Name == field {
				if tv, ok := info.Types[se.X]; ok {
					if _, tn, ok := relPkgOfType(tv.Type); ok && tn == typeName {
						found = true
					}
				}
			}
		}
		return true
	})
	return found
}

// R11c: placeholders and plural variables are looked up by the fields the naming pass assigns.
func ruleR11c(c *Ctx) {
	ph := c.mustFunc("ast", "MsgNode.Placeholder")
	if ph != nil {
		c.check(fieldComparedIn(ph, c.Pkgs["ast"].TypesInfo, "MsgPlaceholderNode", "Name"), "R11c", "ast.MsgNode.Placeholder#by-Name", ph.Pos(),
			"placeholders are found by MsgPlaceholderNode.Name, the field the naming pass assigns", "Placeholder() does not compare MsgPlaceholderNode.Name")
	}
	for _, rel := range []string{"soyhtml", "soyjs"} {
		fd := c.mustFunc(rel, "state.findPluralNode")
		if fd != nil {
			c.check(fieldComparedIn(fd, c.Pkgs[rel].TypesInfo, "MsgPluralNode", "VarName"), "R11c", rel+".findPluralNode#by-VarName", fd.Pos(),
				"plural nodes are found by MsgPluralNode.VarName", "findPluralNode does not compare MsgPluralNode.VarName")
		}
	}
	// the fingerprint / msgid writers print those same fields
	for _, w := range []struct{ rel, fn string }{{"soymsg", "writeFingerprint"}, {"soymsg/pomsg", "writeph"}} {
		fd := c.mustFunc(w.rel, w.fn)
		if fd == nil {
			continue
		}
		info := c.Pkgs[w.rel].TypesInfo
		usesName := false
		ast.Inspect(fd.Body, func(x ast.Node) bool {
			if se, ok := x.(*ast.SelectorExpr); ok && se.Sel.Name == "Name" {
				if tv, ok := info.Types[se.X]; ok {
					if _, tn, ok := relPkgOfType(tv.Type); ok && tn == "MsgPlaceholderNode" {
						usesName = true
					}
				}
			}
			return true
		})
		c.check(usesName, "R11c", w.rel+"."+w.fn+"#prints-Name", fd.Pos(), "writes placeholders by MsgPlaceholderNode.Name", w.fn+" does not write MsgPlaceholderNode.Name")
	}
}

func isJump(s ast.Stmt) bool {
	switch s := s.(type) {
	case *ast.BranchStmt:
		return s.Tok == token.CONTINUE || s.Tok == token.BREAK
	case *ast.ReturnStmt:
		return true
	}
	return false
}

// R11d: the catalogue loader's per-entry variables live inside the loop over the entries, so nothing
// carries over from one entry to the next. R11e: translated text is written like source raw text (never
// through the HTML escaper, which the JavaScript backend does not apply either).
func ruleR11d(c *Ctx) {
	nb := c.mustFunc("soymsg/pomsg", "newBundle")
	p := c.pkg("soymsg/pomsg")
	if nb == nil || p == nil {
		return
	}
	info := p.TypesInfo
	// the loop over the file's messages
	var loop *ast.RangeStmt
	ast.Inspect(nb.Body, func(x ast.Node) bool {
		if rs, ok := x.(*ast.RangeStmt); ok && loop == nil && strings.HasSuffix(exprKey(rs.X), ".Messages") {
			loop = rs
		}
		return true
	})
	if loop == nil {
		c.fatalf("anchor: loop over the catalogue's messages not found in newBundle")
		return
	}
	// variables assigned inside the loop only under a condition (switch/if), read later in the iteration
	n := 0
	// the loop body and the helpers it calls for each entry (their locals and results are fresh per call)
	bodies := c.nodeWithHelpers("soymsg/pomsg", loop.Body, 2)
	lscope := &ast.BlockStmt{}
	for _, b := range bodies {
		if bs, ok := b.(*ast.BlockStmt); ok {
			lscope.List = append(lscope.List, bs)
		}
	}
	inHelper := func(obj types.Object) bool {
		for _, b := range bodies[1:] {
			for _, hd := range c.allFuncDecls("soymsg/pomsg") {
				if ast.Node(hd.Body) == b && obj.Pos() >= hd.Pos() && obj.Pos() <= hd.End() {
					return true
				}
			}
		}
		return false
	}
	ast.Inspect(lscope, func(x ast.Node) bool {
		cc, ok := x.(*ast.CaseClause)
		if !ok {
			return true
		}
		for _, s := range cc.Body {
			as, ok := s.(*ast.AssignStmt)
			if !ok {
				continue
			}
			for _, l := range as.Lhs {
				id, ok := l.(*ast.Ident)
				if !ok || id.Name == "_" || id.Name == "err" {
					continue
				}
				obj := info.Uses[id]
				if obj == nil {
					continue
				}
				n++
				inside := declaredWithin(obj, loop.Body) || inHelper(obj)
				c.check(inside, "R11d", "pomsg.newBundle per-entry "+id.Name, as.Pos(), "declared inside the loop: fresh for every catalogue entry",
					id.Name+" is declared outside the loop over the catalogue entries and only assigned when an entry has the reference: its value leaks from one entry into the following ones (a plain message is then loaded as a plural of the previous entry's variable)")
			}
		}
		return true
	})
	c.floor("R11d", "conditionally assigned per-entry variables", 2, n)
	// R11e
	escFd, _ := findEscaper(c)
	mp := c.mustFunc("soyhtml", "state.evalMsgParts")
	if escFd == nil || mp == nil {
		return
	}
	hinfo := c.Pkgs["soyhtml"].TypesInfo
	esc := hinfo.Defs[escFd.Name]
	ast.Inspect(mp.Body, func(x ast.Node) bool {
		cc, ok := x.(*ast.CaseClause)
		if !ok || len(cc.List) != 1 {
			return true
		}
		tv, ok := hinfo.Types[cc.List[0]]
		if !ok {
			return true
		}
		if _, tn, ok := relPkgOfType(tv.Type); !ok || tn != "RawTextPart" {
			return true
		}
		escaped := false
		ast.Inspect(cc, func(y ast.Node) bool {
			if call, ok := y.(*ast.CallExpr); ok && calleeFunc(call, hinfo) == esc {
				escaped = true
			}
			return true
		})
		c.check(!escaped, "R11e", "soyhtml.evalMsgParts RawTextPart written raw", cc.Pos(), "translated text is written as it stands, like the template's own raw text",
			"translated text is passed through the HTML escaper in the Go renderer only: the identity translation no longer renders like the source text, and Go and JavaScript disagree")
		return true
	})
}

// R11f: the node rendered for a placeholder of a translated message is looked up in the message being
// rendered, every time: the value walked for a PlaceholderPart is the direct result of
// (*ast.MsgNode).Placeholder on the function's own message parameter with the part's name. A node taken
// from a table kept across messages (keyed by id, by name, ...) belongs to whichever message filled it.
func ruleR11f(c *Ctx) {
	n := 0
	for _, rel := range []string{"soyhtml", "soyjs"} {
		p := c.pkg(rel)
		if p == nil {
			continue
		}
		info := p.TypesInfo
		for _, fd := range c.allFuncDecls(rel) {
			msgParams := map[types.Object]bool{}
			for _, fl := range fd.Type.Params.List {
				for _, nm := range fl.Names {
					if o := info.Defs[nm]; o != nil {
						if _, tn, ok := relPkgOfType(o.Type()); ok && tn == "MsgNode" {
							msgParams[o] = true
						}
					}
				}
			}
			ast.Inspect(fd.Body, func(x ast.Node) bool {
				cc, ok := x.(*ast.CaseClause)
				if !ok || len(cc.List) != 1 {
					return true
				}
				tv, ok := info.Types[cc.List[0]]
				if !ok || !tv.IsType() {
					return true
				}
				if _, tn, ok := relPkgOfType(tv.Type); !ok || tn != "PlaceholderPart" {
					return true
				}
				n++
				key := c.declKey(rel, fd) + " placeholder-node"
				// definitions of *ast.MsgPlaceholderNode-typed variables in the arm
				defs, good := 0, 0
				var why string
				for _, st := range cc.Body {
					ast.Inspect(st, func(y ast.Node) bool {
						var lhs, rhs []ast.Expr
						switch s := y.(type) {
						case *ast.AssignStmt:
							lhs, rhs = s.Lhs, s.Rhs
						case *ast.ValueSpec:
							for _, nm := range s.Names {
								lhs = append(lhs, nm)
							}
							rhs = s.Values
						default:
							return true
						}
						if len(lhs) != len(rhs) {
							return true
						}
						for i, l := range lhs {
							id, ok := l.(*ast.Ident)
							if !ok {
								continue
							}
							o := info.Defs[id]
							if o == nil {
								o = info.Uses[id]
							}
							if o == nil {
								continue
							}
							if _, tn, ok := relPkgOfType(o.Type()); !ok || tn != "MsgPlaceholderNode" {
								continue
							}
							defs++
							call, ok := ast.Unparen(rhs[i]).(*ast.CallExpr)
							if !ok {
								why = exprKey(rhs[i])
								continue
							}
							cal := calleeFunc(call, info)
							se, isSel := call.Fun.(*ast.SelectorExpr)
							if cal != nil && cal.Name() == "Placeholder" && isSel {
								if rid, ok := ast.Unparen(se.X).(*ast.Ident); ok && msgParams[info.Uses[rid]] {
									if rt := cal.Type().(*types.Signature).Recv(); rt != nil {
										if _, tn, ok := relPkgOfType(rt.Type()); ok && tn == "MsgNode" {
											good++
											continue
										}
									}
								}
							}
							why = exprKey(rhs[i])
						}
						return true
					})
				}
				c.check(defs > 0 && good == defs, "R11f", key, cc.Pos(), "the placeholder's node is looked up in the message being rendered",
					"the node rendered for a placeholder comes from "+why+", not directly from the Placeholder look-up on the message being rendered: two messages with the same text (same id, same placeholder names) but different expressions render each other's values")
				return true
			})
		}
	}
	c.floor("R11f", "PlaceholderPart arms in the two backends", 2, n)
}

// R11g: plural forms are selected by the catalogue's own rule applied to the number itself. The selector
// stored in the bundle is the one read from the PO file (or the library's default for the language), not
// something derived from it, and PluralCase hands its argument to it unchanged. (Plural rules are not
// periodic in general: "n != 1" differs at 101.)
func ruleR11g(c *Ctx) {
	p := c.pkg("soymsg/pomsg")
	if p == nil {
		return
	}
	info := p.TypesInfo
	nb := c.mustFunc("soymsg/pomsg", "newBundle")
	pc := c.mustFunc("soymsg/pomsg", "bundle.PluralCase")
	if nb == nil || pc == nil {
		return
	}
	// (1) the selector element of the bundle literal
	n := 0
	ast.Inspect(nb.Body, func(x ast.Node) bool {
		cl, ok := x.(*ast.CompositeLit)
		if !ok {
			return true
		}
		tv, ok := info.Types[cl]
		if !ok {
			return true
		}
		if _, tn, ok := relPkgOfType(tv.Type); !ok || tn != "bundle" {
			return true
		}
		for _, el := range cl.Elts {
			v := el
			if kv, ok := el.(*ast.KeyValueExpr); ok {
				v = kv.Value
			}
			etv, ok := info.Types[v]
			if !ok {
				continue
			}
			if _, isFunc := etv.Type.Underlying().(*types.Signature); !isFunc {
				continue
			}
			n++
			id, isID := ast.Unparen(v).(*ast.Ident)
			good := isID
			why := exprKey(v)
			if isID {
				obj := info.Uses[id]
				ast.Inspect(nb.Body, func(y ast.Node) bool {
					var lhs, rhs []ast.Expr
					switch s := y.(type) {
					case *ast.AssignStmt:
						lhs, rhs = s.Lhs, s.Rhs
					case *ast.ValueSpec:
						for _, nm := range s.Names {
							lhs = append(lhs, nm)
						}
						rhs = s.Values
					default:
						return true
					}
					if len(lhs) != len(rhs) {
						return true
					}
					for i, l := range lhs {
						li, ok := l.(*ast.Ident)
						if !ok || (info.Defs[li] != obj && info.Uses[li] != obj) {
							continue
						}
						r := ast.Unparen(rhs[i])
						switch e := r.(type) {
						case *ast.SelectorExpr: // file.Pluralize
							if fieldOf(e, info) == nil {
								good, why = false, exprKey(r)
							}
						case *ast.CallExpr:
							if cal := calleeFunc(e, info); cal == nil || cal.Pkg() == nil || cal.Pkg() == p.Types {
								good, why = false, exprKey(r)
							}
						default:
							good, why = false, exprKey(r)
						}
					}
					return true
				})
			}
			c.check(good, "R11g", "soymsg/pomsg.newBundle plural-selector", cl.Pos(), "the bundle keeps the catalogue's own plural rule",
				"the bundle's plural selector is "+why+", not the rule read from the catalogue: whatever it derives from the rule (a table, a cache) stands in for it on every number")
		}
		return true
	})
	c.floor("R11g", "plural selectors stored in the bundle", 1, n)
	// (2) PluralCase applies it to its own argument
	var param types.Object
	for _, fl := range pc.Type.Params.List {
		for _, nm := range fl.Names {
			param = info.Defs[nm]
		}
	}
	direct := false
	ast.Inspect(pc.Body, func(x ast.Node) bool {
		if r, ok := x.(*ast.ReturnStmt); ok && len(r.Results) == 1 {
			if call, ok := ast.Unparen(r.Results[0]).(*ast.CallExpr); ok && len(call.Args) == 1 {
				if id, ok := ast.Unparen(call.Args[0]).(*ast.Ident); ok && info.Uses[id] == param && fieldOf(call.Fun, info) != nil {
					direct = true
				}
			}
		}
		return true
	})
	c.check(direct, "R11g", "soymsg/pomsg.bundle.PluralCase applies-rule-to-argument", pc.Pos(), "returns the rule applied to the number itself",
		"PluralCase does not simply return the catalogue's rule applied to its argument")
}

// R11h: a message that is not in the catalogue renders its source text, which does not depend on the
// catalogue: the functions that render the source form (walkMsgBody and the unexported functions it calls,
// such as the plural walker) never read the state's message bundle. (The generated JavaScript's source
// fallback has no bundle to consult at all.)
func ruleR11h(c *Ctx) {
	p := c.pkg("soyhtml")
	fd := c.mustFunc("soyhtml", "state.walkMsgBody")
	if p == nil || fd == nil {
		return
	}
	info := p.TypesInfo
	n := 0
	for _, hd := range c.withHelpers("soyhtml", fd, 1) {
		// only the helpers that render message structure (they take a message node); the generic walker is
		// entered again for the placeholders' own commands and is not part of the source-form path
		if hd != fd {
			takes := false
			for _, fl := range hd.Type.Params.List {
				if tv, ok := info.Types[fl.Type]; ok {
					if _, tn, ok := relPkgOfType(tv.Type); ok && strings.HasPrefix(tn, "Msg") {
						takes = true
					}
				}
			}
			if !takes {
				continue
			}
		}
		n++
		var reads []string
		ast.Inspect(hd.Body, func(x ast.Node) bool {
			if se, ok := x.(*ast.SelectorExpr); ok {
				if fv := fieldOf(se, info); fv != nil {
					if _, tn, ok := relPkgOfType(fv.Type()); ok && tn == "Bundle" {
						reads = append(reads, exprKey(se))
					}
				}
			}
			return true
		})
		c.check(len(reads) == 0, "R11h", c.declKey("soyhtml", hd)+" source-form-ignores-bundle", hd.Pos(), "renders the source form without consulting the catalogue",
			"the source-form rendering reads the message bundle ("+strings.Join(reads, ", ")+"): a message missing from a partial catalogue then no longer falls back to its source text (and differs from the JavaScript fallback)")
	}
	c.floor("R11h", "functions rendering a message's source form", 2, n)
}
