package main

import (
	"fmt"
	"go/ast"
	"go/token"
	"go/types"
)

type lexLife struct {
	info     *types.Info
	acquire  map[*types.Func]bool // functions that start the scanner goroutine and return the lexer
	drain    map[*types.Func]bool // methods that range over the item channel until it is closed
	handlers map[*types.Func]bool // deferred handlers that drain whenever they swallow a panic
	eofConst *types.Const
}

func getLexLife(c *Ctx) *lexLife {
	p := c.pkg("parse")
	if p == nil {
		return nil
	}
	info := p.TypesInfo
	ll := &lexLife{info: info, acquire: map[*types.Func]bool{}, drain: map[*types.Func]bool{}, handlers: map[*types.Func]bool{}}
	if k, ok := p.Types.Scope().Lookup("itemEOF").(*types.Const); ok {
		ll.eofConst = k
	} else {
		c.fatalf("anchor: parse.itemEOF not found")
		return nil
	}
	for _, fd := range c.allFuncDecls("parse") {
		fn := info.Defs[fd.Name].(*types.Func)
		ast.Inspect(fd.Body, func(x ast.Node) bool {
			switch x := x.(type) {
			case *ast.GoStmt:
				ll.acquire[fn] = true
			case *ast.RangeStmt:
				if tv, ok := info.Types[x.X]; ok {
					if _, ok := tv.Type.Underlying().(*types.Chan); ok && len(x.Body.List) == 0 && fd.Recv != nil {
						ll.drain[fn] = true
					}
				}
			}
			return true
		})
	}
	// wrappers: a function that returns the result of an acquiring call hands the scanner on
	for changed := true; changed; {
		changed = false
		for _, fd := range c.allFuncDecls("parse") {
			fn := info.Defs[fd.Name].(*types.Func)
			if ll.acquire[fn] {
				continue
			}
			ast.Inspect(fd.Body, func(x ast.Node) bool {
				if rs, ok := x.(*ast.ReturnStmt); ok && len(rs.Results) == 1 {
					if call, ok := ast.Unparen(rs.Results[0]).(*ast.CallExpr); ok {
						if cal := calleeFunc(call, info); cal != nil && ll.acquire[cal] {
							ll.acquire[fn] = true
							changed = true
						}
					}
				}
				return true
			})
		}
	}
	if len(ll.acquire) == 0 || len(ll.drain) == 0 {
		c.fatalf("anchor: scanner start (go statement) or drain (range over channel) not found in parse: acquire=%d drain=%d", len(ll.acquire), len(ll.drain))
		return nil
	}
	nr := newNoRet(c)
	for h := range recoverHandlers(c, "parse") {
		for _, fd := range c.allFuncDecls("parse") {
			if info.Defs[fd.Name] != h {
				continue
			}
			// from the point where a value was recovered, every normal exit passes a drain call
			drains := handlerRegionPasses(fd, info, nr, func(x ast.Node) bool {
				if call, ok := x.(*ast.CallExpr); ok {
					if cal := calleeFunc(call, info); cal != nil && ll.drain[cal] {
						return true
					}
				}
				return false
			})
			undrained := 2
			if drains {
				undrained = 0
			}
			if undrained <= 1 {
				ll.handlers[h] = true
			}
		}
	}
	return ll
}

// R18a: every function that starts a scanner releases it on every returning path.
func ruleR18a(c *Ctx) {
	ll := getLexLife(c)
	if ll == nil {
		return
	}
	info := ll.info
	nr := newNoRet(c)
	nacq := 0
	for _, fd := range c.allFuncDecls("parse") {
		fn := info.Defs[fd.Name].(*types.Func)
		if ll.acquire[fn] {
			continue // the constructor itself hands the lexer to its caller
		}
		hasAcq := false
		ast.Inspect(fd.Body, func(x ast.Node) bool {
			if call, ok := x.(*ast.CallExpr); ok {
				if cal := calleeFunc(call, info); cal != nil && ll.acquire[cal] {
					hasAcq = true
				}
			}
			return true
		})
		if !hasAcq {
			continue
		}
		nacq++
		c.seen(c.declKey("parse", fd))
		key := c.declKey("parse", fd) + "#scanner-released"
		const uncovered, nohandler, unconsumed = 1, 1, 1
		var problems []string
		var ppos token.Pos
		note := func(p token.Pos, s string) {
			if len(problems) == 0 {
				ppos = p
			}
			for _, x := range problems {
				if x == s {
					return
				}
			}
			problems = append(problems, s)
		}
		res := runFlow(fd.Body, nr.forInfo(info), flowState{}, func(n ast.Node, st flowState, report bool) flowState {
			if d, ok := n.(*ast.DeferStmt); ok {
				if cal := calleeFunc(d.Call, info); cal != nil {
					if ll.drain[cal] {
						st["uncovered"] = 0
					}
					if ll.handlers[cal] {
						st["nohandler"] = 0
					}
				}
				return st
			}
			// any call after acquisition may raise: the raise must be covered
			sawAcquire := false
			ast.Inspect(n, func(x ast.Node) bool {
				if _, ok := x.(*ast.FuncLit); ok {
					return false
				}
				call, ok := x.(*ast.CallExpr)
				if !ok {
					return true
				}
				cal := calleeFunc(call, info)
				if cal != nil && ll.acquire[cal] {
					sawAcquire = true
					return true
				}
				if cal != nil && ll.drain[cal] {
					st["unconsumed"] = 0
					return true
				}
				if report && cal != nil && cal.Pkg() != nil && isSoyPkg(cal.Pkg()) && st["uncovered"] == 1 && st["nohandler"] == 1 {
					note(call.Pos(), "after the scanner is started, "+cal.Name()+" may raise while neither a deferred drain nor a draining recover handler is installed")
				}
				// a call that reads the stream through its final token: a parser method given itemEOF
				if cal != nil && len(call.Args) == 1 {
					if k := constObj(info, call.Args[0]); k != nil && k == ll.eofConst {
						st["unconsumed"] = 0
					}
				}
				return true
			})
			if sawAcquire {
				st["uncovered"], st["nohandler"], st["unconsumed"] = uncovered, nohandler, unconsumed
			}
			return st
		})
		for _, b := range res.exitBlocks() {
			if blockEndsInNoReturn(b, nr.forInfo(info)) {
				continue
			}
			st := res.out[b]
			if st["uncovered"] == 1 && st["unconsumed"] == 1 {
				p := fd.Body.Rbrace
				if len(b.Nodes) > 0 {
					p = b.Nodes[len(b.Nodes)-1].Pos()
				}
				note(p, "a path returns normally with the scanner neither drained (deferred or explicit) nor read through its final token: the goroutine stays blocked on its channel send")
			}
		}
		if len(problems) > 0 {
			c.bad("R18a", key, ppos, fmt.Sprint(problems))
		} else {
			c.ok("R18a", key, fd.Pos(), "every returning path is covered: deferred drain, or draining recover handler plus reading the stream to its end")
		}
	}
	c.floor("R18a", "functions that start a scanner", 3, nacq)
}

// R18b: the scanner stops after its terminal item: every errorf is returned, emit(itemEOF) is followed by return nil.
func ruleR18b(c *Ctx) {
	pf := getParseFacts(c)
	ll := getLexLife(c)
	if pf == nil || ll == nil {
		return
	}
	info := pf.info
	// the scanner's error emitter: a lexer method that sends an item and returns the nil state
	var errorf *types.Func
	for fn, fd := range pf.funcs {
		if fd.Recv == nil {
			continue
		}
		sends, retNil := false, false
		ast.Inspect(fd.Body, func(x ast.Node) bool {
			switch x := x.(type) {
			case *ast.SendStmt:
				sends = true
			case *ast.ReturnStmt:
				if len(x.Results) == 1 {
					if id, ok := x.Results[0].(*ast.Ident); ok && id.Name == "nil" {
						retNil = true
					}
				}
			}
			return true
		})
		if sends && retNil {
			errorf = fn
		}
	}
	if errorf == nil {
		c.fatalf("anchor: the scanner's error emitter (sends an item, returns nil) not found")
		return
	}
	n := 0
	for fn, fd := range pf.funcs {
		_ = fn
		// parent map for return detection
		var stack []ast.Node
		ord := 0
		ast.Inspect(fd.Body, func(x ast.Node) bool {
			if x == nil {
				stack = stack[:len(stack)-1]
				return true
			}
			stack = append(stack, x)
			call, ok := x.(*ast.CallExpr)
			if !ok {
				return true
			}
			cal := calleeFunc(call, info)
			if cal == errorf {
				n++
				ord++
				key := fmt.Sprintf("%s errorf#%d", c.declKey("parse", fd), ord)
				_, isRet := stack[len(stack)-2].(*ast.ReturnStmt)
				c.check(isRet, "R18b", key, call.Pos(), "the error item is the scanner's last: its nil state is returned at once",
					"the scanner goes on after sending an error item: it may block sending further items nobody reads")
			}
			return true
		})
		// emit(itemEOF) followed by return nil
		ast.Inspect(fd.Body, func(x ast.Node) bool {
			var list []ast.Stmt
			switch b := x.(type) {
			case *ast.BlockStmt:
				list = b.List
			case *ast.CaseClause:
				list = b.Body
			default:
				return true
			}
			for i, s := range list {
				es, ok := s.(*ast.ExprStmt)
				if !ok {
					continue
				}
				call, ok := es.X.(*ast.CallExpr)
				if !ok || len(call.Args) != 1 || constObj(info, call.Args[0]) != ll.eofConst {
					continue
				}
				n++
				key := c.declKey("parse", fd) + " emit-eof"
				good := false
				if i+1 < len(list) {
					if rs, ok := list[i+1].(*ast.ReturnStmt); ok && len(rs.Results) == 1 {
						if id, ok := rs.Results[0].(*ast.Ident); ok && id.Name == "nil" {
							good = true
						}
					}
				}
				c.check(good, "R18b", key, call.Pos(), "after emitting EOF the scanner returns the nil state", "the scanner continues after emitting EOF")
			}
			return true
		})
	}
	c.floor("R18b", "scanner terminal-item sites", 15, n)
}
