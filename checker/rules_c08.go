package main

import (
	"fmt"
	"go/token"
	"go/types"
	"strings"

	"golang.org/x/tools/go/ssa"
)

type entrySpec struct{ rel, name string }

var renderEntries = []entrySpec{
	{"soyhtml", "(Renderer).Execute"}, {"soyhtml", "(Tofu).Render"}, {"soyhtml", "EvalExpr"},
	{"soyjs", "Write"}, {"soyjs", "(*Generator).WriteFile"},
}
var compileEntries = []entrySpec{
	{"parse", "SoyFile"}, {"parse", "Expr"}, {"", "(*Bundle).Compile"}, {"", "ParseGlobals"},
}

func (c *Ctx) entryFuncs(specs []entrySpec) []*ssa.Function {
	var out []*ssa.Function
	for _, s := range specs {
		f := c.ssaFunc(s.rel, s.name)
		if f == nil {
			c.fatalf("anchor: entry %s.%s not found", s.rel, s.name)
			continue
		}
		out = append(out, f)
	}
	return out
}

func stripAddr(v ssa.Value) ssa.Value {
	for {
		switch x := v.(type) {
		case *ssa.FieldAddr:
			v = x.X
		case *ssa.IndexAddr:
			v = x.X
		default:
			return v
		}
	}
}

// runEffects evaluates every write site reachable from the entries.
// effectExceptions: one named write site each, with the reason it cannot write shared storage.
var effectExceptions = map[string]string{
	"(*ast.MsgNode).Placeholder append []ast.Node#1": "the destination aliases Body's own slice only for the first dequeued child, and only a non-placeholder parent (a plural node) reaches the append; parse.parseMsg rejects any sibling of a plural, so that slice has len 1 == cap and q[1:] has capacity 0: append always reallocates (confirmed by reading parseMsg/placeholderize; no input reaches a shared write)",
}

func runEffects(c *Ctx, rule string, specs []entrySpec, pkgOnly bool, delegated map[string]string) (nfuncs, nwrites int) {
	entries := c.entryFuncs(specs)
	if len(entries) != len(specs) {
		return
	}
	// VTA in both tiers: the CHA graph resolves every io.Writer call to every Write method of the
	// program (HTTP servers, the extractor's main ...), which made the thorough tier report paths that do
	// not exist; its extra "coverage" was only noise (see DESIGN 10.4).
	cg := c.VTA()
	e := newEffects(c, cg, entries)
	e.pkgOnly = pkgOnly
	fns := e.soyReachable()
	// first bring every provenance to its fixpoint (cycles through recursive calls)
	e.fixpoint(func() {
		for _, f := range fns {
			for _, w := range e.writesOf(f) {
				e.walk(w.base)
			}
		}
	})
	for _, f := range fns {
		c.seen(e.funcKey(f))
		if f.Name() == "init" || strings.HasPrefix(f.Name(), "init#") {
			continue
		}
		for _, w := range e.writesOf(f) {
			nwrites++
			key := fmt.Sprintf("%s %s %s#%d", e.funcKey(f), w.kind, w.target, w.ord)
			pos := w.pos
			if pos == token.NoPos {
				pos = f.Pos()
			}
			status, detail, _ := e.classify(w)
			if status == Violated {
				if why, ok := effectExceptions[fmt.Sprintf("%s %s %s#%d", e.funcKey(f), w.kind, w.target, w.ord)]; ok {
					c.ok(rule, key, pos, "named exception: "+why)
					continue
				}
				if why, ok := delegated[e.funcKey(f)+" "+w.kind]; ok {
					c.ok(rule, key, pos, "not dischargeable locally ("+detail+"); delegated: "+why)
					continue
				}
				c.bad(rule, key, pos, w.kind+" into "+w.target+": "+detail+" [call path: "+strings.Join(e.pathTo(f), " > ")+"]")
				continue
			}
			switch stripAddr(w.base).(type) {
			case *ssa.Alloc, *ssa.MakeMap, *ssa.MakeSlice:
				c.okTrivial(rule, key, pos, detail)
			default:
				c.ok(rule, key, pos, detail)
			}
		}
		// reflection / unsafe writes are outside the analysis: assert there are none
		for _, b := range f.Blocks {
			for _, in := range b.Instrs {
				if ci, ok := in.(ssa.CallInstruction); ok {
					if sc := ci.Common().StaticCallee(); sc != nil && sc.Pkg != nil && sc.Pkg.Pkg.Path() == "reflect" {
						n := sc.Name()
						if strings.HasPrefix(n, "Set") || n == "Copy" || n == "Swapper" {
							c.bad(rule, e.funcKey(f)+" reflect."+n, in.Pos(), "reflection write in code reachable from a render entry; the effect analysis cannot see its target")
						}
					}
				}
				if cv, ok := in.(*ssa.Convert); ok {
					if cv.Type().String() == "unsafe.Pointer" || cv.X.Type().String() == "unsafe.Pointer" {
						c.bad(rule, e.funcKey(f)+" unsafe.Pointer", in.Pos(), "unsafe pointer conversion in code reachable from a render entry")
					}
				}
			}
		}
	}
	return len(fns), nwrites
}

// R08a/R08c: no write reachable from a render / JS-generation entry lands in
// the parse tree, the registry, a message bundle, caller data or package state.
func ruleR08a(c *Ctx) {
	nf, nw := runEffects(c, "R08a", renderEntries, false, map[string]string{
		"(soyhtml.scope).set mapupdate": "R08b proves the top frame of every scope on which set runs is a map allocated by the renderer",
	})
	c.floor("R08a", "soy functions reachable from the render/JS entries", 150, nf)
	c.floor("R08a", "write sites classified", 60, nw)
}

// readOnlyLibraryReceivers: library types whose methods do not change what later calls observe.
var readOnlyLibraryReceivers = []string{"*regexp.Regexp", "*strings.Replacer", "*log.Logger", "reflect.Type", "*reflect.rtype", "time.Time", "*time.Location"}

// R08d: a package-level object of the module is not handed to a library call that may keep state in it
// (pools, caches, once, mutex-guarded memo tables, builders ...).
func ruleR08d(c *Ctx) {
	entries := c.entryFuncs(renderEntries)
	if len(entries) != len(renderEntries) {
		return
	}
	cg := c.VTA()
	e := newEffects(c, cg, entries)
	fns := e.soyReachable()
	n, bad := 0, 0
	for _, f := range fns {
		ord := 0
		for _, b := range f.Blocks {
			for _, in := range b.Instrs {
				ci, ok := in.(ssa.CallInstruction)
				if !ok {
					continue
				}
				com := ci.Common()
				var callee string
				var recv ssa.Value
				if com.IsInvoke() {
					continue // interface calls are resolved through the call graph to module code or caller-supplied objects
				}
				sc := com.StaticCallee()
				if sc == nil || isSoyFunc(sc) || sc.Signature.Recv() == nil || len(com.Args) == 0 {
					continue
				}
				callee = sc.String()
				recv = com.Args[0]
				if _, ok := recv.Type().Underlying().(*types.Pointer); !ok {
					continue
				}
				// receiver rooted at a package variable of the module?
				root := stripAddr(recv)
				var g *ssa.Global
				if gg, ok := root.(*ssa.Global); ok {
					g = gg
				} else if u, ok := root.(*ssa.UnOp); ok {
					if gg, ok := u.X.(*ssa.Global); ok {
						g = gg
					}
				}
				if g == nil || g.Pkg == nil || !isSoyPkg(g.Pkg.Pkg) {
					// ... or a synchronised container (sync.Map, sync.Pool, sync.Once) kept in a field of one of the
					// module's own objects (the Tofu, the registry, a renderer): it is shared by every render that
					// uses the object, and what one render stores there the next one finds
					var fa *ssa.FieldAddr
					switch rv := recv.(type) {
					case *ssa.FieldAddr: // field of type sync.X
						fa = rv
					case *ssa.UnOp: // field of type *sync.X
						if rv.Op == token.MUL {
							fa, _ = rv.X.(*ssa.FieldAddr)
						}
					}
					if fa != nil {
						if rel, tn, isMod := relPkgOfType(fa.X.Type()); isMod {
							elemT := recv.Type().Underlying().(*types.Pointer).Elem().String()
							if elemT == "sync.Map" || elemT == "sync.Pool" || elemT == "sync.Once" {
								n++
								ord++
								bad++
								fieldName := fieldKeyOf(fa.X.Type(), fa.Field)
								c.bad("R08d", fmt.Sprintf("%s calls %s on %s#%d", e.funcKey(f), sc.Name(), fieldName, ord), in.Pos(),
									"the "+elemT+" kept in "+rel+"."+tn+" is used through "+callee+" while rendering: what one render stores there (a cached renderer with its injected data or message bundle, a buffer) is found by every later render that uses the same object")
							}
						}
					}
					continue
				}
				n++
				ord++
				key := fmt.Sprintf("%s calls %s on package variable %s#%d", e.funcKey(f), sc.Name(), g.Name(), ord)
				ro := false
				rt := recv.Type().String()
				for _, t := range readOnlyLibraryReceivers {
					if rt == t {
						ro = true
					}
				}
				if ro {
					c.ok("R08d", key, in.Pos(), "the library type "+rt+" keeps no state that a later render could observe")
				} else {
					bad++
					c.bad("R08d", key, in.Pos(), "the package-level "+g.Name()+" ("+rt+") is used through "+callee+" while rendering: state kept in it (a pool, cache, once or builder) survives the render and can reach later or concurrent renders")
				}
			}
		}
	}
	if n == 0 {
		c.ok("R08d", "render-path#no-stateful-library-object-at-package-level", entries[0].Pos(), "no method of a library type is called on a package variable of the module while rendering")
	}
}
