package main

import (
	"fmt"
	"go/ast"
	"go/token"
	"go/types"
	"strings"

	"golang.org/x/tools/go/ssa"
)

// recoverHandlers: functions of pkg whose body calls recover() and assigns through a pointer parameter.
func recoverHandlers(c *Ctx, rel string) map[*types.Func]bool {
	p := c.pkg(rel)
	out := map[*types.Func]bool{}
	if p == nil {
		return out
	}
	for _, fd := range c.allFuncDecls(rel) {
		callsRecover, storesParam := false, false
		params := map[types.Object]bool{}
		for _, f := range fd.Type.Params.List {
			for _, n := range f.Names {
				params[p.TypesInfo.Defs[n]] = true
			}
		}
		ast.Inspect(fd.Body, func(x ast.Node) bool {
			switch x := x.(type) {
			case *ast.CallExpr:
				if id, ok := x.Fun.(*ast.Ident); ok && id.Name == "recover" {
					if _, ok := p.TypesInfo.Uses[id].(*types.Builtin); ok {
						callsRecover = true
					}
				}
			case *ast.AssignStmt:
				for _, l := range x.Lhs {
					if st, ok := l.(*ast.StarExpr); ok {
						if id, ok := st.X.(*ast.Ident); ok && params[p.TypesInfo.Uses[id]] {
							storesParam = true
						}
					}
				}
			}
			return true
		})
		if callsRecover && storesParam {
			out[p.TypesInfo.Defs[fd.Name].(*types.Func)] = true
		}
	}
	return out
}

// R06a: every exported entry that can reach the tree walker installs the recover first.
func ruleR06a(c *Ctx) {
	c.buildSSA()
	p := c.pkg("soyhtml")
	if p == nil {
		return
	}
	info := p.TypesInfo
	walk := c.ssaFunc("soyhtml", "(*state).walk")
	if walk == nil {
		c.fatalf("anchor: soyhtml.(*state).walk not found")
		return
	}
	handlers := recoverHandlers(c, "soyhtml")
	if len(handlers) == 0 {
		c.fatalf("anchor: no recover handler (recover() + *errp assignment) found in soyhtml")
		return
	}
	// functions that can reach walk (reverse reachability in the call graph)
	cg := c.VTA()
	reaches := map[*ssa.Function]bool{walk: true}
	work := []*ssa.Function{walk}
	for len(work) > 0 {
		f := work[len(work)-1]
		work = work[:len(work)-1]
		if n := cg.Nodes[f]; n != nil {
			for _, e := range n.In {
				g := e.Caller.Func
				if g != nil && !reaches[g] && isSoyFunc(g) {
					reaches[g] = true
					work = append(work, g)
				}
			}
		}
	}
	reachObj := map[types.Object]bool{}
	for f := range reaches {
		if o := f.Object(); o != nil {
			reachObj[o] = true
		}
	}
	nr := newNoRet(c)
	exportedRecv := func(fd *ast.FuncDecl) bool {
		if fd.Recv == nil {
			return true
		}
		return ast.IsExported(recvTypeName(fd.Recv.List[0].Type))
	}
	// protected entries: exported functions that install the handler
	entries := 0
	type cand struct {
		fd *ast.FuncDecl
		fn *types.Func
	}
	var cands []cand
	protected := map[types.Object]bool{}
	for _, fd := range c.allFuncDecls("soyhtml") {
		fn := info.Defs[fd.Name].(*types.Func)
		if !fd.Name.IsExported() || !exportedRecv(fd) || !reachObj[fn] {
			continue
		}
		cands = append(cands, cand{fd, fn})
		ast.Inspect(fd.Body, func(x ast.Node) bool {
			if d, ok := x.(*ast.DeferStmt); ok {
				if cal := calleeFunc(d.Call, info); cal != nil && handlers[cal] {
					protected[fn] = true
				}
			}
			return true
		})
	}
	for _, cd := range cands {
		fd, fn := cd.fd, cd.fn
		c.seen(c.declKey("soyhtml", fd))
		entries++
		key := c.declKey("soyhtml", fd) + "#recover-installed"
		// named error result
		var errRes types.Object
		if fd.Type.Results != nil {
			for _, f := range fd.Type.Results.List {
				for _, n := range f.Names {
					if o := info.Defs[n]; o != nil && isErrorType(o.Type()) {
						errRes = o
					}
				}
			}
		}
		const installed = 1
		bad := ""
		var badPos token.Pos
		runFlow(fd.Body, nr.forInfo(info), flowState{}, func(n ast.Node, st flowState, report bool) flowState {
			if d, ok := n.(*ast.DeferStmt); ok {
				if cal := calleeFunc(d.Call, info); cal != nil && handlers[cal] {
					// the handler must be given the address of the named error result
					okArg := false
					for _, a := range d.Call.Args {
						if u, ok := a.(*ast.UnaryExpr); ok && u.Op == token.AND {
							if id, ok := u.X.(*ast.Ident); ok && errRes != nil && info.Uses[id] == errRes {
								okArg = true
							}
						}
					}
					if okArg {
						st["h"] = installed
					} else if report {
						bad, badPos = "the recover handler is not given the address of the function's named error result", d.Pos()
					}
				}
				return st
			}
			ast.Inspect(n, func(x ast.Node) bool {
				if _, ok := x.(*ast.FuncLit); ok {
					return false
				}
				call, ok := x.(*ast.CallExpr)
				if !ok || !report {
					return true
				}
				cal := calleeFunc(call, info)
				if cal == nil || !reachObj[cal] || protected[cal] {
					return true
				}
				if st["h"] != installed && bad == "" {
					bad, badPos = fmt.Sprintf("calls %s, which can reach the tree walker, before (or without) deferring the recover handler: a raise there escapes to the caller as a Go panic", cal.Name()), call.Pos()
				}
				return true
			})
			return st
		})
		if bad != "" {
			c.bad("R06a", key, badPos, bad)
		} else if protected[fn] {
			c.ok("R06a", key, fd.Pos(), "defers the recover handler with &err (named result) before the first call that can reach walk")
		} else {
			c.ok("R06a", key, fd.Pos(), "reaches walk only through entries that install the handler themselves")
		}
	}
	c.floor("R06a", "exported soyhtml entries reaching walk", 3, entries)
	// the handler assigns *errp on every path on which recover() returned non-nil
	for h := range handlers {
		for _, fd := range c.allFuncDecls("soyhtml") {
			if info.Defs[fd.Name] != h {
				continue
			}
			assigned := handlerAssignsOnAllPaths(c, fd, info, nr)
			c.check(assigned, "R06a", c.declKey("soyhtml", fd)+"#assigns-error", fd.Pos(),
				"every path on which a panic value was recovered assigns *errp",
				"a path through the recover handler swallows the panic without setting the error: the render returns nil")
		}
	}
}

// handlerAssignsOnAllPaths: in a recover handler, each path from the recover() call to the exit
// either passes the `== nil` early-out or assigns through the pointer parameter (or re-panics).
func handlerAssignsOnAllPaths(c *Ctx, fd *ast.FuncDecl, info *types.Info, nr *noRet) bool {
	return handlerRegionPasses(fd, info, nr, func(x ast.Node) bool {
		if as, isAs := x.(*ast.AssignStmt); isAs {
			for _, l := range as.Lhs {
				if _, isStar := l.(*ast.StarExpr); isStar {
					return true
				}
			}
		}
		return false
	})
}

// handlerRegionPasses: from the point where the recovered value is known to be
// non-nil, every path to a normal exit passes a node satisfying pass.
func handlerRegionPasses(fd *ast.FuncDecl, info *types.Info, nr *noRet, pass func(ast.Node) bool) bool {
	g, starts := recoveredRegion(fd.Body, info, nr.forInfo(info))
	if len(starts) == 0 {
		return false
	}
	const need = 1
	for _, st0 := range starts {
		res := runFlowFrom(g, st0, flowState{"e": need}, func(n ast.Node, st flowState, report bool) flowState {
			ast.Inspect(n, func(x ast.Node) bool {
				if x != nil && pass(x) {
					st["e"] = 0
				}
				return true
			})
			return st
		})
		for _, b := range res.exitBlocks() {
			if blockEndsInNoReturn(b, nr.forInfo(info)) {
				continue
			}
			if res.out[b]["e"]&need != 0 {
				return false
			}
		}
	}
	return true
}

var _ = strings.Contains

// deferredRecoverFuncs: functions of the package that call recover() directly in their own body and are the
// callee of a defer statement somewhere in the package — a recover handler written as a function or method
// rather than as a deferred literal, whatever it does with the recovered value (store it, re-raise it).
func deferredRecoverFuncs(c *Ctx, rel string) map[*types.Func]bool {
	p := c.pkg(rel)
	out := map[*types.Func]bool{}
	if p == nil {
		return out
	}
	info := p.TypesInfo
	calls := map[*types.Func]bool{}
	for _, fd := range c.allFuncDecls(rel) {
		direct := false
		ast.Inspect(fd.Body, func(x ast.Node) bool {
			if _, ok := x.(*ast.FuncLit); ok {
				return false
			}
			if call, ok := x.(*ast.CallExpr); ok {
				if id, ok := call.Fun.(*ast.Ident); ok && id.Name == "recover" {
					if _, ok := info.Uses[id].(*types.Builtin); ok {
						direct = true
					}
				}
			}
			return true
		})
		if direct {
			if fn, ok := info.Defs[fd.Name].(*types.Func); ok {
				calls[fn] = true
			}
		}
	}
	for _, fd := range c.allFuncDecls(rel) {
		ast.Inspect(fd.Body, func(x ast.Node) bool {
			if d, ok := x.(*ast.DeferStmt); ok {
				if cal := calleeFunc(d.Call, info); cal != nil && calls[cal] {
					out[cal] = true
				}
			}
			return true
		})
	}
	return out
}
