package main

import (
	"fmt"
	"go/ast"
	"go/token"
	"go/types"
	"os"
	"path/filepath"
	"sort"
	"strings"

	"golang.org/x/tools/go/callgraph"
	"golang.org/x/tools/go/callgraph/cha"
	"golang.org/x/tools/go/callgraph/vta"
	"golang.org/x/tools/go/packages"
	"golang.org/x/tools/go/ssa"
	"golang.org/x/tools/go/ssa/ssautil"
)

const modPath = "github.com/robfig/soy"

// Status of an obligation.
const (
	Discharged = "discharged"
	Violated   = "violated"
	Undecided  = "undecided"
)

// Obligation is one instance of a rule on one construct.
type Obligation struct {
	Rule   string `json:"rule"`
	Key    string `json:"construct"` // rule-relative construct key; never a line number
	Pos    string `json:"pos"`       // file:line, for the reader only
	Status string `json:"status"`
	Detail string `json:"detail"`
	// Trivial obligations are discharged by type/shape alone (no analysis needed).
	Trivial bool `json:"trivial,omitempty"`
}

// Floor is the minimum instance count of a rule confirmed by hand.
type Floor struct {
	Rule     string `json:"rule"`
	What     string `json:"what"`
	Required int    `json:"required"`
	Found    int    `json:"found"`
}

// Ctx carries the loaded program and collects obligations.
type Ctx struct {
	Repo        string
	Prop        string
	Tier        string
	Fset        *token.FileSet
	constTables map[*types.Var]*constTableInfo
	escWrap     map[string]bool              // proven wrappers of the HTML escaper (rules_c03.go)
	Pkgs        map[string]*packages.Package // by import path suffix relative to module ("" = root, "parse", ...)
	All         []*packages.Package
	Prog        *ssa.Program
	SSA         map[string]*ssa.Package
	cgVTA       *callgraph.Graph
	cgCHA       *callgraph.Graph

	Obls       []Obligation
	Floors     []Floor
	Fatal      []string // analysis failures (anchor missing etc.) => exit 2
	RulesRun   []string
	FuncsSeen  map[string]bool
	NotDecided []string
	Assumes    []string
	Explain    []string
}

func (c *Ctx) fatalf(format string, args ...interface{}) {
	c.Fatal = append(c.Fatal, fmt.Sprintf(format, args...))
}

func (c *Ctx) posStr(p token.Pos) string {
	if !p.IsValid() {
		return "-"
	}
	pp := c.Fset.Position(p)
	rel, err := filepath.Rel(c.Repo, pp.Filename)
	if err != nil {
		rel = pp.Filename
	}
	return fmt.Sprintf("%s:%d", rel, pp.Line)
}

func (c *Ctx) add(rule, key string, pos token.Pos, status, detail string) {
	c.Obls = append(c.Obls, Obligation{Rule: rule, Key: key, Pos: c.posStr(pos), Status: status, Detail: detail})
}

func (c *Ctx) ok(rule, key string, pos token.Pos, detail string) {
	c.add(rule, key, pos, Discharged, detail)
}
func (c *Ctx) okTrivial(rule, key string, pos token.Pos, detail string) {
	c.Obls = append(c.Obls, Obligation{Rule: rule, Key: key, Pos: c.posStr(pos), Status: Discharged, Detail: detail, Trivial: true})
}
func (c *Ctx) bad(rule, key string, pos token.Pos, detail string) {
	c.add(rule, key, pos, Violated, detail)
}
func (c *Ctx) unk(rule, key string, pos token.Pos, detail string) {
	c.add(rule, key, pos, Undecided, detail)
}

// check records discharged or violated depending on cond.
func (c *Ctx) check(cond bool, rule, key string, pos token.Pos, okDetail, badDetail string) {
	if cond {
		c.ok(rule, key, pos, okDetail)
	} else {
		c.bad(rule, key, pos, badDetail)
	}
}

func (c *Ctx) floor(rule, what string, required, found int) {
	c.Floors = append(c.Floors, Floor{rule, what, required, found})
}

func (c *Ctx) seen(fn string) {
	if c.FuncsSeen == nil {
		c.FuncsSeen = map[string]bool{}
	}
	c.FuncsSeen[fn] = true
}

// ---------------------------------------------------------------------------
// loading

func load(repo string) (*Ctx, error) {
	c := &Ctx{Repo: repo, Pkgs: map[string]*packages.Package{}, SSA: map[string]*ssa.Package{}}
	// The repository carries no build tags today; a tag appearing later makes the
	// analysis incomplete, so fail until the tag set is added here.
	if err := assertNoBuildTags(repo); err != nil {
		return nil, err
	}
	cfg := &packages.Config{
		Mode:  packages.LoadAllSyntax,
		Dir:   repo,
		Tests: false,
		Env:   append(os.Environ(), "GOFLAGS=-mod=mod", "GOPROXY=off", "GOSUMDB=off", "GOTOOLCHAIN=local", "GOWORK=off"),
	}
	pkgs, err := packages.Load(cfg, "./...")
	if err != nil {
		return nil, fmt.Errorf("packages.Load: %v", err)
	}
	var errs []string
	packages.Visit(pkgs, nil, func(p *packages.Package) {
		if !strings.HasPrefix(p.PkgPath, modPath) {
			return
		}
		for _, e := range p.Errors {
			errs = append(errs, e.Error())
		}
	})
	if len(errs) > 0 {
		return nil, fmt.Errorf("type/load errors in %s: %s", repo, strings.Join(errs, "; "))
	}
	for _, p := range pkgs {
		if !strings.HasPrefix(p.PkgPath, modPath) {
			continue
		}
		rel := strings.TrimPrefix(strings.TrimPrefix(p.PkgPath, modPath), "/")
		c.Pkgs[rel] = p
		c.All = append(c.All, p)
		c.Fset = p.Fset
	}
	if len(c.All) < 13 {
		return nil, fmt.Errorf("only %d soy packages loaded (need >= 13)", len(c.All))
	}
	sort.Slice(c.All, func(i, j int) bool { return c.All[i].PkgPath < c.All[j].PkgPath })
	return c, nil
}

func assertNoBuildTags(repo string) error {
	var found []string
	err := filepath.Walk(repo, func(path string, info os.FileInfo, err error) error {
		if err != nil {
			return err
		}
		if info.IsDir() {
			if info.Name() == ".git" || info.Name() == "testdata" {
				return filepath.SkipDir
			}
			return nil
		}
		if !strings.HasSuffix(path, ".go") || strings.HasSuffix(path, "_test.go") {
			return nil
		}
		b, err := os.ReadFile(path)
		if err != nil {
			return err
		}
		for _, line := range strings.Split(string(b), "\n") {
			t := strings.TrimSpace(line)
			if strings.HasPrefix(t, "package ") {
				break
			}
			if strings.HasPrefix(t, "//go:build") || strings.HasPrefix(t, "// +build") {
				found = append(found, path+": "+t)
			}
		}
		return nil
	})
	if err != nil {
		return err
	}
	if len(found) > 0 {
		return fmt.Errorf("build constraints present; add the tag set to soylint before trusting a verdict: %v", found)
	}
	return nil
}

// buildSSA builds SSA for the whole program (lazily, once).
func (c *Ctx) buildSSA() {
	if c.Prog != nil {
		return
	}
	prog, _ := ssautil.AllPackages(c.All, ssa.InstantiateGenerics)
	prog.Build()
	c.Prog = prog
	for rel, p := range c.Pkgs {
		c.SSA[rel] = prog.Package(p.Types)
	}
}

func (c *Ctx) VTA() *callgraph.Graph {
	c.buildSSA()
	if c.cgVTA == nil {
		c.cgVTA = vta.CallGraph(ssautil.AllFunctions(c.Prog), c.CHA())
		c.cgVTA.DeleteSyntheticNodes()
	}
	return c.cgVTA
}

func (c *Ctx) CHA() *callgraph.Graph {
	c.buildSSA()
	if c.cgCHA == nil {
		c.cgCHA = cha.CallGraph(c.Prog)
	}
	return c.cgCHA
}

// ---------------------------------------------------------------------------
// anchors (AST level)

func (c *Ctx) pkg(rel string) *packages.Package {
	p := c.Pkgs[rel]
	if p == nil {
		c.fatalf("anchor: package %q not loaded", rel)
	}
	return p
}

// funcDecl finds a function or method declaration: name "f" or "(*T).m"/"T.m".
func (c *Ctx) funcDecl(rel, name string) *ast.FuncDecl {
	p := c.Pkgs[rel]
	if p == nil {
		return nil
	}
	recv, fn := "", name
	if i := strings.LastIndex(name, "."); i >= 0 {
		recv, fn = name[:i], name[i+1:]
		recv = strings.Trim(recv, "(*)")
	}
	for _, f := range p.Syntax {
		for _, d := range f.Decls {
			fd, ok := d.(*ast.FuncDecl)
			if !ok || fd.Name.Name != fn {
				continue
			}
			if recv == "" && fd.Recv == nil {
				return fd
			}
			if recv != "" && fd.Recv != nil && len(fd.Recv.List) == 1 && recvTypeName(fd.Recv.List[0].Type) == recv {
				return fd
			}
		}
	}
	return nil
}

func (c *Ctx) mustFunc(rel, name string) *ast.FuncDecl {
	fd := c.funcDecl(rel, name)
	if fd == nil {
		c.fatalf("anchor: function %s.%s not found", rel, name)
	}
	return fd
}

func recvTypeName(e ast.Expr) string {
	switch e := e.(type) {
	case *ast.StarExpr:
		return recvTypeName(e.X)
	case *ast.Ident:
		return e.Name
	case *ast.IndexExpr:
		return recvTypeName(e.X)
	}
	return ""
}

// funcDeclName is the key used for a declaration: pkg.(T).m or pkg.f
func (c *Ctx) declKey(rel string, fd *ast.FuncDecl) string {
	if rel == "" {
		rel = "soy"
	}
	if fd.Recv != nil && len(fd.Recv.List) == 1 {
		return rel + "." + recvTypeName(fd.Recv.List[0].Type) + "." + fd.Name.Name
	}
	return rel + "." + fd.Name.Name
}

// allFuncDecls iterates every function declaration with a body in a package.
func (c *Ctx) allFuncDecls(rel string) []*ast.FuncDecl {
	p := c.Pkgs[rel]
	if p == nil {
		return nil
	}
	var out []*ast.FuncDecl
	for _, f := range p.Syntax {
		for _, d := range f.Decls {
			if fd, ok := d.(*ast.FuncDecl); ok && fd.Body != nil {
				out = append(out, fd)
			}
		}
	}
	sort.Slice(out, func(i, j int) bool { return c.declKey(rel, out[i]) < c.declKey(rel, out[j]) })
	return out
}

// pkgVarInit returns the initialiser expression of a package-level variable.
func (c *Ctx) pkgVarInit(rel, name string) ast.Expr {
	p := c.Pkgs[rel]
	if p == nil {
		return nil
	}
	for _, f := range p.Syntax {
		for _, d := range f.Decls {
			gd, ok := d.(*ast.GenDecl)
			if !ok || gd.Tok != token.VAR {
				continue
			}
			for _, s := range gd.Specs {
				vs := s.(*ast.ValueSpec)
				for i, n := range vs.Names {
					if n.Name == name && i < len(vs.Values) {
						return vs.Values[i]
					}
				}
			}
		}
	}
	return nil
}

func (c *Ctx) mustVarInit(rel, name string) ast.Expr {
	e := c.pkgVarInit(rel, name)
	if e == nil {
		c.fatalf("anchor: package variable %s.%s with initialiser not found", rel, name)
	}
	return e
}

// relOf returns the module-relative path of a types.Package ("" for root), ok=false if foreign.
func relOf(p *types.Package) (string, bool) {
	if p == nil || !strings.HasPrefix(p.Path(), modPath) {
		return "", false
	}
	return strings.TrimPrefix(strings.TrimPrefix(p.Path(), modPath), "/"), true
}

func isSoyPkg(p *types.Package) bool {
	_, ok := relOf(p)
	return ok
}

// constObj resolves an expression to a declared constant object, if any.
func constObj(info *types.Info, e ast.Expr) *types.Const {
	switch e := e.(type) {
	case *ast.Ident:
		if k, ok := info.Uses[e].(*types.Const); ok {
			return k
		}
	case *ast.SelectorExpr:
		if k, ok := info.Uses[e.Sel].(*types.Const); ok {
			return k
		}
	case *ast.ParenExpr:
		return constObj(info, e.X)
	}
	return nil
}

func sortedKeys[V any](m map[string]V) []string {
	var ks []string
	for k := range m {
		ks = append(ks, k)
	}
	sort.Strings(ks)
	return ks
}

// withHelpers returns fd followed by the functions of the same package that fd calls (directly or through
// other such functions, up to depth levels): an extracted helper is part of the function it was extracted
// from, and rules that look for a construct "in f" look in these too. Exported entry points other than fd
// itself are not followed.
func (c *Ctx) withHelpers(rel string, fd *ast.FuncDecl, depth int) []*ast.FuncDecl {
	p := c.Pkgs[rel]
	if p == nil || fd == nil {
		return nil
	}
	info := p.TypesInfo
	byFunc := map[*types.Func]*ast.FuncDecl{}
	for _, d := range c.allFuncDecls(rel) {
		if fn, ok := info.Defs[d.Name].(*types.Func); ok {
			byFunc[fn] = d
		}
	}
	out := []*ast.FuncDecl{fd}
	seen := map[*ast.FuncDecl]bool{fd: true}
	frontier := []*ast.FuncDecl{fd}
	for level := 0; level < depth && len(frontier) > 0; level++ {
		var next []*ast.FuncDecl
		for _, f := range frontier {
			ast.Inspect(f.Body, func(x ast.Node) bool {
				call, ok := x.(*ast.CallExpr)
				if !ok {
					return true
				}
				var fn *types.Func
				switch fun := ast.Unparen(call.Fun).(type) {
				case *ast.Ident:
					fn, _ = info.Uses[fun].(*types.Func)
				case *ast.SelectorExpr:
					fn, _ = info.Uses[fun.Sel].(*types.Func)
				}
				if d := byFunc[fn]; d != nil && !seen[d] && !d.Name.IsExported() {
					seen[d] = true
					out = append(out, d)
					next = append(next, d)
				}
				return true
			})
		}
		frontier = next
	}
	return out
}

// nodeWithHelpers is withHelpers for a piece of a function (an arm of a switch, a statement): the node itself
// followed by the bodies of the unexported functions of the package it calls, to the given depth.
func (c *Ctx) nodeWithHelpers(rel string, n ast.Node, depth int) []ast.Node {
	p := c.Pkgs[rel]
	if p == nil || n == nil {
		return nil
	}
	info := p.TypesInfo
	byFunc := map[*types.Func]*ast.FuncDecl{}
	for _, d := range c.allFuncDecls(rel) {
		if fn, ok := info.Defs[d.Name].(*types.Func); ok {
			byFunc[fn] = d
		}
	}
	out := []ast.Node{n}
	seen := map[*ast.FuncDecl]bool{}
	frontier := []ast.Node{n}
	for level := 0; level < depth && len(frontier) > 0; level++ {
		var next []ast.Node
		for _, f := range frontier {
			ast.Inspect(f, func(x ast.Node) bool {
				call, ok := x.(*ast.CallExpr)
				if !ok {
					return true
				}
				var fn *types.Func
				switch fun := ast.Unparen(call.Fun).(type) {
				case *ast.Ident:
					fn, _ = info.Uses[fun].(*types.Func)
				case *ast.SelectorExpr:
					fn, _ = info.Uses[fun.Sel].(*types.Func)
				}
				if d := byFunc[fn]; d != nil && !seen[d] && !d.Name.IsExported() {
					seen[d] = true
					out = append(out, d.Body)
					next = append(next, d.Body)
				}
				return true
			})
		}
		frontier = next
	}
	return out
}

// armExpansion: the statements of a type-switch arm with a delegating call replaced by the statements of the
// unexported same-package function it calls (one level), and the substitution of that function's parameters
// by the arguments of this call. A statement `h(args)` is expanded when h is unexported, declared in the
// package, and at least one argument mentions the arm's node (so that "in the arm" keeps meaning "what is
// done for this node kind" after a maintainer moves an arm into a method of its own).
type armExpansion struct {
	stmts   []ast.Stmt
	subst   map[types.Object]ast.Expr
	returns bool
}

func (c *Ctx) expandArm(rel string, body []ast.Stmt) armExpansion {
	p := c.Pkgs[rel]
	out := armExpansion{subst: map[types.Object]ast.Expr{}}
	if p == nil {
		out.stmts = body
		return out
	}
	info := p.TypesInfo
	byFunc := map[*types.Func]*ast.FuncDecl{}
	for _, d := range c.allFuncDecls(rel) {
		if fn, ok := info.Defs[d.Name].(*types.Func); ok {
			byFunc[fn] = d
		}
	}
	for _, s := range body {
		if _, ok := s.(*ast.ReturnStmt); ok {
			out.returns = true
		}
		es, ok := s.(*ast.ExprStmt)
		if !ok {
			out.stmts = append(out.stmts, s)
			continue
		}
		call, ok := es.X.(*ast.CallExpr)
		if !ok {
			out.stmts = append(out.stmts, s)
			continue
		}
		hd := byFunc[calleeFunc(call, info)]
		if hd == nil || hd.Name.IsExported() || hd.Body == nil || len(hd.Body.List) < 2 {
			out.stmts = append(out.stmts, s)
			continue
		}
		// a pure dispatcher (the recursive walker itself) is not an arm helper
		recursive := false
		ast.Inspect(hd.Body, func(x ast.Node) bool {
			if _, ok := x.(*ast.TypeSwitchStmt); ok {
				recursive = true
			}
			return true
		})
		mentionsNode := false
		for _, a := range call.Args {
			if tv, ok := info.Types[a]; ok {
				if r, _, ok := relPkgOfType(tv.Type); ok && r == "ast" {
					mentionsNode = true
				}
			}
			if se, ok := ast.Unparen(a).(*ast.SelectorExpr); ok {
				if tv, ok := info.Types[se.X]; ok {
					if r, _, ok := relPkgOfType(tv.Type); ok && r == "ast" {
						mentionsNode = true
					}
				}
			}
		}
		if recursive || !mentionsNode {
			out.stmts = append(out.stmts, s)
			continue
		}
		k := 0
		for _, fl := range hd.Type.Params.List {
			for _, nm := range fl.Names {
				if k < len(call.Args) {
					if o := info.Defs[nm]; o != nil {
						out.subst[o] = call.Args[k]
					}
				}
				k++
			}
		}
		out.stmts = append(out.stmts, hd.Body.List...)
	}
	return out
}

// substArg: e with a helper parameter replaced by the argument it stands for in this arm.
func (x armExpansion) substArg(e ast.Expr, info *types.Info) ast.Expr {
	if id, ok := ast.Unparen(e).(*ast.Ident); ok {
		if a, ok := x.subst[info.Uses[id]]; ok {
			return a
		}
	}
	return e
}
