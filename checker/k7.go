package main

// K7: sanitiser taint on SSA (intraprocedural, flow-insensitive, to a fixpoint).

import (
	"go/token"
	"go/types"

	"golang.org/x/tools/go/ssa"
)

type taintSpec struct {
	source    func(v ssa.Value) bool
	sanitizer func(com *ssa.CallCommon) bool
	// through: optional; calls for which taint does not flow from arguments to the result
	opaque func(com *ssa.CallCommon) bool
}

func calleeName(com *ssa.CallCommon) string {
	if com.IsInvoke() {
		return "(" + com.Value.Type().String() + ")." + com.Method.Name()
	}
	if sc := com.StaticCallee(); sc != nil {
		return sc.String()
	}
	if b, ok := com.Value.(*ssa.Builtin); ok {
		return "builtin." + b.Name()
	}
	return ""
}

func taintFunction(f *ssa.Function, spec taintSpec) map[ssa.Value]bool {
	t := map[ssa.Value]bool{}
	mark := func(v ssa.Value) bool {
		if v == nil || t[v] {
			return false
		}
		t[v] = true
		return true
	}
	anyT := func(vs ...ssa.Value) bool {
		for _, v := range vs {
			if v != nil && t[v] {
				return true
			}
		}
		return false
	}
	for _, p := range f.Params {
		if spec.source(p) {
			t[p] = true
		}
	}
	for _, fv := range f.FreeVars {
		if spec.source(fv) {
			t[fv] = true
		}
	}
	for changed := true; changed; {
		changed = false
		for _, b := range f.Blocks {
			for _, in := range b.Instrs {
				if v, ok := in.(ssa.Value); ok && !t[v] && spec.source(v) {
					t[v] = true
					changed = true
				}
				switch in := in.(type) {
				case *ssa.Phi:
					if anyT(in.Edges...) && mark(in) {
						changed = true
					}
				case *ssa.MakeInterface:
					if anyT(in.X) && mark(in) {
						changed = true
					}
				case *ssa.TypeAssert:
					if anyT(in.X) && mark(in) {
						changed = true
					}
				case *ssa.ChangeType:
					if anyT(in.X) && mark(in) {
						changed = true
					}
				case *ssa.ChangeInterface:
					if anyT(in.X) && mark(in) {
						changed = true
					}
				case *ssa.Convert:
					if anyT(in.X) && mark(in) {
						changed = true
					}
				case *ssa.BinOp:
					switch in.Op {
					case token.ADD:
						if anyT(in.X, in.Y) && mark(in) {
							changed = true
						}
					}
				case *ssa.UnOp:
					if in.Op == token.MUL && anyT(in.X) && mark(in) {
						changed = true
					}
				case *ssa.Slice:
					if anyT(in.X) && mark(in) {
						changed = true
					}
				case *ssa.Index:
					if anyT(in.X) && mark(in) {
						changed = true
					}
				case *ssa.IndexAddr:
					if anyT(in.X) && mark(in) {
						changed = true
					}
				case *ssa.Field:
					if anyT(in.X) && mark(in) {
						changed = true
					}
				case *ssa.FieldAddr:
					if anyT(in.X) && mark(in) {
						changed = true
					}
				case *ssa.Lookup:
					if anyT(in.X) && mark(in) {
						changed = true
					}
				case *ssa.Extract:
					if anyT(in.Tuple) && mark(in) {
						changed = true
					}
				case *ssa.Range:
					if anyT(in.X) && mark(in) {
						changed = true
					}
				case *ssa.Next:
					if anyT(in.Iter) && mark(in) {
						changed = true
					}
				case *ssa.MakeClosure:
					for _, bnd := range in.Bindings {
						if anyT(bnd) && mark(in) {
							changed = true
						}
					}
				case *ssa.Store:
					if anyT(in.Val) {
						// the cell (and what it is part of) now holds tainted data
						base := in.Addr
						for {
							if mark(base) {
								changed = true
							}
							switch a := base.(type) {
							case *ssa.FieldAddr:
								base = a.X
								continue
							case *ssa.IndexAddr:
								base = a.X
								continue
							}
							break
						}
					}
				case *ssa.MapUpdate:
					if anyT(in.Key, in.Value) && mark(in.Map) {
						changed = true
					}
				case ssa.CallInstruction:
					com := in.Common()
					v := in.Value()
					if spec.sanitizer != nil && spec.sanitizer(com) {
						continue
					}
					var ops []ssa.Value
					if com.IsInvoke() {
						ops = append(ops, com.Value)
					} else if _, ok := com.Value.(*ssa.Builtin); !ok {
						if _, ok := com.Value.(*ssa.Function); !ok {
							ops = append(ops, com.Value) // closure value
						}
					}
					ops = append(ops, com.Args...)
					if !anyT(ops...) {
						continue
					}
					if spec.opaque != nil && spec.opaque(com) {
						continue
					}
					if v != nil {
						if tup, ok := v.Type().(*types.Tuple); !ok || tup.Len() > 0 {
							if mark(v) {
								changed = true
							}
						}
					}
					// tainted data written into a receiver/first pointer argument (buffers, builders)
					if sc := com.StaticCallee(); !com.IsInvoke() && sc != nil && !isSoyFunc(sc) && len(com.Args) > 0 && anyT(com.Args[1:]...) {
						if _, ok := com.Args[0].Type().Underlying().(*types.Pointer); ok {
							if mark(com.Args[0]) {
								changed = true
							}
						}
					}
				}
			}
		}
	}
	return t
}
