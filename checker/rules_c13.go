package main

import (
	"go/ast"
	"strings"

	"golang.org/x/tools/go/ssa"
)

// R13a: no observable result of compile / code generation / rendering depends on map order.
func ruleR13a(c *Ctx) {
	c.buildSSA()
	specs := append(append([]entrySpec{}, renderEntries...), compileEntries...)
	entries := c.entryFuncs(specs)
	if len(entries) != len(specs) {
		return
	}
	nf, nl := runMapOrder(c, "R13a", entries, func(rel string, fd *ast.FuncDecl) bool {
		// printing methods are quoted in error texts and identify placeholders
		return fd.Name.Name == "String" && fd.Recv != nil && (rel == "ast" || rel == "data" || rel == "parse")
	})
	c.floor("R13a", "functions examined", 200, nf)
	c.floor("R13a", "ranges over maps classified", 12, nl)
}

// ambient inputs that make a result differ between runs
var ambientCalls = map[string]string{
	"time.Now": "the clock", "time.Since": "the clock", "os.Getenv": "the environment", "os.Environ": "the environment",
	"os.Getpid": "the process id", "os.Hostname": "the host name", "math/rand.Int": "the global random source",
	"math/rand.Intn": "the global random source", "math/rand.Int63n": "the global random source", "math/rand.Int63": "the global random source",
	"math/rand.Float64": "the global random source", "math/rand.Perm": "the global random source", "math/rand.Shuffle": "the global random source",
	"runtime.NumGoroutine": "the scheduler", "runtime.Stack": "the scheduler", "runtime.NumCPU": "the machine",
}

// ambientExceptions: calls that are ambient by the language's definition.
var ambientExceptions = map[string]string{
	"soyhtml.funcRandomInt math/rand.Int63n": "randomInt() is random by specification (excluded by C08/C13's statements about deterministic sources)",
}

// R13b: nothing reachable from compile or code generation reads the clock, the environment or a random source.
func ruleR13b(c *Ctx) {
	c.buildSSA()
	specs := append(append([]entrySpec{}, renderEntries...), compileEntries...)
	entries := c.entryFuncs(specs)
	if len(entries) != len(specs) {
		return
	}
	reach := reachFrom(c.VTA(), entries, false)
	n, found := 0, 0
	for f := range reach {
		if !isSoyFunc(f) || f.Blocks == nil {
			continue
		}
		n++
		fk := strings.ReplaceAll(f.String(), modPath+"/", "")
		for _, b := range f.Blocks {
			for _, in := range b.Instrs {
				ci, ok := in.(ssa.CallInstruction)
				if !ok {
					continue
				}
				sc := ci.Common().StaticCallee()
				if sc == nil || sc.Pkg == nil {
					continue
				}
				name := sc.Pkg.Pkg.Path() + "." + sc.Name()
				what, ok := ambientCalls[name]
				if !ok {
					continue
				}
				found++
				key := fk + " " + name
				if why, ok := ambientExceptions[key]; ok {
					c.ok("R13b", key, in.Pos(), "named exception: "+why)
				} else {
					c.bad("R13b", key, in.Pos(), "reads "+what+": the result of compiling/generating/rendering the same sources then differs between runs")
				}
			}
		}
	}
	if found == 0 {
		c.ok("R13b", "no-ambient-inputs", entries[0].Pos(), "no read of clock, environment or random source in the reachable functions")
	}
	c.floor("R13b", "functions scanned", 200, n)
}
