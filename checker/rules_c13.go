package main

import (
	"go/ast"
	"strings"

	"fmt"
	"go/types"
	"golang.org/x/tools/go/ssa"
	"sort"
)

// R13a: no observable result of compile / code generation / rendering depends on map order.
func ruleR13a(c *Ctx) {
	c.buildSSA()
	specs := append(append([]entrySpec{}, renderEntries...), compileEntries...)
	entries := c.entryFuncs(specs)
	if len(entries) != len(specs) {
		return
	}
	nf, nl := runMapOrder(c, "R13a", entries, func(rel string, fd *ast.FuncDecl) bool {
		// printing methods are quoted in error texts and identify placeholders
		return fd.Name.Name == "String" && fd.Recv != nil && (rel == "ast" || rel == "data" || rel == "parse")
	})
	c.floor("R13a", "functions examined", 200, nf)
	c.floor("R13a", "ranges over maps classified", 12, nl)
}

// ambient inputs that make a result differ between runs
var ambientCalls = map[string]string{
	"time.Now": "the clock", "time.Since": "the clock", "os.Getenv": "the environment", "os.Environ": "the environment",
	"os.Getpid": "the process id", "os.Hostname": "the host name", "math/rand.Int": "the global random source",
	"math/rand.Intn": "the global random source", "math/rand.Int63n": "the global random source", "math/rand.Int63": "the global random source",
	"math/rand.Float64": "the global random source", "math/rand.Perm": "the global random source", "math/rand.Shuffle": "the global random source",
	"runtime.NumGoroutine": "the scheduler", "runtime.Stack": "the scheduler", "runtime.NumCPU": "the machine",
}

// ambientExceptions: calls that are ambient by the language's definition.
var ambientExceptions = map[string]string{
	"soyhtml.funcRandomInt math/rand.Int63n": "randomInt() is random by specification (excluded by C08/C13's statements about deterministic sources)",
}

// R13b: nothing reachable from compile or code generation reads the clock, the environment or a random source.
func ruleR13b(c *Ctx) {
	c.buildSSA()
	specs := append(append([]entrySpec{}, renderEntries...), compileEntries...)
	entries := c.entryFuncs(specs)
	if len(entries) != len(specs) {
		return
	}
	reach := reachFrom(c.VTA(), entries, false)
	n, found := 0, 0
	for f := range reach {
		if !isSoyFunc(f) || f.Blocks == nil {
			continue
		}
		n++
		fk := strings.ReplaceAll(f.String(), modPath+"/", "")
		for _, b := range f.Blocks {
			for _, in := range b.Instrs {
				ci, ok := in.(ssa.CallInstruction)
				if !ok {
					continue
				}
				sc := ci.Common().StaticCallee()
				if sc == nil || sc.Pkg == nil {
					continue
				}
				name := sc.Pkg.Pkg.Path() + "." + sc.Name()
				what, ok := ambientCalls[name]
				if !ok {
					continue
				}
				found++
				key := fk + " " + name
				if why, ok := ambientExceptions[key]; ok {
					c.ok("R13b", key, in.Pos(), "named exception: "+why)
				} else {
					c.bad("R13b", key, in.Pos(), "reads "+what+": the result of compiling/generating/rendering the same sources then differs between runs")
				}
			}
		}
	}
	if found == 0 {
		c.ok("R13b", "no-ambient-inputs", entries[0].Pos(), "no read of clock, environment or random source in the reachable functions")
	}
	c.floor("R13b", "functions scanned", 200, n)
}

// R13f: no message text contains a memory address. fmt prints the elements of a slice, array or map that are
// pointers (to types without a String or Error method) as addresses, which differ from run to run: an error
// built by formatting such a value with %v is a different text for every compilation of the same source.
func ruleR13f(c *Ctx) {
	var rels []string
	for rel := range c.Pkgs {
		rels = append(rels, rel)
	}
	sort.Strings(rels)
	n, nbad := 0, 0
	var addrElem func(t types.Type, depth int) bool
	hasStringer := func(t types.Type) bool {
		for _, m := range []string{"String", "Error", "Format", "GoString"} {
			if obj, _, _ := types.LookupFieldOrMethod(t, true, nil, m); obj != nil {
				if _, ok := obj.(*types.Func); ok {
					return true
				}
			}
		}
		return false
	}
	addrElem = func(t types.Type, depth int) bool {
		if depth > 3 {
			return false
		}
		switch u := t.Underlying().(type) {
		case *types.Slice:
			return elemIsAddr(u.Elem(), hasStringer) || addrElem(u.Elem(), depth+1)
		case *types.Array:
			return elemIsAddr(u.Elem(), hasStringer) || addrElem(u.Elem(), depth+1)
		case *types.Map:
			return elemIsAddr(u.Elem(), hasStringer) || elemIsAddr(u.Key(), hasStringer) || addrElem(u.Elem(), depth+1)
		}
		return false
	}
	for _, rel := range rels {
		p := c.Pkgs[rel]
		info := p.TypesInfo
		for _, fd := range c.allFuncDecls(rel) {
			if strings.HasSuffix(c.Fset.Position(fd.Pos()).Filename, "_test.go") {
				continue
			}
			ast.Inspect(fd.Body, func(x ast.Node) bool {
				call, ok := x.(*ast.CallExpr)
				if !ok {
					return true
				}
				cal := calleeFunc(call, info)
				isFmt := cal != nil && cal.Pkg() != nil && cal.Pkg().Path() == "fmt"
				// the module's own printf-like raisers (errorf(format, args...))
				var sig *types.Signature
				if tv, ok := info.Types[call.Fun]; ok {
					sig, _ = tv.Type.Underlying().(*types.Signature)
				}
				ownPrintf := sig != nil && sig.Variadic() && sig.Params().Len() >= 2 && strings.Contains(strings.ToLower(sig.Params().At(sig.Params().Len()-2).Name()), "format")
				if !isFmt && !ownPrintf {
					return true
				}
				n++
				for _, a := range call.Args {
					tv, ok := info.Types[a]
					if !ok || tv.Type == nil || tv.Value != nil {
						continue
					}
					if hasStringer(tv.Type) {
						continue
					}
					if addrElem(tv.Type, 0) {
						nbad++
						c.bad("R13f", fmt.Sprintf("%s formats %s#%d", c.declKey(rel, fd), exprKey(a), nbad), a.Pos(),
							"the value "+exprKey(a)+" (type "+types.TypeString(tv.Type, func(p *types.Package) string { return p.Name() })+") is formatted into a message: its elements are pointers without a String method, which fmt prints as addresses, so the text differs between runs")
					}
				}
				return true
			})
		}
	}
	c.floor("R13f", "formatting calls examined", 60, n)
}

func elemIsAddr(t types.Type, hasStringer func(types.Type) bool) bool {
	switch t.Underlying().(type) {
	case *types.Pointer, *types.Chan, *types.Signature:
		return !hasStringer(t)
	}
	if b, ok := t.Underlying().(*types.Basic); ok && b.Kind() == types.UnsafePointer {
		return true
	}
	return false
}

// R13g: the bundle builder keeps its own collections. No method of Bundle stores a map or slice it was handed
// by the caller into one of the bundle's fields (b.globals = globals): the bundle later writes into that
// field (merging further globals), which would then write into the caller's map, so a second bundle built
// from the same maps is compiled against different globals than the first.
func ruleR13g(c *Ctx) {
	p := c.pkg("")
	if p == nil {
		return
	}
	info := p.TypesInfo
	nmeth, nbad := 0, 0
	for _, fd := range c.allFuncDecls("") {
		if fd.Recv == nil || recvTypeName(fd.Recv.List[0].Type) != "Bundle" || !fd.Name.IsExported() {
			continue
		}
		nmeth++
		params := map[types.Object]bool{}
		for _, fl := range fd.Type.Params.List {
			for _, nm := range fl.Names {
				if o := info.Defs[nm]; o != nil {
					switch o.Type().Underlying().(type) {
					case *types.Map, *types.Slice:
						params[o] = true
					}
				}
			}
		}
		if len(params) == 0 {
			continue
		}
		ast.Inspect(fd.Body, func(x ast.Node) bool {
			as, ok := x.(*ast.AssignStmt)
			if !ok || len(as.Lhs) != len(as.Rhs) {
				return true
			}
			for i, l := range as.Lhs {
				fv := fieldOf(l, info)
				if fv == nil {
					continue
				}
				if id, ok := ast.Unparen(as.Rhs[i]).(*ast.Ident); ok && params[info.Uses[id]] {
					nbad++
					c.bad("R13g", fmt.Sprintf("%s adopts %s#%d", c.declKey("", fd), id.Name, nbad), as.Pos(),
						"the bundle keeps the caller's "+id.Name+" itself in "+exprKey(l)+" instead of copying its entries: later additions to the bundle are written into the caller's collection, so the next bundle built from it sees them")
				}
			}
			return true
		})
	}
	c.floor("R13g", "exported methods of Bundle examined", 8, nmeth)
}
