package main

// K2: finite-domain abstract evaluation of source predicates and small
// control-flow fragments. Values are constants, structs of values, function
// references or "unknown". Unknown conditions fork. This evaluates source
// text on enumerated constants under a stated hypothesis; it never runs soy.

import (
	"fmt"
	"go/ast"
	"go/constant"
	"go/token"
	"go/types"
	"sort"
	"strconv"
	"strings"
	"unicode"
)

type avKind int

const (
	avUnknown avKind = iota
	avConst
	avStruct
	avFunc // reference to a declared function or a function literal
	avNil
)

type aval struct {
	k      avKind
	c      constant.Value
	fields map[string]aval
	fn     types.Object // declared function
	lit    *ast.FuncLit
}

var unknown = aval{}

func constVal(v constant.Value) aval { return aval{k: avConst, c: v} }
func boolVal(b bool) aval            { return constVal(constant.MakeBool(b)) }

func (a aval) String() string {
	switch a.k {
	case avConst:
		return a.c.ExactString()
	case avStruct:
		var ks []string
		for k := range a.fields {
			ks = append(ks, k)
		}
		sort.Strings(ks)
		var sb strings.Builder
		sb.WriteString("{")
		for _, k := range ks {
			sb.WriteString(k + ":" + a.fields[k].String() + ",")
		}
		sb.WriteString("}")
		return sb.String()
	case avFunc:
		if a.fn != nil {
			return "func:" + a.fn.Name()
		}
		return fmt.Sprintf("funclit@%d", a.lit.Pos())
	case avNil:
		return "nil"
	}
	return "?"
}

func (a aval) isTrue() bool {
	return a.k == avConst && a.c.Kind() == constant.Bool && constant.BoolVal(a.c)
}
func (a aval) isFalse() bool {
	return a.k == avConst && a.c.Kind() == constant.Bool && !constant.BoolVal(a.c)
}

type env map[types.Object]aval

func (e env) clone() env {
	n := make(env, len(e)+2)
	for k, v := range e {
		n[k] = v
	}
	return n
}

func (e env) key() string {
	type kv struct {
		p token.Pos
		s string
	}
	var l []kv
	for o, v := range e {
		if v.k == avUnknown {
			continue
		}
		l = append(l, kv{o.Pos(), o.Name() + "=" + v.String()})
	}
	sort.Slice(l, func(i, j int) bool {
		if l[i].p != l[j].p {
			return l[i].p < l[j].p
		}
		return l[i].s < l[j].s
	})
	var sb strings.Builder
	for _, x := range l {
		sb.WriteString(x.s + ";")
	}
	return sb.String()
}

// event: a call observed on a path (used by rules that need "which emit happened").
type event struct {
	name string // callee name
	call *ast.CallExpr
	args []aval
	pos  token.Pos
}

type trace struct {
	ev   event
	prev *trace
}

func (t *trace) list() []event {
	var out []event
	for ; t != nil; t = t.prev {
		out = append(out, t.ev)
	}
	for i, j := 0, len(out)-1; i < j; i, j = i+1, j-1 {
		out[i], out[j] = out[j], out[i]
	}
	return out
}

type state struct {
	env env
	tr  *trace
}

type ckind int

const (
	cNormal ckind = iota
	cBreak
	cContinue
	cReturn
	cNoReturn
	cFallthrough
	cSpin // a nested reading loop that cannot be shown to exit; path ends here
)

type completion struct {
	kind  ckind
	label string
	vals  []aval
	st    state
}

// hypo customises the evaluator for one rule.
type hypo interface {
	// prim may give the result of a call (a "read primitive" under the hypothesis).
	prim(ev *evaluator, fn *types.Func, call *ast.CallExpr, st state) (aval, bool)
	// expr may override the value of an expression (e.g. l.lastEmit.typ).
	expr(ev *evaluator, e ast.Expr, info *types.Info) (aval, bool)
	// isRead reports whether a call is a read primitive (used to classify loops).
	isRead(fn *types.Func) bool
}

type evaluator struct {
	c          *Ctx
	h          hypo
	decls      map[*types.Func]*ast.FuncDecl
	infos      map[*types.Func]*types.Info
	stack      []*types.Func
	steps      int
	budget     int
	notes      map[string]bool                                     // constructs outside the subset that were met
	watch      map[string]bool                                     // callee names to record as events
	watchSlice bool                                                // a string cut at a bound that folds to a constant is recorded as an event slice-high:<n>
	watchLit   string                                              // a string constant whose evaluation is recorded as an event
	stmtHook   func(s ast.Stmt, st state, info *types.Info) *event // optional: record an event for a statement
	readsIn    map[ast.Node]bool
}

func newEvaluator(c *Ctx, h hypo) *evaluator {
	ev := &evaluator{c: c, h: h, decls: map[*types.Func]*ast.FuncDecl{}, infos: map[*types.Func]*types.Info{},
		budget: 400000, notes: map[string]bool{}, watch: map[string]bool{}, readsIn: map[ast.Node]bool{}}
	for _, p := range c.All {
		for _, f := range p.Syntax {
			for _, d := range f.Decls {
				if fd, ok := d.(*ast.FuncDecl); ok && fd.Body != nil {
					if fn, ok := p.TypesInfo.Defs[fd.Name].(*types.Func); ok {
						ev.decls[fn] = fd
						ev.infos[fn] = p.TypesInfo
					}
				}
			}
		}
	}
	return ev
}

func (ev *evaluator) note(s string) { ev.notes[s] = true }

type eres struct {
	v     aval
	st    state
	noret bool
	spin  bool
}

const maxFork = 96

func dedupe(rs []eres) []eres {
	if len(rs) < 2 {
		return rs
	}
	seen := map[string]bool{}
	var out []eres
	for _, r := range rs {
		k := fmt.Sprintf("%v|%v|%s|%s|%s", r.noret, r.spin, r.v.String(), r.st.env.key(), traceKey(r.st.tr))
		if seen[k] {
			continue
		}
		seen[k] = true
		out = append(out, r)
	}
	return out
}

func (ev *evaluator) calleeOf(call *ast.CallExpr, info *types.Info) *types.Func {
	var id *ast.Ident
	switch f := ast.Unparen(call.Fun).(type) {
	case *ast.Ident:
		id = f
	case *ast.SelectorExpr:
		id = f.Sel
	default:
		return nil
	}
	fn, _ := info.Uses[id].(*types.Func)
	return fn
}

// evalExpr evaluates e in st under info, returning every possible result.
func (ev *evaluator) evalExpr(e ast.Expr, st state, info *types.Info) []eres {
	ev.steps++
	if ev.steps > ev.budget {
		ev.note("budget exhausted")
		return []eres{{v: unknown, st: st}}
	}
	if v, ok := ev.h.expr(ev, e, info); ok {
		return []eres{{v: v, st: st}}
	}
	if tv, ok := info.Types[e]; ok && tv.Value != nil {
		if ev.watchLit != "" && tv.Value.Kind() == constant.String && constant.StringVal(tv.Value) == ev.watchLit {
			st.tr = &trace{ev: event{name: "lit:" + ev.watchLit, pos: e.Pos()}, prev: st.tr}
		}
		return []eres{{v: constVal(tv.Value), st: st}}
	}
	switch e := e.(type) {
	case *ast.ParenExpr:
		return ev.evalExpr(e.X, st, info)
	case *ast.Ident:
		if e.Name == "nil" {
			if _, ok := info.Uses[e].(*types.Nil); ok {
				return []eres{{v: aval{k: avNil}, st: st}}
			}
		}
		obj := info.Uses[e]
		if obj == nil {
			obj = info.Defs[e]
		}
		if fn, ok := obj.(*types.Func); ok {
			return []eres{{v: aval{k: avFunc, fn: fn}, st: st}}
		}
		if obj != nil {
			if v, ok := st.env[obj]; ok {
				return []eres{{v: v, st: st}}
			}
		}
		return []eres{{v: unknown, st: st}}
	case *ast.SelectorExpr:
		if sel, ok := info.Selections[e]; ok && sel.Kind() == types.FieldVal {
			var out []eres
			for _, r := range ev.evalExpr(e.X, st, info) {
				if r.noret || r.spin {
					out = append(out, r)
					continue
				}
				v := unknown
				if r.v.k == avStruct {
					if f, ok := r.v.fields[e.Sel.Name]; ok {
						v = f
					}
				}
				out = append(out, eres{v: v, st: r.st})
			}
			return out
		}
		if fn, ok := info.Uses[e.Sel].(*types.Func); ok {
			return []eres{{v: aval{k: avFunc, fn: fn}, st: st}}
		}
		return []eres{{v: unknown, st: st}}
	case *ast.UnaryExpr:
		var out []eres
		for _, r := range ev.evalExpr(e.X, st, info) {
			if r.noret || r.spin {
				out = append(out, r)
				continue
			}
			v := unknown
			if r.v.k == avConst {
				switch e.Op {
				case token.NOT:
					if r.v.c.Kind() == constant.Bool {
						v = boolVal(!constant.BoolVal(r.v.c))
					}
				case token.SUB, token.ADD, token.XOR:
					if r.v.c.Kind() == constant.Int || r.v.c.Kind() == constant.Float {
						v = constVal(constant.UnaryOp(e.Op, r.v.c, 0))
					}
				}
			}
			out = append(out, eres{v: v, st: r.st})
		}
		return out
	case *ast.BinaryExpr:
		return ev.evalBinary(e, st, info)
	case *ast.CallExpr:
		return ev.evalCall(e, st, info)
	case *ast.FuncLit:
		return []eres{{v: aval{k: avFunc, lit: e}, st: st}}
	case *ast.SliceExpr:
		// a constant string cut at constant bounds is a constant
		if e.Max == nil {
			xs := ev.evalExpr(e.X, st, info)
			if len(xs) == 1 && xs[0].v.k == avConst && xs[0].v.c.Kind() == constant.String {
				str := constant.StringVal(xs[0].v.c)
				lo, hi, ok := 0, len(str), true
				bound := func(b ast.Expr, into *int) {
					if b == nil {
						return
					}
					bs := ev.evalExpr(b, xs[0].st, info)
					if len(bs) == 1 && bs[0].v.k == avConst && bs[0].v.c.Kind() == constant.Int {
						v, _ := constant.Int64Val(bs[0].v.c)
						*into = int(v)
					} else {
						ok = false
					}
				}
				bound(e.Low, &lo)
				bound(e.High, &hi)
				if ok && 0 <= lo && lo <= hi && hi <= len(str) {
					return []eres{{v: constVal(constant.MakeString(str[lo:hi])), st: xs[0].st}}
				}
			}
		}
		if ev.watchSlice && e.High != nil {
			if hs := ev.evalExpr(e.High, st, info); len(hs) == 1 && hs[0].v.k == avConst && hs[0].v.c.Kind() == constant.Int {
				st.tr = &trace{ev: event{name: "slice-high:" + hs[0].v.c.ExactString(), pos: e.Pos()}, prev: st.tr}
			}
		}
		return ev.evalOperandsUnknown(e, st, info)
	case *ast.IndexExpr:
		// a read-only package-level table indexed by a constant: the entry, or the zero value
		if rs, ok := ev.tableLookup(e, st, info); ok {
			for i := range rs {
				if rs[i].v.k == avStruct {
					rs[i].v = rs[i].v.fields["#0"]
				}
			}
			return rs
		}
		return ev.evalOperandsUnknown(e, st, info)
	case *ast.CompositeLit, *ast.StarExpr, *ast.TypeAssertExpr, *ast.KeyValueExpr:
		// value unknown, but nested calls may diverge: evaluate operands in order.
		return ev.evalOperandsUnknown(e, st, info)
	}
	return []eres{{v: unknown, st: st}}
}

// evalOperandsUnknown evaluates the direct sub-expressions for their effects
// (divergence, events) and yields an unknown value.
func (ev *evaluator) evalOperandsUnknown(e ast.Expr, st state, info *types.Info) []eres {
	var subs []ast.Expr
	switch e := e.(type) {
	case *ast.CompositeLit:
		for _, el := range e.Elts {
			if kv, ok := el.(*ast.KeyValueExpr); ok {
				subs = append(subs, kv.Value)
			} else {
				subs = append(subs, el)
			}
		}
	case *ast.IndexExpr:
		subs = []ast.Expr{e.X, e.Index}
	case *ast.SliceExpr:
		subs = []ast.Expr{e.X}
		for _, x := range []ast.Expr{e.Low, e.High, e.Max} {
			if x != nil {
				subs = append(subs, x)
			}
		}
	case *ast.StarExpr:
		subs = []ast.Expr{e.X}
	case *ast.TypeAssertExpr:
		subs = []ast.Expr{e.X}
	case *ast.KeyValueExpr:
		subs = []ast.Expr{e.Value}
	}
	cur := []eres{{v: unknown, st: st}}
	for _, s := range subs {
		var next []eres
		for _, r := range cur {
			if r.noret || r.spin {
				next = append(next, r)
				continue
			}
			for _, r2 := range ev.evalExpr(s, r.st, info) {
				r2.v = unknown
				next = append(next, r2)
			}
		}
		cur = dedupe(next)
	}
	return cur
}

func (ev *evaluator) evalBinary(e *ast.BinaryExpr, st state, info *types.Info) []eres {
	var out []eres
	for _, l := range ev.evalExpr(e.X, st, info) {
		if l.noret || l.spin {
			out = append(out, l)
			continue
		}
		if e.Op == token.LAND || e.Op == token.LOR {
			short := e.Op == token.LOR // value that short-circuits
			if (short && l.v.isTrue()) || (!short && l.v.isFalse()) {
				out = append(out, eres{v: boolVal(short), st: l.st})
				continue
			}
			known := l.v.isTrue() || l.v.isFalse()
			if !known {
				// left may short-circuit: that path has the short value
				out = append(out, eres{v: boolVal(short), st: l.st})
			}
			for _, r := range ev.evalExpr(e.Y, l.st, info) {
				out = append(out, r)
			}
			continue
		}
		for _, r := range ev.evalExpr(e.Y, l.st, info) {
			if r.noret || r.spin {
				out = append(out, r)
				continue
			}
			out = append(out, eres{v: binop(e.Op, l.v, r.v), st: r.st})
		}
	}
	return dedupe(out)
}

func binop(op token.Token, a, b aval) aval {
	// nil comparisons
	if (op == token.EQL || op == token.NEQ) && (a.k == avNil || b.k == avNil) {
		x, y := a, b
		if x.k == avNil {
			x, y = y, x
		}
		switch x.k {
		case avNil:
			return boolVal(op == token.EQL)
		case avFunc, avStruct:
			return boolVal(op == token.NEQ) // nil is represented explicitly: a function or record value is not nil
		}
		return unknown
	}
	if a.k != avConst || b.k != avConst {
		return unknown
	}
	switch op {
	case token.EQL, token.NEQ, token.LSS, token.LEQ, token.GTR, token.GEQ:
		if a.c.Kind() == constant.Bool || b.c.Kind() == constant.Bool {
			if a.c.Kind() != b.c.Kind() || (op != token.EQL && op != token.NEQ) {
				return unknown
			}
		}
		if (a.c.Kind() == constant.String) != (b.c.Kind() == constant.String) {
			return unknown
		}
		return boolVal(constant.Compare(a.c, op, b.c))
	case token.ADD, token.SUB, token.MUL:
		if a.c.Kind() == constant.Int && b.c.Kind() == constant.Int {
			return constVal(constant.BinaryOp(a.c, op, b.c))
		}
		if op == token.ADD && a.c.Kind() == constant.String && b.c.Kind() == constant.String {
			return constVal(constant.BinaryOp(a.c, op, b.c))
		}
	}
	return unknown
}

var noReturnStd = map[string]bool{"os.Exit": true, "log.Fatal": true, "log.Fatalf": true, "log.Fatalln": true, "log.Panic": true, "log.Panicf": true, "runtime.Goexit": true}

func (ev *evaluator) evalCall(call *ast.CallExpr, st state, info *types.Info) []eres {
	// conversion T(x)
	if tv, ok := info.Types[call.Fun]; ok && tv.IsType() {
		if len(call.Args) == 1 {
			return ev.evalExpr(call.Args[0], st, info)
		}
		return []eres{{v: unknown, st: st}}
	}
	// evaluate receiver (for method calls on values) and arguments left to right
	type argset struct {
		recv aval
		args []aval
		st   state
	}
	sets := []argset{{st: st}}
	var dead []eres
	var recvExpr ast.Expr
	if se, ok := ast.Unparen(call.Fun).(*ast.SelectorExpr); ok {
		if sel, ok := info.Selections[se]; ok && sel.Kind() == types.MethodVal {
			recvExpr = se.X
		}
	}
	if recvExpr != nil {
		var next []argset
		for _, s := range sets {
			for _, r := range ev.evalExpr(recvExpr, s.st, info) {
				if r.noret || r.spin {
					dead = append(dead, r)
					continue
				}
				next = append(next, argset{recv: r.v, st: r.st})
			}
		}
		sets = next
	}
	for _, a := range call.Args {
		var next []argset
		for _, s := range sets {
			for _, r := range ev.evalExpr(a, s.st, info) {
				if r.noret || r.spin {
					dead = append(dead, r)
					continue
				}
				n := argset{recv: s.recv, args: append(append([]aval{}, s.args...), r.v), st: r.st}
				next = append(next, n)
			}
		}
		if len(next) > maxFork {
			ev.note("fork cap reached in call arguments")
			next = next[:maxFork]
		}
		sets = next
	}
	out := dead
	for _, s := range sets {
		out = append(out, ev.applyCall(call, s.recv, s.args, s.st, info)...)
	}
	return dedupe(out)
}

func (ev *evaluator) applyCall(call *ast.CallExpr, recv aval, args []aval, st state, info *types.Info) []eres {
	// builtins
	if id, ok := ast.Unparen(call.Fun).(*ast.Ident); ok {
		if b, ok := info.Uses[id].(*types.Builtin); ok {
			switch b.Name() {
			case "panic":
				return []eres{{noret: true, st: st}}
			case "len":
				if len(args) == 1 && args[0].k == avConst && args[0].c.Kind() == constant.String {
					return []eres{{v: constVal(constant.MakeInt64(int64(len(constant.StringVal(args[0].c))))), st: st}}
				}
			}
			return []eres{{v: unknown, st: st}}
		}
	}
	fn := ev.calleeOf(call, info)
	if fn == nil {
		// dynamic call through a function value
		if id, ok := ast.Unparen(call.Fun).(*ast.Ident); ok {
			if obj := info.Uses[id]; obj != nil {
				if v, ok := st.env[obj]; ok && v.k == avFunc && v.lit != nil {
					_ = v // closures are not inlined; treated as returning normally
				}
			}
		}
		return []eres{{v: unknown, st: st}}
	}
	if ev.watch[fn.Name()] {
		st.tr = &trace{ev: event{name: fn.Name(), call: call, args: args, pos: call.Pos()}, prev: st.tr}
	}
	if v, ok := ev.h.prim(ev, fn, call, st); ok {
		return []eres{{v: v, st: st}}
	}
	full := fn.FullName()
	if fn.Pkg() != nil && !isSoyPkg(fn.Pkg()) {
		if noReturnStd[fn.Pkg().Name()+"."+fn.Name()] {
			return []eres{{noret: true, st: st}}
		}
		return []eres{{v: stdCall(full, args), st: st}}
	}
	fd := ev.decls[fn]
	if fd == nil {
		return []eres{{v: unknown, st: st}} // interface method or no body
	}
	for _, f := range ev.stack {
		if f == fn {
			ev.note("recursion cut at " + fn.Name())
			return []eres{{v: unknown, st: st}}
		}
	}
	if len(ev.stack) > 14 {
		ev.note("depth cut at " + fn.Name())
		return []eres{{v: unknown, st: st}}
	}
	finfo := ev.infos[fn]
	// bind parameters in a fresh environment
	cenv := env{}
	if fd.Recv != nil && len(fd.Recv.List) == 1 && len(fd.Recv.List[0].Names) == 1 {
		if o := finfo.Defs[fd.Recv.List[0].Names[0]]; o != nil {
			cenv[o] = recv
		}
	}
	i := 0
	sig := fn.Type().(*types.Signature)
	for _, f := range fd.Type.Params.List {
		for _, n := range f.Names {
			o := finfo.Defs[n]
			if o != nil {
				if sig.Variadic() && i == sig.Params().Len()-1 {
					cenv[o] = unknown
				} else if i < len(args) {
					cenv[o] = args[i]
				}
			}
			i++
		}
	}
	ev.stack = append(ev.stack, fn)
	comps := ev.execBlock(fd.Body.List, state{env: cenv, tr: st.tr}, finfo)
	ev.stack = ev.stack[:len(ev.stack)-1]
	var out []eres
	for _, cp := range comps {
		switch cp.kind {
		case cNoReturn:
			out = append(out, eres{noret: true, st: state{env: st.env, tr: cp.st.tr}})
		case cSpin:
			out = append(out, eres{spin: true, st: state{env: st.env, tr: cp.st.tr}})
		case cReturn:
			v := unknown
			if len(cp.vals) == 1 {
				v = cp.vals[0]
			} else if len(cp.vals) > 1 {
				v = aval{k: avStruct, fields: map[string]aval{}}
				for i, x := range cp.vals {
					v.fields[fmt.Sprintf("#%d", i)] = x
				}
			}
			out = append(out, eres{v: v, st: state{env: st.env, tr: cp.st.tr}})
		default: // fell off the end
			out = append(out, eres{v: unknown, st: state{env: st.env, tr: cp.st.tr}})
		}
	}
	return dedupe(out)
}

// stdCall: the few standard-library predicates the lexer helpers use.
func stdCall(full string, args []aval) aval {
	r := func(i int) (rune, bool) {
		if i < len(args) && args[i].k == avConst && args[i].c.Kind() == constant.Int {
			v, ok := constant.Int64Val(args[i].c)
			return rune(v), ok
		}
		return 0, false
	}
	switch full {
	case "unicode.IsLetter":
		if x, ok := r(0); ok {
			return boolVal(unicode.IsLetter(x))
		}
	case "unicode.IsDigit":
		if x, ok := r(0); ok {
			return boolVal(unicode.IsDigit(x))
		}
	case "unicode.IsSpace":
		if x, ok := r(0); ok {
			return boolVal(unicode.IsSpace(x))
		}
	case "unicode.IsUpper":
		if x, ok := r(0); ok {
			return boolVal(unicode.IsUpper(x))
		}
	case "strings.HasPrefix", "strings.HasSuffix", "strings.Contains":
		if len(args) == 2 && args[0].k == avConst && args[1].k == avConst && args[0].c.Kind() == constant.String && args[1].c.Kind() == constant.String {
			a, b := constant.StringVal(args[0].c), constant.StringVal(args[1].c)
			switch full {
			case "strings.HasPrefix":
				return boolVal(strings.HasPrefix(a, b))
			case "strings.HasSuffix":
				return boolVal(strings.HasSuffix(a, b))
			}
			return boolVal(strings.Contains(a, b))
		}
	case "strconv.ParseInt":
		// a pure function of constant arguments: (value, nil) or (0, a non-nil error)
		if len(args) == 3 && args[0].k == avConst && args[1].k == avConst && args[2].k == avConst && args[0].c.Kind() == constant.String {
			base, _ := constant.Int64Val(args[1].c)
			bits, _ := constant.Int64Val(args[2].c)
			v, err := strconv.ParseInt(constant.StringVal(args[0].c), int(base), int(bits))
			res := aval{k: avStruct, fields: map[string]aval{"#0": constVal(constant.MakeInt64(v)), "#1": {k: avNil}}}
			if err != nil {
				res.fields["#1"] = aval{k: avStruct, fields: map[string]aval{"error": constVal(constant.MakeString(err.Error()))}}
			}
			return res
		}
	case "strconv.ParseFloat":
		if len(args) == 2 && args[0].k == avConst && args[1].k == avConst && args[0].c.Kind() == constant.String {
			bits, _ := constant.Int64Val(args[1].c)
			v, err := strconv.ParseFloat(constant.StringVal(args[0].c), int(bits))
			res := aval{k: avStruct, fields: map[string]aval{"#0": constVal(constant.MakeFloat64(v)), "#1": {k: avNil}}}
			if err != nil {
				res.fields["#1"] = aval{k: avStruct, fields: map[string]aval{"error": constVal(constant.MakeString(err.Error()))}}
			}
			return res
		}
	case "math.IsNaN":
		if len(args) == 1 && args[0].k == avConst && (args[0].c.Kind() == constant.Float || args[0].c.Kind() == constant.Int) {
			return boolVal(false) // no constant is NaN
		}
	case "strings.IndexRune", "strings.ContainsRune":
		if x, ok := r(1); ok {
			if x < 0 || x > unicode.MaxRune {
				// invalid rune: IndexRune returns -1 for every string
				if full == "strings.IndexRune" {
					return constVal(constant.MakeInt64(-1))
				}
				return boolVal(false)
			}
			if args[0].k == avConst && args[0].c.Kind() == constant.String {
				idx := strings.IndexRune(constant.StringVal(args[0].c), x)
				if full == "strings.IndexRune" {
					return constVal(constant.MakeInt64(int64(idx)))
				}
				return boolVal(idx >= 0)
			}
		}
	}
	return unknown
}

// zeroConst: the zero value of a basic type as a constant (unknown otherwise).
func zeroConst(t types.Type) aval {
	if b, ok := t.Underlying().(*types.Basic); ok {
		switch {
		case b.Info()&types.IsString != 0:
			return constVal(constant.MakeString(""))
		case b.Info()&types.IsBoolean != 0:
			return boolVal(false)
		case b.Info()&types.IsInteger != 0:
			return constVal(constant.MakeInt64(0))
		case b.Info()&types.IsFloat != 0:
			return constVal(constant.MakeFloat64(0))
		}
	}
	return unknown
}

// constTable: x names a package-level map variable that is initialised by a composite literal with constant
// keys and that no statement of the module stores into or reassigns. Returns key (exact string) -> value
// (constant, or unknown for a non-constant element) and the element type.
func (c *Ctx) constTable(x ast.Expr, info *types.Info) (map[string]aval, types.Type, bool) {
	var id *ast.Ident
	switch f := ast.Unparen(x).(type) {
	case *ast.Ident:
		id = f
	case *ast.SelectorExpr:
		id = f.Sel
	default:
		return nil, nil, false
	}
	v, ok := info.Uses[id].(*types.Var)
	if !ok || v.IsField() || v.Pkg() == nil || v.Parent() != v.Pkg().Scope() {
		return nil, nil, false
	}
	mt, ok := v.Type().Underlying().(*types.Map)
	if !ok {
		return nil, nil, false
	}
	if c.constTables == nil {
		c.constTables = map[*types.Var]*constTableInfo{}
	}
	if ti, done := c.constTables[v]; done {
		if ti == nil {
			return nil, nil, false
		}
		return ti.m, mt.Elem(), true
	}
	c.constTables[v] = nil
	var lit *ast.CompositeLit
	var litInfo *types.Info
	written := false
	for _, p := range c.Pkgs {
		for _, f := range p.Syntax {
			ast.Inspect(f, func(n ast.Node) bool {
				switch n := n.(type) {
				case *ast.ValueSpec:
					for i, nm := range n.Names {
						if p.TypesInfo.Defs[nm] == v && i < len(n.Values) {
							if cl, ok := ast.Unparen(n.Values[i]).(*ast.CompositeLit); ok {
								lit, litInfo = cl, p.TypesInfo
							}
						}
					}
				case *ast.AssignStmt:
					for _, l := range n.Lhs {
						base := ast.Unparen(l)
						if ix, ok := base.(*ast.IndexExpr); ok {
							base = ast.Unparen(ix.X)
						}
						var bid *ast.Ident
						switch b := base.(type) {
						case *ast.Ident:
							bid = b
						case *ast.SelectorExpr:
							bid = b.Sel
						}
						if bid != nil && p.TypesInfo.Uses[bid] == v {
							written = true
						}
					}
				case *ast.CallExpr:
					if fid, ok := n.Fun.(*ast.Ident); ok && fid.Name == "delete" && len(n.Args) > 0 {
						var bid *ast.Ident
						switch b := ast.Unparen(n.Args[0]).(type) {
						case *ast.Ident:
							bid = b
						case *ast.SelectorExpr:
							bid = b.Sel
						}
						if bid != nil && p.TypesInfo.Uses[bid] == v {
							written = true
						}
					}
				}
				return true
			})
		}
	}
	if lit == nil || written {
		return nil, nil, false
	}
	m := map[string]aval{}
	for _, el := range lit.Elts {
		kv, ok := el.(*ast.KeyValueExpr)
		if !ok {
			return nil, nil, false
		}
		ktv, ok := litInfo.Types[kv.Key]
		if !ok || ktv.Value == nil {
			return nil, nil, false
		}
		val := unknown
		if vtv, ok := litInfo.Types[kv.Value]; ok && vtv.Value != nil {
			val = constVal(vtv.Value)
		}
		m[ktv.Value.ExactString()] = val
	}
	c.constTables[v] = &constTableInfo{m: m}
	return m, mt.Elem(), true
}

type constTableInfo struct{ m map[string]aval }

// tableLookup: e indexes a constant table (constTable); each result is the pair (#0 entry or zero value,
// #1 found), or unknown when the index is not a constant.
func (ev *evaluator) tableLookup(e *ast.IndexExpr, st state, info *types.Info) ([]eres, bool) {
	tbl, elem, ok := ev.c.constTable(e.X, info)
	if !ok {
		return nil, false
	}
	var out []eres
	for _, r := range ev.evalExpr(e.Index, st, info) {
		if r.v.k != avConst {
			out = append(out, eres{v: unknown, st: r.st})
			continue
		}
		v, found := tbl[r.v.c.ExactString()]
		if !found {
			v = zeroConst(elem)
		}
		out = append(out, eres{v: aval{k: avStruct, fields: map[string]aval{"#0": v, "#1": boolVal(found)}}, st: r.st})
	}
	return out, true
}
