package main

import (
	"fmt"
	"go/ast"
	"go/constant"
	"go/token"
	"go/types"
	"strings"
)

// the language's special-character commands
var langSpecialChars = map[string]string{"sp": " ", "nil": "", `\t`: "\t", `\r`: "\r", `\n`: "\n", "lb": "{", "rb": "}"}

// R15a: the special-character commands emit exactly their characters.
func ruleR15a(c *Ctx) {
	pf := getParseFacts(c)
	if pf == nil {
		return
	}
	info := pf.info
	idents := constMapTok(c, "parse", "builtinIdents")
	init := c.mustVarInit("parse", "specialChars")
	if idents == nil || init == nil {
		return
	}
	chars := map[*types.Const]string{}
	if cl, ok := init.(*ast.CompositeLit); ok {
		for _, el := range cl.Elts {
			kv := el.(*ast.KeyValueExpr)
			k := constObj(info, kv.Key)
			v := info.Types[kv.Value].Value
			if k != nil && v != nil {
				chars[k] = constant.StringVal(v)
			}
		}
	}
	for _, cmd := range sortedKeys(langSpecialChars) {
		want := langSpecialChars[cmd]
		key := fmt.Sprintf("special-char {%s}", cmd)
		k := idents[cmd]
		got, ok := chars[k]
		switch {
		case k == nil:
			c.bad("R15a", key, init.Pos(), "the scanner does not recognise the command {"+cmd+"}")
		case !ok:
			c.bad("R15a", key, init.Pos(), "no text is defined for {"+cmd+"}: it emits nothing or fails")
		case got != want:
			c.bad("R15a", key, init.Pos(), fmt.Sprintf("{%s} emits %q, the language defines %q", cmd, got, want))
		default:
			c.ok("R15a", key, init.Pos(), fmt.Sprintf("emits %q", got))
		}
	}
	// every special-character token has its text and is accepted where a tag begins
	lo, hi := pf.itemConsts["itemSpecialChar"], pf.itemConsts["itemCommandEnd"]
	begin := c.mustFunc("parse", "tree.beginTag")
	if lo == nil || hi == nil || begin == nil {
		c.fatalf("anchor: itemSpecialChar / itemCommandEnd / beginTag not found")
		return
	}
	inBegin := map[*types.Const]*ast.CaseClause{}
	ast.Inspect(begin.Body, func(x ast.Node) bool {
		if cc, ok := x.(*ast.CaseClause); ok {
			for _, e := range cc.List {
				if k := constObj(info, e); k != nil {
					inBegin[k] = cc
				}
			}
		}
		return true
	})
	n := 0
	for _, name := range sortedKeys(pf.itemConsts) {
		k := pf.itemConsts[name]
		if !(constant.Compare(k.Val(), token.GTR, lo.Val()) && constant.Compare(k.Val(), token.LSS, hi.Val())) {
			continue
		}
		n++
		_, hasText := chars[k]
		cc := inBegin[k]
		usesTable := false
		if cc != nil {
			ast.Inspect(cc, func(x ast.Node) bool {
				if ix, ok := x.(*ast.IndexExpr); ok && exprKey(ix.X) == "specialChars" {
					usesTable = true
				}
				return true
			})
		}
		c.check(hasText && usesTable, "R15a", "special-char token "+name, init.Pos(), "has a text entry and is turned into that text where a tag begins",
			fmt.Sprintf("token %s: text entry=%v, handled by the special-character clause of beginTag=%v", name, hasText, usesTable))
	}
	c.floor("R15a", "special-character tokens", 7, n)
}

// R15b: literal blocks and special characters bypass the line-joining normaliser; all other template text goes through it.
func ruleR15b(c *Ctx) {
	pf := getParseFacts(c)
	if pf == nil {
		return
	}
	info := pf.info
	var rawtextFn *types.Func
	for fn := range pf.funcs {
		// the package-level normaliser, not a method that happens to share its name
		if fn.Name() == "rawtext" && fn.Type().(*types.Signature).Recv() == nil {
			rawtextFn = fn
		}
	}
	if rawtextFn == nil {
		c.fatalf("anchor: parse.rawtext not found")
		return
	}
	n := 0
	for fn, fd := range pf.funcs {
		_ = fn
		ord := 0
		// enclosing case clause constants, for site classification
		var clauseStack []*ast.CaseClause
		var visit func(x ast.Node) bool
		visit = func(x ast.Node) bool {
			if cc, ok := x.(*ast.CaseClause); ok {
				clauseStack = append(clauseStack, cc)
				for _, s := range cc.Body {
					ast.Inspect(s, visit)
				}
				clauseStack = clauseStack[:len(clauseStack)-1]
				return false
			}
			cl, ok := x.(*ast.CompositeLit)
			if !ok {
				return true
			}
			tv, ok := info.Types[cl]
			if !ok {
				return true
			}
			if _, tn, ok := relPkgOfType(tv.Type); !ok || tn != "RawTextNode" || len(cl.Elts) < 2 {
				return true
			}
			ord++
			n++
			text := cl.Elts[1]
			if kv, ok := text.(*ast.KeyValueExpr); ok {
				text = kv.Value
			}
			text = resolveLocalInit(text, fd.Body, info)
			class := "other"
			src := exprKey(text)
			switch {
			case callsFunc(text, info, rawtextFn):
				class = "normalised"
			case strings.Contains(src, "specialChars["):
				class = "table"
			case strings.Contains(src, ".val"):
				class = "token"
			case strings.Contains(src, "[:") || strings.Contains(src, ":]") || strings.Contains(src, "txt["):
				class = "slice-of-normalised"
			}
			if class == "other" {
				// a variable that only ever holds the text of an already normalised node, or a tail of itself
				base := ast.Unparen(text)
				if se, ok := base.(*ast.SliceExpr); ok {
					base = ast.Unparen(se.X)
				}
				if id, ok := base.(*ast.Ident); ok && info.Uses[id] != nil {
					obj := info.Uses[id]
					all, some := true, false
					okRHS := func(r ast.Expr) bool {
						r = ast.Unparen(r)
						if se, ok := r.(*ast.SliceExpr); ok {
							if rid, ok := ast.Unparen(se.X).(*ast.Ident); ok && info.Uses[rid] == obj {
								return true
							}
							return false
						}
						if se, ok := r.(*ast.SelectorExpr); ok && se.Sel.Name == "Text" {
							if tv, ok := info.Types[se.X]; ok {
								if _, tn, ok := relPkgOfType(tv.Type); ok && tn == "RawTextNode" {
									return true
								}
							}
						}
						return false
					}
					ast.Inspect(fd.Body, func(y ast.Node) bool {
						switch st := y.(type) {
						case *ast.ValueSpec:
							for i, nm := range st.Names {
								if info.Defs[nm] == obj && i < len(st.Values) {
									some = true
									if !okRHS(st.Values[i]) {
										all = false
									}
								}
							}
						case *ast.AssignStmt:
							for i, l := range st.Lhs {
								if li, ok := l.(*ast.Ident); ok && (info.Defs[li] == obj || info.Uses[li] == obj) && i < len(st.Rhs) {
									some = true
									if !okRHS(st.Rhs[i]) {
										all = false
									}
								}
							}
						}
						return true
					})
					if all && some {
						class = "slice-of-normalised"
					}
				}
			}
			site := "text"
			if len(clauseStack) > 0 {
				for _, e := range clauseStack[len(clauseStack)-1].List {
					if k := constObj(info, e); k != nil {
						if k.Name() == "itemLiteral" {
							site = "literal"
						}
						if _, isSpecial := langSpecialTok[k.Name()]; isSpecial {
							site = "special"
						}
					}
				}
			}
			key := fmt.Sprintf("%s RawTextNode#%d", c.declKey("parse", fd), ord)
			switch site {
			case "literal":
				c.check(class == "token", "R15b", key, cl.Pos(), "{literal} text is taken verbatim from the token", "{literal} text is "+class+" ("+src+"): literal blocks must emit exactly their characters")
			case "special":
				c.check(class == "table", "R15b", key, cl.Pos(), "special-character text comes from the table", "special-character text is "+class+" ("+src+")")
			default:
				c.check(class == "normalised" || class == "slice-of-normalised", "R15b", key, cl.Pos(), "template text passes the line-joining normaliser ("+class+")",
					"template text reaches the tree without the line-joining normaliser ("+src+")")
			}
			return true
		}
		ast.Inspect(fd.Body, visit)
	}
	c.floor("R15b", "RawTextNode construction sites", 4, n)
}

var langSpecialTok = map[string]bool{"itemNil": true, "itemSpace": true, "itemTab": true, "itemNewline": true, "itemCarriageReturn": true, "itemLeftBrace": true, "itemRightBrace": true}

func callsFunc(e ast.Expr, info *types.Info, fn *types.Func) bool {
	found := false
	ast.Inspect(e, func(x ast.Node) bool {
		if call, ok := x.(*ast.CallExpr); ok && calleeFunc(call, info) == fn {
			found = true
		}
		return true
	})
	return found
}

// R15c: Registry.Add takes out of a template body exactly the header params it moved into the soydoc: the
// body is re-sliced from len(H), H being the list the HeaderParamNodes were collected in. Cutting at any
// other position removes template text (for instance the blank text after the last {@param}) along with the
// declarations.
func ruleR15c(c *Ctx) {
	p := c.pkg("template")
	fd := c.mustFunc("template", "Registry.Add")
	if p == nil || fd == nil {
		return
	}
	info := p.TypesInfo
	n := 0
	ast.Inspect(fd.Body, func(x ast.Node) bool {
		as, ok := x.(*ast.AssignStmt)
		if !ok || len(as.Lhs) != 1 || len(as.Rhs) != 1 {
			return true
		}
		fv := fieldOf(as.Lhs[0], info)
		if fv == nil || fv.Name() != "Nodes" {
			return true
		}
		n++
		good := false
		why := exprKey(as.Rhs[0])
		if se, ok := ast.Unparen(as.Rhs[0]).(*ast.SliceExpr); ok && se.High == nil && se.Low != nil && exprKey(se.X) == exprKey(as.Lhs[0]) {
			if call, ok := ast.Unparen(se.Low).(*ast.CallExpr); ok && len(call.Args) == 1 {
				if id, ok := call.Fun.(*ast.Ident); ok && id.Name == "len" {
					if tv, ok := info.Types[call.Args[0]]; ok {
						if sl, ok := tv.Type.Underlying().(*types.Slice); ok {
							if _, tn, ok := relPkgOfType(sl.Elem()); ok && tn == "HeaderParamNode" {
								good = true
							}
						}
					}
				}
			}
		}
		c.check(good, "R15c", "template.Registry.Add strips-header-params#"+itoa(n), as.Pos(), "the body loses exactly the collected header params",
			"the template body is replaced by "+why+", which is not the body minus the collected header params (Nodes[len(headerParams):]): text the parser kept is dropped with the declarations")
		return true
	})
	c.floor("R15c", "rewrites of a template body in Registry.Add", 1, n)
}

// R15d: template text reaches the parser as it is on disk. In the bundle, the text of a file is the bytes
// read (string(content)) and the text of a string is the parameter itself: AddTemplateFile hands
// AddTemplateString the conversion of what ReadFile returned and nothing else, AddTemplateString stores its
// parameter, and Compile parses the stored field. (Rewriting line ends on the way changes what {literal}
// blocks emit and every reported position.)
func ruleR15d(c *Ctx) {
	p := c.pkg("")
	af := c.mustFunc("", "Bundle.AddTemplateFile")
	as := c.mustFunc("", "Bundle.AddTemplateString")
	if p == nil || af == nil || as == nil {
		return
	}
	info := p.TypesInfo
	asFn := info.Defs[as.Name]
	// (1) AddTemplateFile: the text argument is string(<result of ReadFile>)
	var content types.Object
	ast.Inspect(af.Body, func(x ast.Node) bool {
		if st, ok := x.(*ast.AssignStmt); ok && len(st.Rhs) == 1 {
			if call, ok := st.Rhs[0].(*ast.CallExpr); ok {
				if cal := calleeFunc(call, info); cal != nil && strings.HasSuffix(cal.Name(), "ReadFile") {
					if id, ok := st.Lhs[0].(*ast.Ident); ok {
						content = info.Defs[id]
					}
				}
			}
		}
		return true
	})
	n := 0
	ast.Inspect(af.Body, func(x ast.Node) bool {
		call, ok := x.(*ast.CallExpr)
		if !ok || types.Object(calleeFunc(call, info)) != asFn || len(call.Args) != 2 {
			return true
		}
		n++
		good := false
		if conv, ok := ast.Unparen(call.Args[1]).(*ast.CallExpr); ok && len(conv.Args) == 1 {
			if tv, ok := info.Types[conv.Fun]; ok && tv.IsType() {
				if id, ok := ast.Unparen(conv.Args[0]).(*ast.Ident); ok && content != nil && info.Uses[id] == content {
					good = true
				}
			}
		}
		c.check(good, "R15d", "soy.Bundle.AddTemplateFile text-as-read", call.Pos(), "the file's text is the bytes read, converted to a string",
			"the text handed on for a template file is "+exprKey(call.Args[1])+", not simply the bytes read from it: template text (for instance a CR LF inside {literal}) is altered before the parser sees it")
		return true
	})
	c.floor("R15d", "hand-overs of a file's text in AddTemplateFile", 1, n)
	// (2) AddTemplateString stores its text parameter itself
	var textParam types.Object
	i := 0
	for _, fl := range as.Type.Params.List {
		for _, nm := range fl.Names {
			if i == 1 {
				textParam = info.Defs[nm]
			}
			i++
		}
	}
	stored := false
	ast.Inspect(as.Body, func(x ast.Node) bool {
		if cl, ok := x.(*ast.CompositeLit); ok {
			for _, el := range cl.Elts {
				v := el
				if kv, ok := el.(*ast.KeyValueExpr); ok {
					v = kv.Value
				}
				if id, ok := ast.Unparen(v).(*ast.Ident); ok && info.Uses[id] == textParam {
					stored = true
				}
			}
		}
		return true
	})
	c.check(stored, "R15d", "soy.Bundle.AddTemplateString stores-text-as-given", as.Pos(), "the template text is stored as given",
		"AddTemplateString does not store its text parameter itself")
}

// R15e: the message pass does not write into template text. The bytes of a raw text or html-tag node are
// slices of one buffer the parser filled; a function of soymsg (or parsepasses) that stores into an element of
// a []byte it was handed, or took from a node, rewrites the template in place (lower-casing a tag name for
// its placeholder name changed what both backends emit). Element stores are allowed only into byte slices
// created in the same function (make, a conversion, a literal, append to nil).
func ruleR15e(c *Ctx) {
	n, nbad := 0, 0
	for _, rel := range []string{"soymsg", "parsepasses", "template"} {
		p := c.pkg(rel)
		if p == nil {
			continue
		}
		info := p.TypesInfo
		for _, fd := range c.allFuncDecls(rel) {
			n++
			fresh := map[types.Object]bool{}
			note := func(lhs ast.Expr, rhs ast.Expr) {
				id, ok := lhs.(*ast.Ident)
				if !ok {
					return
				}
				o := info.Defs[id]
				if o == nil {
					o = info.Uses[id]
				}
				if o == nil {
					return
				}
				switch r := ast.Unparen(rhs).(type) {
				case *ast.CallExpr:
					if fid, ok := r.Fun.(*ast.Ident); ok && (fid.Name == "make" || fid.Name == "new") {
						fresh[o] = true
					}
					if tv, ok := info.Types[r.Fun]; ok && tv.IsType() {
						if atv, ok := info.Types[r.Args[0]]; ok {
							if b, ok := atv.Type.Underlying().(*types.Basic); ok && b.Info()&types.IsString != 0 {
								fresh[o] = true // []byte(string) copies
							}
						}
					}
				case *ast.CompositeLit:
					fresh[o] = true
				}
			}
			ast.Inspect(fd.Body, func(x ast.Node) bool {
				switch s := x.(type) {
				case *ast.AssignStmt:
					if len(s.Lhs) == len(s.Rhs) {
						for i := range s.Lhs {
							note(s.Lhs[i], s.Rhs[i])
						}
					}
				case *ast.ValueSpec:
					for i, nm := range s.Names {
						if i < len(s.Values) {
							note(nm, s.Values[i])
						}
					}
				}
				return true
			})
			ast.Inspect(fd.Body, func(x ast.Node) bool {
				as, ok := x.(*ast.AssignStmt)
				if !ok {
					return true
				}
				for _, l := range as.Lhs {
					ix, ok := l.(*ast.IndexExpr)
					if !ok {
						continue
					}
					tv, ok := info.Types[ix.X]
					if !ok {
						continue
					}
					sl, ok := tv.Type.Underlying().(*types.Slice)
					if !ok {
						continue
					}
					if b, ok := sl.Elem().Underlying().(*types.Basic); !ok || b.Kind() != types.Uint8 {
						continue
					}
					id := rootIdent(ix.X)
					if id != nil && fresh[info.Uses[id]] {
						continue
					}
					nbad++
					c.bad("R15e", fmt.Sprintf("%s writes-into-bytes#%d", c.declKey(rel, fd), nbad), as.Pos(),
						"a byte of "+exprKey(ix.X)+" is overwritten in place, and the slice was not created in this function: if it is (part of) a node's text, the template itself is rewritten and both backends emit the changed characters")
				}
				return true
			})
		}
	}
	c.floor("R15e", "functions of the compile passes examined for in-place byte writes", 30, n)
}
