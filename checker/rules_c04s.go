package main

import (
	"fmt"
	"go/ast"
	"go/constant"
	"go/types"
	"os"
	"path/filepath"
	"sort"
	"strings"
)

// wbrReference: where the runtime's word-break routine (goog.format.insertWordBreaks in soyutils.js, as
// documented there: "Word breaks aren't inserted into HTML tags or entities. Entities count towards the
// character count") puts breaks in an escaped text: before the rune at each returned index.
func wbrReference(text string, max int) []int {
	var at []int
	count, inEntity := 0, false
	for i, ch := range []rune(text) {
		if count >= max && ch != ' ' {
			at = append(at, i)
			count = 0
		}
		switch {
		case inEntity && ch == ';':
			inEntity = false
			count++
		case inEntity && ch == ' ':
			inEntity = false
			count = 0
		case inEntity:
		case ch == '&':
			inEntity = true
		case ch == ' ':
			count = 0
		default:
			count++
		}
	}
	return at
}

// wbrHypo: insertWordBreaks called with limit L on a value whose escaped text is the probe.
type wbrHypo struct {
	L     int64
	probe string
	esc   map[string]bool
}

func (h wbrHypo) expr(ev *evaluator, e ast.Expr, info *types.Info) (aval, bool) {
	call, ok := e.(*ast.CallExpr)
	if !ok || len(call.Args) != 1 {
		return unknown, false
	}
	if tv, ok := info.Types[call.Fun]; ok && tv.IsType() {
		if b, ok := tv.Type.Underlying().(*types.Basic); ok && b.Info()&types.IsInteger != 0 {
			if atv, ok := info.Types[call.Args[0]]; ok && atv.Value == nil {
				return constVal(constant.MakeInt64(h.L)), true
			}
		}
	}
	return unknown, false
}
func (h wbrHypo) prim(ev *evaluator, fn *types.Func, call *ast.CallExpr, st state) (aval, bool) {
	if fn != nil && h.esc[fn.Name()] {
		return constVal(constant.MakeString(h.probe)), true
	}
	return unknown, false
}
func (h wbrHypo) isRead(fn *types.Func) bool { return false }

// R04s: both backends count a character reference of the escaped text as one character and never break
// inside it. The JavaScript side is the runtime's state machine (its '&' and ';' cases are looked up in
// soyutils.js on every run); the Go side is the loop of the function registered for insertWordBreaks,
// evaluated (K2) rune by rune over a few probe texts with a small limit: the iterations in which "<wbr>" is
// written must be exactly those of the reference.
func ruleR04s(c *Ctx) {
	p := c.pkg("soyhtml")
	if p == nil {
		return
	}
	info := p.TypesInfo
	src, found := jsRuntimeText(c, "insertWordBreaks: function(", "resultArr.join('')")
	if !found {
		c.fatalf("anchor: goog.format.insertWordBreaks not found in soyjs/lib/soyutils.js")
		return
	}
	if !(strings.Contains(src, "case 38:") && strings.Contains(src, "case 59:")) {
		c.okTrivial("R04s", "soyhtml.insertWordBreaks counts-references-as-one", p.Syntax[0].Pos(), "the runtime library of the tree has no '&' / ';' cases: it does not treat references specially, nothing to agree on")
		return
	}
	var fd *ast.FuncDecl
	for _, e := range directiveTable(c, "soyhtml") {
		if e.name == "insertWordBreaks" && e.apply != nil {
			for _, d := range c.allFuncDecls("soyhtml") {
				if info.Defs[d.Name] == e.apply {
					fd = d
				}
			}
		}
	}
	if fd == nil {
		c.fatalf("anchor: the function registered for insertWordBreaks in soyhtml.PrintDirectives not found")
		return
	}
	key := c.declKey("soyhtml", fd) + " counts-references-as-one"
	c.seen(c.declKey("soyhtml", fd))
	// the loop over the text: a top-level range statement over a string whose body writes "<wbr>"
	loopAt := -1
	var loop *ast.RangeStmt
	for i, st := range fd.Body.List {
		rs, ok := st.(*ast.RangeStmt)
		if !ok {
			continue
		}
		if tv, ok := info.Types[rs.X]; !ok || !isStringType(tv.Type) {
			continue
		}
		writes := false
		ast.Inspect(rs.Body, func(x ast.Node) bool {
			if ex, ok := x.(ast.Expr); ok {
				if tv, ok := info.Types[ex]; ok && tv.Value != nil && tv.Value.Kind() == constant.String && constant.StringVal(tv.Value) == "<wbr>" {
					writes = true
				}
			}
			return true
		})
		if writes {
			loopAt, loop = i, rs
		}
	}
	if loop == nil {
		c.unk("R04s", key, fd.Pos(), "no top-level range over the text that writes \"<wbr>\" found: the rule cannot evaluate this shape")
		return
	}
	runeVar, idxVar := defObj(info, loop.Value), defObj(info, loop.Key)
	if runeVar == nil {
		c.unk("R04s", key, loop.Pos(), "the loop has no rune variable")
		return
	}
	esc := escaperWrappers(c)
	escNames := map[string]bool{}
	for k := range esc {
		escNames[k[strings.LastIndex(k, ".")+1:]] = true
	}
	probes := []struct {
		text string
		max  int
	}{
		{"aa&lt;bb", 3}, {"a&amp;&amp;bcd", 2}, {"&quot;x&quot;yz", 1}, {"ab cd&gt;efgh", 4}, {"abcdefg", 3},
	}
	var diffs []string
	nprobe := 0
	for _, pr := range probes {
		ev := newEvaluator(c, wbrHypo{int64(pr.max), pr.text, escNames})
		ev.watchLit = "<wbr>"
		var heads []state
		for _, cp := range ev.execBlock(fd.Body.List[:loopAt], state{env: env{}}, info) {
			if cp.kind == cNormal {
				heads = append(heads, cp.st)
			}
		}
		if len(heads) == 0 {
			c.unk("R04s", key, fd.Pos(), "no path reaches the loop")
			return
		}
		countLits := func(st state) int {
			n := 0
			for _, e := range st.tr.list() {
				if strings.HasPrefix(e.name, "lit:") {
					n++
				}
			}
			return n
		}
		var got []int
		undecided := false
		cur := heads
		off := 0
		for ri, ch := range []rune(pr.text) {
			before := -1
			var next []state
			seenKey := map[string]bool{}
			for _, st := range cur {
				b := countLits(st)
				e := st.env.clone()
				e[runeVar] = constVal(constant.MakeInt64(int64(ch)))
				if idxVar != nil {
					e[idxVar] = constVal(constant.MakeInt64(int64(off)))
				}
				for _, cp := range ev.execBlock(loop.Body.List, state{env: e, tr: st.tr}, info) {
					if cp.kind != cNormal && cp.kind != cContinue {
						continue
					}
					d := countLits(cp.st) - b
					if before == -1 {
						before = d
					} else if before != d {
						undecided = true
					}
					k := envKey(cp.st.env)
					if !seenKey[k] {
						seenKey[k] = true
						next = append(next, cp.st)
					}
				}
			}
			if before > 0 {
				got = append(got, ri)
			}
			if len(next) == 0 {
				undecided = true
				break
			}
			if len(next) > 64 {
				next = next[:64]
			}
			cur = next
			off += len(string(ch))
		}
		if undecided {
			c.unk("R04s", key, loop.Pos(), fmt.Sprintf("probe %q: the paths through the loop body disagree on whether a break is written", pr.text))
			return
		}
		nprobe++
		want := wbrReference(pr.text, pr.max)
		if fmt.Sprint(got) != fmt.Sprint(want) {
			diffs = append(diffs, fmt.Sprintf("escaped text %q, limit %d: Go breaks before runes %v, the JavaScript runtime before %v", pr.text, pr.max, got, want))
		}
	}
	sort.Strings(diffs)
	if len(diffs) > 0 {
		c.bad("R04s", key, loop.Pos(), "the word-break counter disagrees with the runtime's on character references (a reference must count as one character and never be split): "+strings.Join(diffs, "; "))
	} else {
		c.ok("R04s", key, loop.Pos(), fmt.Sprintf("on %d probe texts with references the loop writes its breaks exactly where the runtime's state machine does", nprobe))
	}
	c.floor("R04s", "probe texts evaluated through the word-break loop", len(probes), nprobe)
}

func defObj(info *types.Info, e ast.Expr) types.Object {
	id, ok := e.(*ast.Ident)
	if !ok || id.Name == "_" {
		return nil
	}
	if o := info.Defs[id]; o != nil {
		return o
	}
	return info.Uses[id]
}

func isStringType(t types.Type) bool {
	b, ok := t.Underlying().(*types.Basic)
	return ok && b.Info()&types.IsString != 0
}

// envKey: a canonical text of the constant part of an environment (for deduplication of states).
func envKey(e env) string {
	var parts []string
	for o, v := range e {
		s := "?"
		switch v.k {
		case avConst:
			s = v.c.ExactString()
		case avNil:
			s = "nil"
		}
		parts = append(parts, fmt.Sprintf("%s@%d=%s", o.Name(), o.Pos(), s))
	}
	sort.Strings(parts)
	return strings.Join(parts, ",")
}

// jsRuntimeText: the text of soyutils.js from the first occurrence of start to the next occurrence of end.
func jsRuntimeText(c *Ctx, start, end string) (string, bool) {
	body, ok := readRepoFile(c, "soyjs/lib/soyutils.js")
	if !ok {
		return "", false
	}
	i := strings.Index(body, start)
	if i < 0 {
		return "", false
	}
	j := strings.Index(body[i:], end)
	if j < 0 {
		return "", false
	}
	return body[i : i+j], true
}

func readRepoFile(c *Ctx, rel string) (string, bool) {
	b, err := os.ReadFile(filepath.Join(c.Repo, filepath.FromSlash(rel)))
	if err != nil {
		return "", false
	}
	return string(b), true
}
