package main

import (
	"fmt"
	"go/token"
	"go/types"
	"sort"
	"strings"

	"golang.org/x/tools/go/ssa"
)

// ssaNoReturn: SSA functions that never return normally (mapped from the AST-level closure).
func ssaNoReturn(c *Ctx, nr *noRet, f *ssa.Function) bool {
	if f == nil {
		return false
	}
	if o, ok := f.Object().(*types.Func); ok {
		if nr.set[o] {
			return true
		}
		if o.Pkg() != nil && noReturnStd[o.Pkg().Name()+"."+o.Name()] {
			return true
		}
	}
	return false
}

func isIOWriter(t types.Type) bool {
	n, ok := t.(*types.Named)
	return ok && n.Obj().Pkg() != nil && n.Obj().Pkg().Path() == "io" && n.Obj().Name() == "Writer"
}

func isErrorType(t types.Type) bool {
	n, ok := t.(*types.Named)
	return ok && n.Obj().Pkg() == nil && n.Obj().Name() == "error"
}

// inMemoryWriter: the operand is a concrete in-memory buffer converted to io.Writer.
func inMemoryWriter(v ssa.Value) bool {
	mi, ok := v.(*ssa.MakeInterface)
	if !ok {
		return false
	}
	s := mi.X.Type().String()
	return s == "*bytes.Buffer" || s == "*strings.Builder"
}

type sinkSite struct {
	fn   *ssa.Function
	call ssa.CallInstruction
	desc string
	eidx int // index of the error in the result tuple (-1: single error result)
}

// writerSinks finds the calls in f that write to an io.Writer-typed operand.
func writerSinks(f *ssa.Function) []sinkSite {
	var out []sinkSite
	for _, b := range f.Blocks {
		for _, in := range b.Instrs {
			ci, ok := in.(ssa.CallInstruction)
			if !ok {
				continue
			}
			com := ci.Common()
			var w ssa.Value
			desc := ""
			if com.IsInvoke() {
				if isIOWriter(com.Value.Type()) && com.Method.Name() == "Write" {
					w, desc = com.Value, "Write"
				}
			} else if sc := com.StaticCallee(); sc != nil && sc.Pkg != nil && len(com.Args) > 0 {
				pk := sc.Pkg.Pkg.Path()
				if (pk == "io" && sc.Name() == "WriteString") || (pk == "fmt" && strings.HasPrefix(sc.Name(), "Fprint")) || (pk == "io" && sc.Name() == "Copy") {
					if isIOWriter(com.Args[0].Type()) {
						w, desc = com.Args[0], pk+"."+sc.Name()
					}
				}
			}
			if w == nil || inMemoryWriter(w) {
				continue
			}
			sig := com.Signature()
			eidx := -2
			for i := 0; i < sig.Results().Len(); i++ {
				if isErrorType(sig.Results().At(i).Type()) {
					eidx = i
				}
			}
			if sig.Results().Len() == 1 && eidx == 0 {
				eidx = -1
			}
			out = append(out, sinkSite{f, ci, desc, eidx})
		}
	}
	sort.SliceStable(out, func(i, j int) bool { return out[i].call.Pos() < out[j].call.Pos() })
	return out
}

// errHandled decides whether the error produced by call (component eidx) is
// checked and aborts, or is returned to callers (reported in retIdx).
func errHandled(c *Ctx, nr *noRet, call ssa.CallInstruction, eidx int) (ok bool, returnedAt []int, why string) {
	v := call.Value()
	if v == nil {
		return false, nil, "the call is deferred or started as a goroutine: its error is lost"
	}
	if eidx == -2 {
		return false, nil, "the call has no error result"
	}
	var errVals []ssa.Value
	if eidx == -1 {
		errVals = []ssa.Value{v}
	} else {
		for _, r := range *v.Referrers() {
			if ex, ok := r.(*ssa.Extract); ok && ex.Index == eidx {
				errVals = append(errVals, ex)
			}
		}
	}
	if len(errVals) == 0 {
		return false, nil, "the error result is discarded"
	}
	// an error assigned to a variable shared by several writes (err = f(); ...; if err != nil) reaches its
	// test through phi nodes: the merged values stand for the error too
	seenVal := map[ssa.Value]bool{}
	for _, ev := range errVals {
		seenVal[ev] = true
	}
	for i := 0; i < len(errVals); i++ {
		for _, r := range *errVals[i].Referrers() {
			if phi, ok := r.(*ssa.Phi); ok && !seenVal[phi] {
				seenVal[phi] = true
				errVals = append(errVals, phi)
			}
		}
	}
	handled := false
	for _, ev := range errVals {
		// follow through phis / stores to a named result are not needed for the idioms in this repository
		for _, r := range *ev.Referrers() {
			switch r := r.(type) {
			case *ssa.BinOp:
				if r.Op != token.NEQ && r.Op != token.EQL {
					continue
				}
				for _, rr := range *r.Referrers() {
					iff, ok := rr.(*ssa.If)
					if !ok {
						continue
					}
					fail := iff.Block().Succs[0]
					if r.Op == token.EQL {
						fail = iff.Block().Succs[1]
					}
					if blockAborts(c, nr, fail, ev, &returnedAt) {
						handled = true
					} else {
						why = "the error is tested but the failing branch neither raises nor returns it"
					}
				}
			case *ssa.Return:
				for i, res := range r.Results {
					if res == ev {
						returnedAt = append(returnedAt, i)
						handled = true
					}
				}
			case *ssa.MakeInterface:
				// passed on (e.g. to errorf's variadic args) only counts via the branch test above
			}
		}
	}
	if !handled && why == "" {
		why = "the error result is never tested"
	}
	// every path from the write to a return must look at the error: a return reached without crossing a
	// test of this error (or returning it) drops it on that path
	if handled {
		if ci, ok := call.(ssa.Instruction); ok {
			if p := unexaminedReturn(ci, errVals); p != token.NoPos {
				return false, returnedAt, "a path returns (at " + c.posStr(p) + ") without having examined the write error"
			}
		}
	}
	return handled, returnedAt, why
}

// unexaminedReturn searches the control-flow graph from the call for a Return that is reachable without
// passing an If on the error value and that does not return the error itself.
func unexaminedReturn(call ssa.Instruction, errVals []ssa.Value) token.Pos {
	isErr := map[ssa.Value]bool{}
	for _, v := range errVals {
		isErr[v] = true
	}
	testsErr := func(b *ssa.BasicBlock) bool {
		if len(b.Instrs) == 0 {
			return false
		}
		iff, ok := b.Instrs[len(b.Instrs)-1].(*ssa.If)
		if !ok {
			return false
		}
		// the condition (possibly a chain of && / || lowered to blocks) mentions the error
		var mentions func(v ssa.Value, depth int) bool
		mentions = func(v ssa.Value, depth int) bool {
			if depth > 4 {
				return false
			}
			if isErr[v] {
				return true
			}
			if bo, ok := v.(*ssa.BinOp); ok {
				return mentions(bo.X, depth+1) || mentions(bo.Y, depth+1)
			}
			if ph, ok := v.(*ssa.Phi); ok {
				for _, e := range ph.Edges {
					if mentions(e, depth+1) {
						return true
					}
				}
			}
			return false
		}
		return mentions(iff.Cond, 0)
	}
	start := call.Block()
	// instructions after the call in its own block
	after := false
	for _, in := range start.Instrs {
		if in == call {
			after = true
			continue
		}
		if !after {
			continue
		}
		if r, ok := in.(*ssa.Return); ok {
			for _, res := range r.Results {
				if isErr[res] {
					return token.NoPos
				}
			}
			return r.Pos()
		}
	}
	if testsErr(start) {
		return token.NoPos
	}
	seen := map[*ssa.BasicBlock]bool{start: true}
	work := append([]*ssa.BasicBlock{}, start.Succs...)
	for len(work) > 0 {
		b := work[len(work)-1]
		work = work[:len(work)-1]
		if seen[b] {
			continue
		}
		seen[b] = true
		stop := false
		for _, in := range b.Instrs {
			switch in := in.(type) {
			case *ssa.Return:
				for _, res := range in.Results {
					if isErr[res] {
						stop = true
					}
				}
				if !stop {
					return in.Pos()
				}
			case *ssa.Panic:
				stop = true
			}
		}
		if stop || testsErr(b) {
			continue
		}
		work = append(work, b.Succs...)
	}
	return token.NoPos
}

// blockAborts: the branch taken on failure raises (no-return call / panic) or returns the error.
func blockAborts(c *Ctx, nr *noRet, b *ssa.BasicBlock, errv ssa.Value, returnedAt *[]int) bool {
	seen := map[*ssa.BasicBlock]bool{}
	for b != nil && !seen[b] {
		seen[b] = true
		for _, in := range b.Instrs {
			switch in := in.(type) {
			case *ssa.Panic:
				return true
			case ssa.CallInstruction:
				if sc := in.Common().StaticCallee(); sc != nil && ssaNoReturn(c, nr, sc) {
					return true
				}
			case *ssa.Return:
				for i, res := range in.Results {
					if res == errv {
						*returnedAt = append(*returnedAt, i)
						return true
					}
				}
				return false
			}
		}
		// straight-line continuation only
		if len(b.Succs) == 1 {
			b = b.Succs[0]
		} else {
			return false
		}
	}
	return false
}

// R12: every write to the render output is checked and a failure aborts the render.
func ruleR12(c *Ctx) {
	c.buildSSA()
	exec := c.ssaFunc("soyhtml", "(Renderer).Execute")
	if exec == nil {
		c.fatalf("anchor: soyhtml.(Renderer).Execute not found")
		return
	}
	cg := c.VTA()
	reach := reachFrom(cg, []*ssa.Function{exec}, true)
	nr := newNoRet(c)
	var fns []*ssa.Function
	for f := range reach {
		if isSoyFunc(f) && f.Blocks != nil {
			fns = append(fns, f)
		}
	}
	sort.Slice(fns, func(i, j int) bool { return fns[i].String() < fns[j].String() })
	nsinks := 0
	type pending struct {
		fn  *ssa.Function
		idx int
	}
	var queue []pending
	queued := map[string]bool{}
	fk := func(f *ssa.Function) string { return strings.ReplaceAll(f.String(), modPath+"/", "") }
	for _, f := range fns {
		c.seen(fk(f))
		ord := map[string]int{}
		for _, s := range writerSinks(f) {
			nsinks++
			ord[s.desc]++
			key := fmt.Sprintf("%s %s#%d", fk(f), s.desc, ord[s.desc])
			ok, ret, why := errHandled(c, nr, s.call, s.eidx)
			switch {
			case !ok:
				c.bad("R12", key, s.call.Pos(), "write to the output: "+why+"; a failing writer goes unnoticed and the render can return nil")
			case len(ret) > 0:
				c.ok("R12", key, s.call.Pos(), "the error is returned to the caller (checked at every call site below)")
				for _, i := range ret {
					k := fmt.Sprintf("%s/%d", fk(f), i)
					if !queued[k] {
						queued[k] = true
						queue = append(queue, pending{f, i})
					}
				}
			default:
				c.ok("R12", key, s.call.Pos(), "the error is tested and the failing branch raises (errorf/panic), which the entry's recover turns into the returned error")
			}
		}
	}
	// wrappers: every call of a function that returns a write error must handle it the same way
	for len(queue) > 0 {
		p := queue[0]
		queue = queue[1:]
		n := cg.Nodes[p.fn]
		if n == nil {
			continue
		}
		ord := 0
		for _, e := range n.In {
			if !reach[e.Caller.Func] || e.Site == nil {
				continue
			}
			ord++
			key := fmt.Sprintf("%s calls %s#%d", fk(e.Caller.Func), fk(p.fn), ord)
			sig := p.fn.Signature
			eidx := p.idx
			if sig.Results().Len() == 1 {
				eidx = -1
			}
			ok, ret, why := errHandled(c, nr, e.Site, eidx)
			switch {
			case !ok:
				c.bad("R12", key, e.Site.Pos(), "the callee returns the output writer's error and this call site drops it: "+why)
			case len(ret) > 0:
				c.ok("R12", key, e.Site.Pos(), "write error passed further up")
				for _, i := range ret {
					k := fmt.Sprintf("%s/%d", fk(e.Caller.Func), i)
					if !queued[k] {
						queued[k] = true
						queue = append(queue, pending{e.Caller.Func, i})
					}
				}
			default:
				c.ok("R12", key, e.Site.Pos(), "the returned write error is tested and raises")
			}
		}
	}
	c.floor("R12", "output write sites", 4, nsinks)
}
