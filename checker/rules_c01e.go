package main

import (
	"fmt"
	"go/ast"
	"go/constant"
	"go/token"
	"go/types"
	"strings"
)

// operand provenance inside one case clause of the evaluator: which of the node's
// argument fields (Arg, Arg1, Arg2, Arg3) an expression is computed from.
type argProv struct {
	info  *types.Info
	local map[types.Object]map[string]bool
}

func newArgProv(cc *ast.CaseClause, info *types.Info) *argProv {
	ap := &argProv{info: info, local: map[types.Object]map[string]bool{}}
	// two passes so that chains of locals resolve
	for pass := 0; pass < 3; pass++ {
		ast.Inspect(cc, func(x ast.Node) bool {
			var lhs []ast.Expr
			var rhs []ast.Expr
			switch s := x.(type) {
			case *ast.AssignStmt:
				lhs, rhs = s.Lhs, s.Rhs
			case *ast.ValueSpec:
				for _, n := range s.Names {
					lhs = append(lhs, n)
				}
				rhs = s.Values
			case *ast.TypeSwitchStmt:
				// switch arg := s.evaldef(node.Arg).(type): the bound variable per clause
				if as, ok := s.Assign.(*ast.AssignStmt); ok && len(as.Rhs) == 1 {
					set := ap.of(as.Rhs[0])
					for _, cs := range s.Body.List {
						if imp := info.Implicits[cs]; imp != nil && len(set) > 0 {
							ap.local[imp] = set
						}
					}
				}
				return true
			default:
				return true
			}
			if len(rhs) == 1 && len(lhs) > 1 {
				// tuple from a helper taking (node.Arg1, node.Arg2): position i derives from argument i
				if call, ok := ast.Unparen(rhs[0]).(*ast.CallExpr); ok && len(call.Args) == len(lhs) {
					for i, l := range lhs {
						ap.bind(l, ap.of(call.Args[i]))
					}
				}
				return true
			}
			for i, l := range lhs {
				if i < len(rhs) {
					ap.bind(l, ap.of(rhs[i]))
				}
			}
			return true
		})
	}
	return ap
}

func (ap *argProv) bind(l ast.Expr, set map[string]bool) {
	id, ok := ast.Unparen(l).(*ast.Ident)
	if !ok || len(set) == 0 {
		return
	}
	o := ap.info.Defs[id]
	if o == nil {
		o = ap.info.Uses[id]
	}
	if o == nil {
		return
	}
	if ap.local[o] == nil {
		ap.local[o] = map[string]bool{}
	}
	for k := range set {
		ap.local[o][k] = true
	}
}

// of returns the argument fields an expression is computed from.
func (ap *argProv) of(e ast.Expr) map[string]bool {
	out := map[string]bool{}
	ast.Inspect(e, func(x ast.Node) bool {
		switch x := x.(type) {
		case *ast.SelectorExpr:
			if strings.HasPrefix(x.Sel.Name, "Arg") {
				if sel, ok := ap.info.Selections[x]; ok && sel.Kind() == types.FieldVal {
					out[x.Sel.Name] = true
				}
			}
		case *ast.Ident:
			if o := ap.info.Uses[x]; o != nil {
				for k := range ap.local[o] {
					out[k] = true
				}
			}
		}
		return true
	})
	return out
}

func only(set map[string]bool, name string) bool { return len(set) == 1 && set[name] }

// R01e: each operator case of the Go evaluator applies the operator the language defines, to
// the operands in their written order.
func ruleR01e(c *Ctx) {
	goCases, fd := walkCaseTypes(c, "soyhtml", "state.walk")
	if goCases == nil {
		return
	}
	info := c.Pkgs["soyhtml"].TypesInfo
	arith := map[token.Token]bool{token.ADD: true, token.SUB: true, token.MUL: true, token.QUO: true, token.REM: true,
		token.LSS: true, token.LEQ: true, token.GTR: true, token.GEQ: true, token.LAND: true, token.LOR: true}
	n := 0
	for _, op := range langOps {
		cc := goCases[op.node]
		if cc == nil || op.goOp == "" {
			continue
		}
		n++
		key := "soyhtml.walk " + op.node
		ap := newArgProv(cc, info)
		var problems []string
		applied := 0
		unary := op.node == "NotNode" || op.node == "NegateNode"
		switch {
		case unary:
			ast.Inspect(cc, func(x ast.Node) bool {
				u, ok := x.(*ast.UnaryExpr)
				if !ok || (u.Op != token.NOT && u.Op != token.SUB) {
					return true
				}
				if len(ap.of(u.X)) == 0 {
					return true
				}
				applied++
				if u.Op.String() != op.goOp {
					problems = append(problems, "applies "+u.Op.String()+" instead of "+op.goOp)
				}
				return true
			})
		case strings.HasSuffix(op.goOp, "Equals"):
			ast.Inspect(cc, func(x ast.Node) bool {
				call, ok := x.(*ast.CallExpr)
				if !ok {
					return true
				}
				se, ok := call.Fun.(*ast.SelectorExpr)
				if !ok || se.Sel.Name != "Equals" || len(call.Args) != 1 {
					return true
				}
				applied++
				l, r := ap.of(se.X), ap.of(call.Args[0])
				if !(only(l, "Arg1") && only(r, "Arg2")) && !(only(l, "Arg2") && only(r, "Arg1")) {
					problems = append(problems, "Equals is not applied to the two operands")
				}
				return true
			})
			// negation parity
			negated := false
			ast.Inspect(cc, func(x ast.Node) bool {
				if u, ok := x.(*ast.UnaryExpr); ok && u.Op == token.NOT {
					found := false
					ast.Inspect(u.X, func(y ast.Node) bool {
						if se, ok := y.(*ast.SelectorExpr); ok && se.Sel.Name == "Equals" {
							found = true
						}
						return true
					})
					if found {
						negated = !negated
					}
				}
				return true
			})
			if negated != (op.goOp == "!Equals") {
				problems = append(problems, fmt.Sprintf("result of Equals negated=%v, the language requires negated=%v", negated, op.goOp == "!Equals"))
			}
		default:
			ast.Inspect(cc, func(x ast.Node) bool {
				be, ok := x.(*ast.BinaryExpr)
				if !ok || !arith[be.Op] {
					return true
				}
				l, r := ap.of(be.X), ap.of(be.Y)
				if len(l) == 0 || len(r) == 0 {
					return true
				}
				// type-test conjunctions such as isInt(arg1) && isInt(arg2) are guards, not the operation
				if be.Op == token.LAND || be.Op == token.LOR {
					if op.goOp != "&&" && op.goOp != "||" {
						return true
					}
				}
				applied++
				if be.Op.String() != op.goOp {
					problems = append(problems, "applies "+be.Op.String()+" where the language defines "+op.goOp)
				}
				if !(only(l, "Arg1") && only(r, "Arg2")) {
					problems = append(problems, "operands are not (Arg1 "+be.Op.String()+" Arg2) in that order")
				}
				return false
			})
		}
		switch {
		case applied == 0:
			c.unk("R01e", key, cc.Pos(), "no application of an operator to the node's operands was recognised in this case")
		case len(problems) > 0:
			c.bad("R01e", key, cc.Pos(), strings.Join(uniq(problems), "; "))
		default:
			c.ok("R01e", key, cc.Pos(), fmt.Sprintf("%d application(s) of %s to (Arg1, Arg2) in order", applied, op.goOp))
		}
	}
	c.floor("R01e", "operator cases of the Go evaluator", 15, n)
	// ternary and elvis select by the first operand
	if cc := goCases["TernNode"]; cc != nil {
		ap := newArgProv(cc, info)
		ok := false
		ast.Inspect(cc, func(x ast.Node) bool {
			ifs, isIf := x.(*ast.IfStmt)
			if !isIf || ifs.Else == nil {
				return true
			}
			cond := ap.of(ifs.Cond)
			truthy := strings.Contains(exprKey(ifs.Cond), "Truthy") && !strings.HasPrefix(exprKey(ifs.Cond), "!")
			thenSet, elseSet := map[string]bool{}, map[string]bool{}
			for _, s := range ifs.Body.List {
				for k := range ap.ofStmt(s) {
					thenSet[k] = true
				}
			}
			for k := range ap.ofStmt(ifs.Else) {
				elseSet[k] = true
			}
			if only(cond, "Arg1") && truthy && only(thenSet, "Arg2") && only(elseSet, "Arg3") {
				ok = true
			}
			return true
		})
		c.check(ok, "R01e", "soyhtml.walk TernNode", cc.Pos(), "selects Arg2 when Arg1 is truthy, else Arg3", "the ternary does not select Arg2 on a truthy Arg1 and Arg3 otherwise")
	}
	if cc := goCases["ElvisNode"]; cc != nil {
		ap := newArgProv(cc, info)
		ok := false
		ast.Inspect(cc, func(x ast.Node) bool {
			ifs, isIf := x.(*ast.IfStmt)
			if !isIf || ifs.Else == nil {
				return true
			}
			cond := exprKey(ifs.Cond)
			nullTest := strings.Contains(cond, "Null") && strings.Contains(cond, "!=") && strings.Contains(cond, "&&")
			thenSet, elseSet := map[string]bool{}, map[string]bool{}
			for _, s := range ifs.Body.List {
				for k := range ap.ofStmt(s) {
					thenSet[k] = true
				}
			}
			for k := range ap.ofStmt(ifs.Else) {
				elseSet[k] = true
			}
			if only(ap.of(ifs.Cond), "Arg1") && nullTest && only(thenSet, "Arg1") && only(elseSet, "Arg2") {
				ok = true
			}
			return true
		})
		c.check(ok, "R01e", "soyhtml.walk ElvisNode", cc.Pos(), "yields Arg1 unless it is null/undefined, else Arg2", "?: does not yield Arg1 when it is non-null and Arg2 otherwise")
	}
	_ = fd
	_ = constant.MakeBool
}

func (ap *argProv) ofStmt(s ast.Stmt) map[string]bool {
	out := map[string]bool{}
	ast.Inspect(s, func(x ast.Node) bool {
		if e, ok := x.(ast.Expr); ok {
			for k := range ap.of(e) {
				out[k] = true
			}
			return false
		}
		return true
	})
	return out
}

func uniq(s []string) []string {
	seen := map[string]bool{}
	var out []string
	for _, x := range s {
		if !seen[x] {
			seen[x] = true
			out = append(out, x)
		}
	}
	return out
}

// language table of the built-in functions: name -> accepted argument counts
var langFuncs = map[string][]int{
	"isNonnull": {1}, "length": {1}, "keys": {1}, "augmentMap": {2}, "round": {1, 2}, "floor": {1}, "ceiling": {1},
	"min": {2}, "max": {2}, "randomInt": {1}, "strContains": {2}, "range": {1, 2, 3}, "hasData": {0},
}

// funcTable reads a map[string]Func{...} literal: name -> arg lengths.
func funcTableGo(c *Ctx) map[string][]int {
	init := c.mustVarInit("soyhtml", "Funcs")
	if init == nil {
		return nil
	}
	info := c.Pkgs["soyhtml"].TypesInfo
	out := map[string][]int{}
	cl, ok := init.(*ast.CompositeLit)
	if !ok {
		return nil
	}
	for _, el := range cl.Elts {
		kv := el.(*ast.KeyValueExpr)
		ktv := info.Types[kv.Key]
		if ktv.Value == nil {
			continue
		}
		name := constant.StringVal(ktv.Value)
		out[name] = intSliceIn(kv.Value, info)
	}
	return out
}

func intSliceIn(e ast.Expr, info *types.Info) []int {
	var out []int
	found := false
	ast.Inspect(e, func(x ast.Node) bool {
		cl, ok := x.(*ast.CompositeLit)
		if !ok || found {
			return true
		}
		if tv, ok := info.Types[cl]; ok {
			if sl, ok := tv.Type.Underlying().(*types.Slice); ok {
				if b, ok := sl.Elem().(*types.Basic); ok && b.Kind() == types.Int {
					found = true
					for _, el := range cl.Elts {
						if v := info.Types[el].Value; v != nil {
							i, _ := constant.Int64Val(v)
							out = append(out, int(i))
						}
					}
				}
			}
		}
		return true
	})
	return out
}

// R01f: the built-in functions exist with the language's arities.
func ruleR01f(c *Ctx) {
	tab := funcTableGo(c)
	if tab == nil {
		return
	}
	pos := c.mustVarInit("soyhtml", "Funcs").Pos()
	for _, name := range sortedKeys(langFuncs) {
		want := langFuncs[name]
		got, ok := tab[name]
		key := "soyhtml.Funcs[" + name + "]"
		switch {
		case !ok:
			c.bad("R01f", key, pos, "built-in function "+name+" is missing: valid Soy calling it fails at render time")
		case fmt.Sprint(got) != fmt.Sprint(want):
			c.bad("R01f", key, pos, fmt.Sprintf("%s accepts %v arguments, the language defines %v", name, got, want))
		default:
			c.ok("R01f", key, pos, fmt.Sprintf("present with argument counts %v", got))
		}
	}
	// loop functions
	init := c.mustVarInit("soyhtml", "loopFuncs")
	if cl, ok := init.(*ast.CompositeLit); ok {
		info := c.Pkgs["soyhtml"].TypesInfo
		have := map[string]bool{}
		for _, el := range cl.Elts {
			if kv, ok := el.(*ast.KeyValueExpr); ok {
				if v := info.Types[kv.Key].Value; v != nil {
					have[constant.StringVal(v)] = true
				}
			}
		}
		for _, n := range []string{"index", "isFirst", "isLast"} {
			c.check(have[n], "R01f", "soyhtml.loopFuncs["+n+"]", init.Pos(), "loop function present", "loop function "+n+" is missing")
		}
	}
}

// nonNegByConstruction: the expression cannot be negative whatever the data: a non-negative constant, len(),
// cap(), a reflect Len()/NumField() result, a variable whose only definition is one of these, or a sum or
// product of such.
func nonNegByConstruction(e ast.Expr, scope ast.Node, info *types.Info, depth int) bool {
	e = ast.Unparen(e)
	if tv, ok := info.Types[e]; ok && tv.Value != nil {
		return constant.Sign(tv.Value) >= 0
	}
	if depth > 4 {
		return false
	}
	switch x := e.(type) {
	case *ast.CallExpr:
		if id, ok := x.Fun.(*ast.Ident); ok && (id.Name == "len" || id.Name == "cap") {
			if _, isB := info.Uses[id].(*types.Builtin); isB {
				return true
			}
		}
		if se, ok := x.Fun.(*ast.SelectorExpr); ok && len(x.Args) == 0 && (se.Sel.Name == "Len" || se.Sel.Name == "NumField" || se.Sel.Name == "NumMethod") {
			return true
		}
		// conversion of a non-negative value
		if tv, ok := info.Types[x.Fun]; ok && tv.IsType() && len(x.Args) == 1 {
			return nonNegByConstruction(x.Args[0], scope, info, depth+1)
		}
	case *ast.BinaryExpr:
		if x.Op == token.ADD || x.Op == token.MUL {
			return nonNegByConstruction(x.X, scope, info, depth+1) && nonNegByConstruction(x.Y, scope, info, depth+1)
		}
	case *ast.Ident:
		if r := resolveLocalInit(x, scope, info); r != ast.Expr(x) {
			return nonNegByConstruction(r, scope, info, depth+1)
		}
	}
	return false
}

// R01g: no built-in function, directive or renderer step can fail on a size computed from data: every
// length or capacity handed to make is non-negative by construction or dominated by a test that it is.
// (A negative size panics; the render then returns an error where the language defines a value, e.g. the
// empty list for range(5, 2).)
func ruleR01g(c *Ctx) {
	p := c.pkg("soyhtml")
	if p == nil {
		return
	}
	info := p.TypesInfo
	nr := newNoRet(c)
	n := 0
	for _, fd := range c.allFuncDecls("soyhtml") {
		ord := 0
		guardWalk(fd.Body, nr.forInfo(info), func(e ast.Expr, facts factSet) {
			call, ok := e.(*ast.CallExpr)
			if !ok {
				return
			}
			id, ok := call.Fun.(*ast.Ident)
			if !ok || id.Name != "make" || len(call.Args) < 2 {
				return
			}
			if _, isB := info.Uses[id].(*types.Builtin); !isB {
				return
			}
			for _, sz := range call.Args[1:] {
				n++
				ord++
				key := fmt.Sprintf("%s make-size#%d", c.declKey("soyhtml", fd), ord)
				k := exprKey(sz)
				ok := nonNegByConstruction(sz, fd.Body, info, 0) || facts[k+" >= 0"] || facts[k+" > 0"] || facts["0 <= "+k] || facts["0 < "+k]
				c.check(ok, "R01g", key, sz.Pos(), "the size "+k+" cannot be negative",
					"the size "+k+" handed to make is computed from data and nothing shows it is non-negative: for some arguments make panics and the render returns an error where the language defines a value")
			}
		})
	}
	c.floor("R01g", "sizes handed to make in the renderer", 6, n)
}

// litHypo fixes the token handed to the parser's value-node constructor.
type litHypo struct {
	typ constant.Value
	val string
}

func (h litHypo) expr(ev *evaluator, e ast.Expr, info *types.Info) (aval, bool) {
	if se, ok := ast.Unparen(e).(*ast.SelectorExpr); ok {
		if tv, ok := info.Types[se.X]; ok {
			if nt := namedOf(tv.Type); nt != nil && nt.Obj().Name() == "item" {
				switch se.Sel.Name {
				case "typ":
					return constVal(h.typ), true
				case "val":
					return constVal(constant.MakeString(h.val)), true
				}
			}
		}
	}
	return unknown, false
}
func (h litHypo) prim(ev *evaluator, fn *types.Func, call *ast.CallExpr, st state) (aval, bool) {
	return unknown, false
}
func (h litHypo) isRead(fn *types.Func) bool { return false }

// R01h: every spelling of a number the scanner accepts is accepted by the parser's value-node constructor.
// The constructor is evaluated with the token fixed to each sample spelling (decimal and hexadecimal
// integers, plain and exponent floats); strconv's parsers are folded on the constant text. Some path must
// return a node: if every path raises, the literal is a parse error.
func ruleR01h(c *Ctx) {
	p := c.pkg("parse")
	fd := c.mustFunc("parse", "tree.newValueNode")
	if p == nil || fd == nil {
		return
	}
	info := p.TypesInfo
	samples := []struct{ kind, text string }{
		{"itemInteger", "0"}, {"itemInteger", "42"}, {"itemInteger", "0x1F"}, {"itemInteger", "0xA0"},
		{"itemFloat", "1.5"}, {"itemFloat", "0.0"}, {"itemFloat", "6.02e23"}, {"itemFloat", "1e+06"}, {"itemFloat", "2.5e-07"},
	}
	n := 0
	for _, sm := range samples {
		k, ok := p.Types.Scope().Lookup(sm.kind).(*types.Const)
		if !ok {
			c.fatalf("anchor: parse.%s not found", sm.kind)
			return
		}
		ev := newEvaluator(c, litHypo{k.Val(), sm.text})
		comps := ev.execBlock(fd.Body.List, state{env: env{}}, info)
		returns, raises := 0, 0
		for _, cp := range comps {
			switch cp.kind {
			case cReturn:
				returns++
			case cNoReturn:
				raises++
			}
		}
		n++
		key := fmt.Sprintf("parse.tree.newValueNode accepts %s %q", sm.kind, sm.text)
		switch {
		case returns > 0:
			c.ok("R01h", key, fd.Pos(), fmt.Sprintf("a node is returned (%d returning, %d raising paths)", returns, raises))
		case raises > 0:
			c.bad("R01h", key, fd.Pos(), "every path of the constructor raises for this spelling, which the scanner accepts as a number: the literal is rejected as a parse error")
		default:
			c.unk("R01h", key, fd.Pos(), "no path evaluated")
		}
	}
	c.floor("R01h", "number spellings evaluated", 9, n)
}

// R01i: a map literal's keys are the unescaped strings: every value used as a key of the item table that
// parseMapLiteral builds comes from a parsed string node's Value or from unquoteString, never from the raw
// token text (which still holds the quotes' escape sequences).
func ruleR01i(c *Ctx) {
	p := c.pkg("parse")
	fd := c.mustFunc("parse", "tree.parseMapLiteral")
	if p == nil || fd == nil {
		return
	}
	info := p.TypesInfo
	keys := map[types.Object]bool{}
	nstores := 0
	ast.Inspect(fd.Body, func(x ast.Node) bool {
		as, ok := x.(*ast.AssignStmt)
		if !ok {
			return true
		}
		for _, l := range as.Lhs {
			ix, ok := l.(*ast.IndexExpr)
			if !ok {
				continue
			}
			if tv, ok := info.Types[ix.X]; !ok {
				continue
			} else if _, isMap := tv.Type.Underlying().(*types.Map); !isMap {
				continue
			}
			nstores++
			if id, ok := ast.Unparen(ix.Index).(*ast.Ident); ok && info.Uses[id] != nil {
				keys[info.Uses[id]] = true
			} else {
				c.bad("R01i", "parse.tree.parseMapLiteral key-expression#"+itoa(nstores), ix.Pos(), "the key "+exprKey(ix.Index)+" is not a variable whose origin can be followed")
			}
		}
		return true
	})
	c.floor("R01i", "stores into the map literal's item table", 1, nstores)
	n := 0
	goodSource := func(e ast.Expr) bool {
		e = ast.Unparen(e)
		if se, ok := e.(*ast.SelectorExpr); ok && se.Sel.Name == "Value" {
			if tv, ok := info.Types[se.X]; ok {
				if _, tn, ok := relPkgOfType(tv.Type); ok && tn == "StringNode" {
					return true
				}
			}
		}
		if call, ok := e.(*ast.CallExpr); ok {
			if cal := calleeFunc(call, info); cal != nil && cal.Name() == "unquoteString" {
				return true
			}
		}
		return false
	}
	ast.Inspect(fd.Body, func(x ast.Node) bool {
		var lhs, rhs []ast.Expr
		switch s := x.(type) {
		case *ast.AssignStmt:
			lhs, rhs = s.Lhs, s.Rhs
		case *ast.ValueSpec:
			for _, nm := range s.Names {
				lhs = append(lhs, nm)
			}
			rhs = s.Values
		default:
			return true
		}
		if len(rhs) == 0 {
			return true
		}
		for i, l := range lhs {
			id, ok := l.(*ast.Ident)
			if !ok {
				continue
			}
			o := info.Defs[id]
			if o == nil {
				o = info.Uses[id]
			}
			if o == nil || !keys[o] {
				continue
			}
			r := rhs[0]
			if len(rhs) == len(lhs) {
				r = rhs[i]
			} else if i != 0 {
				continue
			}
			n++
			c.check(goodSource(r), "R01i", "parse.tree.parseMapLiteral key-definition#"+itoa(n), x.Pos(), "the key is an unescaped string",
				"a map-literal key is taken from "+exprKey(r)+", not from a parsed string's Value or unquoteString: escape sequences in the key stay as written, so $m['a\\nb'] no longer finds the entry")
		}
		return true
	})
	c.floor("R01i", "definitions of the key variable", 2, n)
}

// R01j: printing an expression without a value fails before anything else happens to it: in evalPrint the
// test for data.Undefined is made on the value the expression evaluated to (s.val right after the walk of
// node.Arg), in a statement that precedes the loop applying the print directives, and its branch raises.
// (A directive such as |json turns undefined into text; testing afterwards lets it through.)
func ruleR01j(c *Ctx) {
	p := c.pkg("soyhtml")
	fd := c.mustFunc("soyhtml", "state.evalPrint")
	if p == nil || fd == nil {
		return
	}
	info := p.TypesInfo
	nr := newNoRet(c)
	applyAt := -1
	for i, st := range fd.Body.List {
		if appliesDirective(c, st) {
			applyAt = i
			break
		}
	}
	if applyAt < 0 {
		c.fatalf("anchor: evalPrint has no statement applying directives")
		return
	}
	good := false
	var at token.Pos = fd.Pos()
	for _, st := range fd.Body.List[:applyAt] {
		ifs, ok := st.(*ast.IfStmt)
		if !ok {
			continue
		}
		isUndefTest := false
		check := func(n ast.Node) {
			if n == nil {
				return
			}
			ast.Inspect(n, func(y ast.Node) bool {
				ta, ok := y.(*ast.TypeAssertExpr)
				if !ok || ta.Type == nil {
					return true
				}
				if tv, ok := info.Types[ta.Type]; ok {
					if _, tn, ok := relPkgOfType(tv.Type); ok && tn == "Undefined" {
						subj := resolveLocalInit(ta.X, fd.Body, info)
						if fv := fieldOf(subj, info); fv != nil && fv.Name() == "val" {
							isUndefTest = true
						}
					}
				}
				return true
			})
		}
		check(ifs.Init)
		check(ifs.Cond)
		if !isUndefTest {
			continue
		}
		raises := false
		ast.Inspect(ifs.Body, func(y ast.Node) bool {
			if call, ok := y.(*ast.CallExpr); ok && nr.callNoReturn(call, info) {
				raises = true
			}
			return true
		})
		if raises {
			good = true
			at = ifs.Pos()
		}
	}
	c.check(good, "R01j", "soyhtml.state.evalPrint undefined-before-directives", at, "the expression's value is tested for undefined, and the print fails, before any directive is applied",
		"no statement before the directive loop rejects an undefined expression value: a directive that accepts undefined (|json prints null) turns a print of a missing value into output instead of an error")
}

// R01k: a \uNNNN escape has four hexadecimal digits, values 0 to 0xFFFF. Wherever the string helpers of the
// parser decode hexadecimal digits with strconv, the bit size admits that whole range: ParseInt needs 0 or at
// least 17 (it is a signed width: 16 stops at 0x7FFF), ParseUint 0 or at least 16.
func ruleR01k(c *Ctx) {
	p := c.pkg("parse")
	if p == nil {
		return
	}
	info := p.TypesInfo
	n := 0
	for _, fd := range c.allFuncDecls("parse") {
		if strings.HasSuffix(c.Fset.Position(fd.Pos()).Filename, "_test.go") {
			continue
		}
		ord := 0
		ast.Inspect(fd.Body, func(x ast.Node) bool {
			call, ok := x.(*ast.CallExpr)
			if !ok || len(call.Args) != 3 {
				return true
			}
			cal := calleeFunc(call, info)
			if cal == nil || (cal.FullName() != "strconv.ParseInt" && cal.FullName() != "strconv.ParseUint") {
				return true
			}
			base, bits := info.Types[call.Args[1]].Value, info.Types[call.Args[2]].Value
			if base == nil || bits == nil {
				return true
			}
			bv, _ := constant.Int64Val(base)
			kv, _ := constant.Int64Val(bits)
			if bv != 16 {
				return true
			}
			// only the decoding of escapes (a cut of a string), not of hexadecimal integer literals
			if _, isSlice := ast.Unparen(call.Args[0]).(*ast.SliceExpr); !isSlice {
				if id, ok := ast.Unparen(call.Args[0]).(*ast.Ident); !ok || !strings.Contains(c.declKey("parse", fd), "nquote") && !strings.Contains(strings.ToLower(id.Name), "hex") {
					return true
				}
			}
			n++
			ord++
			min := int64(17)
			if cal.Name() == "ParseUint" {
				min = 16
			}
			c.check(kv == 0 || kv >= min, "R01k", fmt.Sprintf("%s hex-escape-width#%d", c.declKey("parse", fd), ord), call.Pos(),
				"the bit size admits every four-digit escape", fmt.Sprintf("%s(…, 16, %d) rejects part of the range of a four-digit escape (a signed %d-bit value stops at 0x%X): valid literals such as '\\\\uFFFF' or '\\\\u9EC4' become parse errors", cal.Name(), kv, kv, (int64(1)<<uint(kv-1))-1))
			return true
		})
	}
	c.floor("R01k", "hexadecimal escape decodings in the parser", 1, n)
}

// R01l: a null-safe access on a missing value ends the whole data reference with null ($a?.b.c is null when
// $a is null, as in the language and in the generated JavaScript, which guards the entire rest of the chain):
// in evalDataRef the path on which isNullSafeAccess holds returns null at once; it does not go on to the
// next access with a null in hand (the next plain access would then fail).
func ruleR01l(c *Ctx) {
	p := c.pkg("soyhtml")
	fd := c.mustFunc("soyhtml", "state.evalDataRef")
	if p == nil || fd == nil {
		return
	}
	info := p.TypesInfo
	isNullReturn := func(s ast.Stmt) bool {
		r, ok := s.(*ast.ReturnStmt)
		if !ok || len(r.Results) != 1 {
			return false
		}
		tv, ok := info.Types[r.Results[0]]
		if !ok {
			return false
		}
		_, tn, ok := relPkgOfType(tv.Type)
		return ok && tn == "Null"
	}
	n := 0
	var visit func(list []ast.Stmt)
	visit = func(list []ast.Stmt) {
		for i, st := range list {
			ast.Inspect(st, func(x ast.Node) bool {
				switch b := x.(type) {
				case *ast.BlockStmt:
					visit(b.List)
					return false
				case *ast.CaseClause:
					visit(b.Body)
					return false
				}
				return true
			})
			ifs, ok := st.(*ast.IfStmt)
			if !ok {
				continue
			}
			cond := ast.Unparen(ifs.Cond)
			neg := false
			if ue, ok := cond.(*ast.UnaryExpr); ok && ue.Op == token.NOT {
				neg, cond = true, ast.Unparen(ue.X)
			}
			call, ok := cond.(*ast.CallExpr)
			if !ok {
				continue
			}
			if cal := calleeFunc(call, info); cal == nil || cal.Name() != "isNullSafeAccess" {
				continue
			}
			n++
			good := false
			if !neg {
				good = len(ifs.Body.List) > 0 && isNullReturn(ifs.Body.List[len(ifs.Body.List)-1])
			} else if i+1 < len(list) {
				good = isNullReturn(list[i+1])
			}
			c.check(good, "R01l", "soyhtml.state.evalDataRef null-safe-ends-the-reference#"+itoa(n), ifs.Pos(), "the null-safe path returns null for the whole reference",
				"where a null-safe access meets a missing value evalDataRef does not return null at once: it carries on with the following accesses, so $a?.b.c fails on a null $a although the language (and the generated JavaScript) yields null")
		}
	}
	visit(fd.Body.List)
	c.floor("R01l", "null-safe tests in evalDataRef", 1, n)
}
