// soylint: repository-specific static checks for robfig/soy.
//
// usage: soylint check -prop C05 [-tier quick|thorough] [-repo /repo] [-out /verif]
//
//	soylint replay <path>
//
// Exit 0: property held on everything analysed (known findings printed).
// Exit 1: at least one VIOLATION (unlisted violated or undecided obligation).
// Exit 2: analysis failure (load error, missing anchor, floor not met).
package main

import (
	"encoding/json"
	"flag"
	"fmt"
	"os"
	"path/filepath"
	"sort"
	"strconv"
	"strings"
	"time"
)

type propSpec struct {
	ID         string
	Rules      []func(*Ctx)
	Explain    string   // rules applied, in words
	NotDecided string   // the clause this check does not decide
	Assumes    []string // trusted base
}

var props = map[string]*propSpec{}

func register(p *propSpec) { props[p.ID] = p }

type knownFinding struct {
	Property  string `json:"property"`
	Rule      string `json:"rule"`
	Construct string `json:"construct"`
	Status    string `json:"status"` // "known" | "fixed"
	What      string `json:"what"`
	Commit    string `json:"commit,omitempty"`
	Record    string `json:"record,omitempty"`
}

type knownFile struct {
	Findings []knownFinding `json:"findings"`
}

func loadKnown(path string) (knownFile, error) {
	var kf knownFile
	b, err := os.ReadFile(path)
	if err != nil {
		if os.IsNotExist(err) {
			return kf, nil
		}
		return kf, err
	}
	err = json.Unmarshal(b, &kf)
	return kf, err
}

func main() {
	if len(os.Args) < 2 {
		fmt.Fprintln(os.Stderr, "usage: soylint check|replay|list ...")
		os.Exit(2)
	}
	switch os.Args[1] {
	case "check":
		os.Exit(cmdCheck(os.Args[2:]))
	case "replay":
		os.Exit(cmdReplay(os.Args[2:]))
	case "list":
		var ids []string
		for id := range props {
			ids = append(ids, id)
		}
		sort.Strings(ids)
		fmt.Println(strings.Join(ids, " "))
	default:
		fmt.Fprintln(os.Stderr, "unknown command", os.Args[1])
		os.Exit(2)
	}
}

func cmdCheck(args []string) int {
	fs := flag.NewFlagSet("check", flag.ExitOnError)
	prop := fs.String("prop", "", "property id")
	tier := fs.String("tier", "quick", "quick|thorough")
	repo := fs.String("repo", "/repo", "repository root")
	out := fs.String("out", "/verif", "verif root (evidence/, replay/, known_findings.json)")
	noEvidence := fs.Bool("no-evidence", false, "do not write evidence/replay files (used for scratch-copy variants)")
	extra := fs.String("extra", "", "JSON file with extra coverage keys to merge into the evidence (self-validation results)")
	fs.Parse(args)
	spec := props[*prop]
	if spec == nil {
		fmt.Fprintf(os.Stderr, "unknown property %q\n", *prop)
		return 2
	}
	start := time.Now()
	c, err := load(*repo)
	if err != nil {
		fmt.Printf("ANALYSIS-FAILURE property=%s %v\n", *prop, err)
		if !*noEvidence {
			writeFailureEvidence(*out, *prop, *tier, err.Error(), time.Since(start).Seconds())
		}
		return 2
	}
	c.Prop, c.Tier = *prop, *tier
	func() {
		defer func() {
			if r := recover(); r != nil {
				c.fatalf("checker panic: %v", r)
				if os.Getenv("SOYLINT_DEBUG") != "" {
					panic(r)
				}
			}
		}()
		for _, r := range spec.Rules {
			r(c)
		}
	}()
	return finish(c, spec, *out, *noEvidence, *extra, start)
}

func finish(c *Ctx, spec *propSpec, out string, noEvidence bool, extraPath string, start time.Time) int {
	kf, err := loadKnown(filepath.Join(out, "known_findings.json"))
	if err != nil {
		c.fatalf("known_findings.json: %v", err)
	}
	known := map[string]knownFinding{}
	for _, k := range kf.Findings {
		if k.Property == c.Prop && k.Status == "known" {
			known[k.Rule+"\x00"+k.Construct] = k
		}
	}
	sort.SliceStable(c.Obls, func(i, j int) bool {
		if c.Obls[i].Rule != c.Obls[j].Rule {
			return c.Obls[i].Rule < c.Obls[j].Rule
		}
		return c.Obls[i].Key < c.Obls[j].Key
	})
	for _, f := range c.Floors {
		if f.Found < f.Required {
			c.fatalf("floor not met: rule %s expects >= %d %s, found %d", f.Rule, f.Required, f.What, f.Found)
		}
	}
	var violations, knownHits []Obligation
	discharged := 0
	constructs := map[string]bool{}
	for _, o := range c.Obls {
		switch o.Status {
		case Discharged:
			discharged++
		default:
			if _, ok := known[o.Rule+"\x00"+o.Key]; ok && o.Status == Violated {
				knownHits = append(knownHits, o)
			} else {
				violations = append(violations, o)
			}
		}
		if !o.Trivial {
			constructs[o.Rule+"|"+o.Key] = true
		}
	}
	if os.Getenv("SOYLINT_V") != "" {
		for _, o := range c.Obls {
			fmt.Printf("  [%s] %s %s at %s: %s\n", o.Status, o.Rule, o.Key, o.Pos, o.Detail)
		}
	}
	for _, o := range knownHits {
		fmt.Printf("KNOWN-FINDING: property=%s %s %s at %s: %s\n", c.Prop, o.Rule, o.Key, o.Pos, known[o.Rule+"\x00"+o.Key].What)
	}
	code := 0
	if !noEvidence {
		os.MkdirAll(filepath.Join(out, "replay"), 0o755)
		old, _ := filepath.Glob(filepath.Join(out, "replay", c.Prop+"-*.json"))
		for _, f := range old {
			os.Remove(f)
		}
	}
	for i, o := range violations {
		path := filepath.Join(out, "replay", c.Prop+"-"+strconv.Itoa(i+1)+".json")
		if !noEvidence {
			b, _ := json.MarshalIndent(map[string]interface{}{
				"property": c.Prop, "obligation": o, "repo": c.Repo,
				"how": "soylint replay " + path + " re-evaluates this rule instance on the current tree",
			}, "", " ")
			os.WriteFile(path, b, 0o644)
		}
		fmt.Printf("%s %s %s at %s: %s\n", strings.ToUpper(o.Status), o.Rule, o.Key, o.Pos, o.Detail)
		fmt.Printf("VIOLATION property=%s replay=%s\n", c.Prop, path)
		code = 1
	}
	for _, f := range c.Fatal {
		fmt.Printf("ANALYSIS-FAILURE property=%s %s\n", c.Prop, f)
		code = 2
	}
	wall := time.Since(start).Seconds()
	if !noEvidence {
		writeEvidence(c, spec, out, discharged, len(violations), knownHits, len(constructs), extraPath, wall)
	}
	fmt.Printf("soylint: property=%s tier=%s obligations=%d discharged=%d known=%d violations=%d failures=%d wall=%.1fs\n",
		c.Prop, c.Tier, len(c.Obls), discharged, len(knownHits), len(violations), len(c.Fatal), wall)
	return code
}

func writeEvidence(c *Ctx, spec *propSpec, out string, discharged, nviol int, knownHits []Obligation, constructs int, extraPath string, wall float64) {
	// samples: up to 3 obligations per rule, non-trivial first
	perRule := map[string]int{}
	var samples []Obligation
	for pass := 0; pass < 2; pass++ {
		for _, o := range c.Obls {
			if (pass == 0) == o.Trivial {
				continue
			}
			if perRule[o.Rule] >= 3 {
				continue
			}
			perRule[o.Rule]++
			samples = append(samples, o)
		}
	}
	ruleCounts := map[string]map[string]int{}
	for _, o := range c.Obls {
		if ruleCounts[o.Rule] == nil {
			ruleCounts[o.Rule] = map[string]int{}
		}
		ruleCounts[o.Rule][o.Status]++
	}
	var funcs []string
	for f := range c.FuncsSeen {
		funcs = append(funcs, f)
	}
	sort.Strings(funcs)
	var pk []string
	for _, p := range c.All {
		pk = append(pk, p.PkgPath)
	}
	seed, _ := strconv.Atoi(os.Getenv("VERIF_SEED"))
	cov := map[string]interface{}{
		"explanation": spec.Explain + " NOT DECIDED: " + spec.NotDecided +
			" The check decides the named structural clauses (each a necessary condition of the property), not the behaviour as a whole.",
		"obligations":         len(c.Obls),
		"discharged":          discharged,
		"known_findings":      nonNil(knownHits),
		"evaluations":         len(c.Obls),
		"distinct_nontrivial": constructs,
		"rule":                "every rule enumerates its finite instance set on the current source; an instance is distinct by rule+construct key and non-trivial when discharging it required analysis (not a type/shape match alone)",
		"exhaustive":          true,
		"samples":             samples,
		"per_rule":            ruleCounts,
		"floors":              c.Floors,
		"packages":            pk,
		"functions_analysed":  len(funcs),
		"functions":           funcs,
		"callgraph":           map[string]bool{"vta": c.cgVTA != nil, "cha": c.cgCHA != nil},
		"checker_cmd":         "/verif/check " + c.Prop + " " + c.Tier,
		"trusted_base":        []string{"go/types, go/ssa, go/cfg, callgraph/vta from golang.org/x/tools v0.29.0", "soylint rule implementations in /verif/checker"},
		"analysis_failures":   append([]string{}, c.Fatal...),
	}
	if extraPath != "" {
		if b, err := os.ReadFile(extraPath); err == nil {
			var m map[string]interface{}
			if json.Unmarshal(b, &m) == nil {
				for k, v := range m {
					cov[k] = v
				}
			}
		}
	}
	ev := map[string]interface{}{
		"property_id": c.Prop,
		"tier":        c.Tier,
		"seed":        seed,
		"level":       "other",
		"coverage":    cov,
		"assumptions": spec.Assumes,
		"wall_s":      wall,
		"violations":  nviol,
	}
	os.MkdirAll(filepath.Join(out, "evidence"), 0o755)
	b, _ := json.MarshalIndent(ev, "", " ")
	os.WriteFile(filepath.Join(out, "evidence", c.Prop+".json"), append(b, '\n'), 0o644)
}

func writeFailureEvidence(out, prop, tier, msg string, wall float64) {
	ev := map[string]interface{}{
		"property_id": prop, "tier": tier, "seed": 0, "level": "other",
		"coverage": map[string]interface{}{
			"explanation": "analysis failed before any rule ran: " + msg, "obligations": 0, "discharged": 0,
		},
		"wall_s": wall, "violations": 0,
	}
	os.MkdirAll(filepath.Join(out, "evidence"), 0o755)
	b, _ := json.MarshalIndent(ev, "", " ")
	os.WriteFile(filepath.Join(out, "evidence", prop+".json"), append(b, '\n'), 0o644)
}

func cmdReplay(args []string) int {
	fs := flag.NewFlagSet("replay", flag.ExitOnError)
	repo := fs.String("repo", "/repo", "repository root")
	fs.Parse(args)
	if fs.NArg() != 1 {
		fmt.Fprintln(os.Stderr, "usage: soylint replay [-repo dir] <replay.json>")
		return 2
	}
	b, err := os.ReadFile(fs.Arg(0))
	if err != nil {
		fmt.Fprintln(os.Stderr, err)
		return 2
	}
	var r struct {
		Property   string     `json:"property"`
		Obligation Obligation `json:"obligation"`
	}
	if err := json.Unmarshal(b, &r); err != nil {
		fmt.Fprintln(os.Stderr, err)
		return 2
	}
	spec := props[r.Property]
	if spec == nil {
		fmt.Fprintln(os.Stderr, "unknown property", r.Property)
		return 2
	}
	c, err := load(*repo)
	if err != nil {
		fmt.Println("ANALYSIS-FAILURE", err)
		return 2
	}
	c.Prop, c.Tier = r.Property, "quick"
	for _, rule := range spec.Rules {
		rule(c)
	}
	for _, o := range c.Obls {
		if o.Rule == r.Obligation.Rule && o.Key == r.Obligation.Key {
			fmt.Printf("%s %s %s at %s: %s\n", strings.ToUpper(o.Status), o.Rule, o.Key, o.Pos, o.Detail)
			if o.Status != Discharged {
				fmt.Printf("VIOLATION property=%s replay=%s\n", r.Property, fs.Arg(0))
				return 1
			}
			return 0
		}
	}
	fmt.Printf("obligation %s %s no longer exists on this tree\n", r.Obligation.Rule, r.Obligation.Key)
	return 0
}

func nonNil(o []Obligation) []Obligation {
	if o == nil {
		return []Obligation{}
	}
	return o
}
