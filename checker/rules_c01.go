package main

import (
	"fmt"
	"go/ast"
	"go/constant"
	"go/token"
	"go/types"
	"sort"
	"strings"
)

// constHypo: no hypothesis beyond constants bound in the environment.
type noHypo struct{}

func (noHypo) expr(ev *evaluator, e ast.Expr, info *types.Info) (aval, bool) { return unknown, false }
func (noHypo) prim(ev *evaluator, fn *types.Func, call *ast.CallExpr, st state) (aval, bool) {
	return unknown, false
}
func (noHypo) isRead(fn *types.Func) bool { return false }

// switchOf returns the first (tagged or tagless) switch statement of a function body.
func firstSwitch(body *ast.BlockStmt) *ast.SwitchStmt {
	var sw *ast.SwitchStmt
	ast.Inspect(body, func(x ast.Node) bool {
		if s, ok := x.(*ast.SwitchStmt); ok && sw == nil {
			sw = s
		}
		return sw == nil
	})
	return sw
}

// R01a: every token that can start an expression starts an implicit print.
func ruleR01a(c *Ctx) {
	pf := getParseFacts(c)
	if pf == nil {
		return
	}
	info := pf.info
	first := c.mustFunc("parse", "tree.parseExprFirstTerm")
	begin := c.mustFunc("parse", "tree.beginTag")
	if first == nil || begin == nil {
		return
	}
	c.seen("parse.tree.parseExprFirstTerm")
	c.seen("parse.tree.beginTag")
	fsw := firstSwitch(first.Body)
	bsw := firstSwitch(begin.Body)
	if fsw == nil || bsw == nil {
		c.fatalf("anchor: dispatch switch of parseExprFirstTerm / beginTag not found")
		return
	}
	// the token variable of parseExprFirstTerm's switch
	var tokObj types.Object
	if as, ok := fsw.Init.(*ast.AssignStmt); ok && len(as.Lhs) == 1 {
		if id, ok := as.Lhs[0].(*ast.Ident); ok {
			tokObj = info.Defs[id]
		}
	}
	if tokObj == nil {
		c.fatalf("anchor: parseExprFirstTerm does not bind its first token in the switch header")
		return
	}
	ev := newEvaluator(c, noHypo{})
	// print-start set: the clause holding itemPrint plus the clauses that fall through into it
	printConst := pf.itemConsts["itemPrint"]
	if printConst == nil {
		c.fatalf("anchor: parse.itemPrint not found")
		return
	}
	printStart := map[*types.Const]bool{}
	clauses := bsw.Body.List
	pi := -1
	for i, cs := range clauses {
		for _, e := range cs.(*ast.CaseClause).List {
			if constObj(info, e) == printConst {
				pi = i
			}
		}
	}
	if pi < 0 {
		c.fatalf("anchor: no case for itemPrint in beginTag")
		return
	}
	for i := pi; i >= 0; i-- {
		cc := clauses[i].(*ast.CaseClause)
		if i < pi {
			if len(cc.Body) == 0 {
				break
			}
			br, ok := cc.Body[len(cc.Body)-1].(*ast.BranchStmt)
			if !ok || br.Tok != token.FALLTHROUGH {
				break
			}
		}
		for _, e := range cc.List {
			if k := constObj(info, e); k != nil {
				printStart[k] = true
			}
		}
	}
	// command clauses (a token with its own command is not an expression start in tag position)
	ownClause := map[*types.Const]bool{}
	for _, cs := range clauses {
		for _, e := range cs.(*ast.CaseClause).List {
			if k := constObj(info, e); k != nil {
				ownClause[k] = true
			}
		}
	}
	names := sortedKeys(pf.itemConsts)
	nfirst := 0
	for _, n := range names {
		k := pf.itemConsts[n]
		st := state{env: env{tokObj: aval{k: avStruct, fields: map[string]aval{"typ": constVal(k.Val())}}}}
		isFirst, undecided := false, false
		for _, cs := range fsw.Body.List {
			cc := cs.(*ast.CaseClause)
			for _, e := range cc.List {
				for _, r := range ev.evalExpr(e, st, info) {
					if r.v.isTrue() {
						isFirst = true
					} else if !r.v.isFalse() {
						undecided = true
					}
				}
			}
		}
		if undecided {
			c.unk("R01a", "first-token "+n, fsw.Pos(), "whether "+n+" starts an expression could not be evaluated")
			continue
		}
		if !isFirst {
			continue
		}
		nfirst++
		c.check(printStart[k], "R01a", "first-token "+n, bsw.Pos(),
			"starts an expression and starts an implicit print",
			"an expression may start with "+n+", but a tag starting with it is not parsed as a print: valid Soy such as {(1+2)*3} is rejected")
	}
	c.floor("R01a", "expression-start tokens", 9, nfirst)
}

// lastEmitHypo fixes the kind of the previously emitted token.
type lastEmitHypo struct{ k constant.Value }

func (h lastEmitHypo) expr(ev *evaluator, e ast.Expr, info *types.Info) (aval, bool) {
	if se, ok := e.(*ast.SelectorExpr); ok && se.Sel.Name == "typ" {
		if in, ok := ast.Unparen(se.X).(*ast.SelectorExpr); ok && in.Sel.Name == "lastEmit" {
			return constVal(h.k), true
		}
	}
	return unknown, false
}
func (h lastEmitHypo) prim(ev *evaluator, fn *types.Func, call *ast.CallExpr, st state) (aval, bool) {
	if fn.Name() == "emit" {
		return unknown, true // recorded as an event, not executed
	}
	return unknown, false
}
func (h lastEmitHypo) isRead(fn *types.Func) bool { return false }

// operandEnd: the token kinds after which an expression operand is complete, so that '-' is subtraction.
var operandEnd = map[string]bool{
	"itemNull": true, "itemBool": true, "itemInteger": true, "itemFloat": true, "itemString": true,
	"itemIdent": true, "itemDollarIdent": true, "itemDotIdent": true, "itemQuestionDotIdent": true,
	"itemDotIndex": true, "itemQuestionDotIndex": true, "itemRightBracket": true, "itemRightParen": true,
}

// beforeMinus: token kinds that can precede a '-' inside a tag where an operand must follow (so '-' is unary).
var beforeMinus = map[string]bool{
	"itemInvalid": true, "itemLeftDelim": true, "itemColon": true, "itemComma": true, "itemPipe": false, "itemEquals": true,
	"itemLeftBracket": true, "itemQuestionKey": true, "itemLeftParen": true,
	"itemNegate": true, "itemMul": true, "itemDiv": true, "itemMod": true, "itemAdd": true, "itemSub": true, "itemEq": true,
	"itemNotEq": true, "itemGt": true, "itemGte": true, "itemLt": true, "itemLte": true, "itemNot": true, "itemOr": true,
	"itemAnd": true, "itemTernIf": true, "itemElvis": true,
	"itemCase": true, "itemElseif": true, "itemIf": true, "itemPrint": true, "itemSwitch": true, "itemPlural": true,
}

// R01b: '-' is lexed as subtraction exactly after a complete operand.
func ruleR01b(c *Ctx) {
	pf := getParseFacts(c)
	if pf == nil {
		return
	}
	fd := c.mustFunc("parse", "lexNegative")
	if fd == nil {
		return
	}
	c.seen("parse.lexNegative")
	neg, sub := pf.itemConsts["itemNegate"], pf.itemConsts["itemSub"]
	if neg == nil || sub == nil {
		c.fatalf("anchor: itemNegate / itemSub not found")
		return
	}
	n := 0
	for _, name := range sortedKeys(pf.itemConsts) {
		wantBinary, relevant := operandEnd[name], operandEnd[name] || beforeMinus[name]
		if !relevant {
			continue
		}
		n++
		ev := newEvaluator(c, lastEmitHypo{pf.itemConsts[name].Val()})
		ev.watch["emit"] = true
		comps := ev.execBlock(fd.Body.List, state{env: env{}}, pf.info)
		unary, binary, other := 0, 0, 0
		for _, cp := range comps {
			if cp.kind != cReturn {
				other++
				continue
			}
			var emitted constant.Value
			for _, e := range cp.st.tr.list() {
				if e.name == "emit" && len(e.args) == 1 && e.args[0].k == avConst {
					emitted = e.args[0].c
				}
			}
			switch {
			case emitted != nil && constant.Compare(emitted, token.EQL, sub.Val()):
				binary++
			case emitted != nil && constant.Compare(emitted, token.EQL, neg.Val()):
				unary++
			case emitted == nil && len(cp.vals) == 1 && cp.vals[0].k == avFunc:
				unary++ // hands over to the number scanner: a negative literal
			default:
				other++
			}
		}
		key := "lexNegative after " + name
		switch {
		case other > 0 || (unary > 0 && binary > 0) || unary+binary == 0:
			c.unk("R01b", key, fd.Pos(), fmt.Sprintf("verdict not determined (unary paths %d, binary paths %d, other %d)", unary, binary, other))
		case wantBinary == (binary > 0):
			c.ok("R01b", key, fd.Pos(), fmt.Sprintf("lexed as %s, as the language requires", map[bool]string{true: "subtraction", false: "negation"}[wantBinary]))
		case wantBinary:
			c.bad("R01b", key, fd.Pos(), "a '-' after "+name+" (a complete operand) is lexed as negation: $a -1 style subtraction is misparsed")
		default:
			c.bad("R01b", key, fd.Pos(), "a '-' after "+name+" (where an operand must follow) is lexed as subtraction: valid Soy such as {let $x: -1/}, [-1] or {if -1 < 0} is rejected")
		}
	}
	c.floor("R01b", "token kinds that can precede '-'", 40, n)
}

// language tables for operators
type opSpec struct {
	symbol string
	token  string // itemType constant
	node   string // ast node type
	level  int    // language precedence level (higher binds tighter)
	goOp   string // operator the Go evaluator must apply ("Equals", "!Equals" for equality)
	jsOp   string // symbol the JavaScript generator must emit
}

var langOps = []opSpec{
	{"not", "itemNot", "NotNode", 8, "!", "!"},
	{"-u", "itemNegate", "NegateNode", 8, "-", "-"},
	{"*", "itemMul", "MulNode", 7, "*", "*"},
	{"/", "itemDiv", "DivNode", 7, "/", "/"},
	{"%", "itemMod", "ModNode", 7, "%", "%"},
	{"+", "itemAdd", "AddNode", 6, "+", "+"},
	{"-", "itemSub", "SubNode", 6, "-", "-"},
	{"<", "itemLt", "LtNode", 5, "<", "<"},
	{">", "itemGt", "GtNode", 5, ">", ">"},
	{"<=", "itemLte", "LteNode", 5, "<=", "<="},
	{">=", "itemGte", "GteNode", 5, ">=", ">="},
	{"==", "itemEq", "EqNode", 4, "Equals", "=="},
	{"!=", "itemNotEq", "NotEqNode", 4, "!Equals", "!="},
	{"and", "itemAnd", "AndNode", 3, "&&", "&&"},
	{"or", "itemOr", "OrNode", 2, "||", "||"},
	{"?:", "itemElvis", "ElvisNode", 1, "", ""},
}

// constMapInt reads a map[itemType]int composite literal.
func constMapInt(c *Ctx, rel, name string) map[*types.Const]int64 {
	init := c.mustVarInit(rel, name)
	if init == nil {
		return nil
	}
	cl, ok := init.(*ast.CompositeLit)
	if !ok {
		c.fatalf("anchor: %s.%s is not a composite literal", rel, name)
		return nil
	}
	info := c.Pkgs[rel].TypesInfo
	out := map[*types.Const]int64{}
	for _, el := range cl.Elts {
		kv := el.(*ast.KeyValueExpr)
		k := constObj(info, kv.Key)
		tv := info.Types[kv.Value]
		if k == nil || tv.Value == nil {
			continue
		}
		v, _ := constant.Int64Val(tv.Value)
		out[k] = v
	}
	return out
}

// constMapTok reads a map[string]itemType composite literal as symbol -> constant.
func constMapTok(c *Ctx, rel, name string) map[string]*types.Const {
	init := c.mustVarInit(rel, name)
	if init == nil {
		return nil
	}
	cl, ok := init.(*ast.CompositeLit)
	if !ok {
		return nil
	}
	info := c.Pkgs[rel].TypesInfo
	out := map[string]*types.Const{}
	for _, el := range cl.Elts {
		kv := el.(*ast.KeyValueExpr)
		tv := info.Types[kv.Key]
		k := constObj(info, kv.Value)
		if tv.Value == nil || k == nil {
			continue
		}
		out[constant.StringVal(tv.Value)] = k
	}
	return out
}

// caseTypes returns the ast node type names handled by the main type switch of a walker.
func walkCaseTypes(c *Ctx, rel, fn string) (map[string]*ast.CaseClause, *ast.FuncDecl) {
	fd := c.mustFunc(rel, fn)
	if fd == nil {
		return nil, nil
	}
	info := c.Pkgs[rel].TypesInfo
	out := map[string]*ast.CaseClause{}
	var best *ast.TypeSwitchStmt
	ast.Inspect(fd.Body, func(x ast.Node) bool {
		if ts, ok := x.(*ast.TypeSwitchStmt); ok {
			if best == nil || len(ts.Body.List) > len(best.Body.List) {
				best = ts
			}
		}
		return true
	})
	if best == nil {
		c.fatalf("anchor: no type switch in %s.%s", rel, fn)
		return nil, nil
	}
	for _, cs := range best.Body.List {
		cc := cs.(*ast.CaseClause)
		for _, te := range cc.List {
			if tv, ok := info.Types[te]; ok {
				if r, tn, ok := relPkgOfType(tv.Type); ok && r == "ast" {
					out[tn] = cc
				}
			}
		}
	}
	return out, fd
}

// R01c: the operator pipeline is complete and the precedence order is the language's.
func ruleR01c(c *Ctx) {
	pf := getParseFacts(c)
	if pf == nil {
		return
	}
	info := pf.info
	prec := constMapInt(c, "parse", "precedence")
	sym := constMapTok(c, "parse", "arithmeticItemsBySymbol")
	idents := constMapTok(c, "parse", "builtinIdents")
	goCases, _ := walkCaseTypes(c, "soyhtml", "state.walk")
	jsCases, _ := walkCaseTypes(c, "soyjs", "state.walk")
	isBin := c.mustFunc("parse", "isBinaryOp")
	isUn := c.mustFunc("parse", "isUnaryOp")
	newBin := c.mustFunc("parse", "newBinaryOpNode")
	newUn := c.mustFunc("parse", "newUnaryOpNode")
	if prec == nil || sym == nil || goCases == nil || jsCases == nil || isBin == nil || isUn == nil || newBin == nil || newUn == nil {
		return
	}
	caseConsts := func(fd *ast.FuncDecl) map[*types.Const]*ast.CaseClause {
		out := map[*types.Const]*ast.CaseClause{}
		ast.Inspect(fd.Body, func(x ast.Node) bool {
			if cc, ok := x.(*ast.CaseClause); ok {
				for _, e := range cc.List {
					if k := constObj(info, e); k != nil {
						out[k] = cc
					}
				}
			}
			return true
		})
		return out
	}
	binSet, unSet := caseConsts(isBin), caseConsts(isUn)
	binCtor, unCtor := caseConsts(newBin), caseConsts(newUn)
	ctorType := func(cc *ast.CaseClause) string {
		name := ""
		ast.Inspect(cc, func(x ast.Node) bool {
			if cl, ok := x.(*ast.CompositeLit); ok {
				if tv, ok := info.Types[cl]; ok {
					if r, tn, ok := relPkgOfType(tv.Type); ok && r == "ast" && name == "" && tn != "BinaryOpNode" {
						name = tn
					}
				}
			}
			return true
		})
		return name
	}
	for _, op := range langOps {
		k := pf.itemConsts[op.token]
		key := "operator " + op.symbol
		if k == nil {
			c.bad("R01c", key, token.NoPos, "token constant "+op.token+" is missing")
			continue
		}
		var problems []string
		unary := op.token == "itemNot" || op.token == "itemNegate"
		// symbol -> token
		if !unary || op.token == "itemNot" {
			s := strings.TrimSuffix(op.symbol, "u")
			if sym[s] != k && idents[s] != k {
				problems = append(problems, "the scanner does not map '"+s+"' to "+op.token)
			}
		}
		if unary {
			if unSet[k] == nil {
				problems = append(problems, "not recognised as a unary operator")
			}
			if cc := unCtor[k]; cc == nil || ctorType(cc) != op.node {
				problems = append(problems, "newUnaryOpNode does not build "+op.node)
			}
		} else {
			if binSet[k] == nil {
				problems = append(problems, "not recognised as a binary operator")
			}
			if cc := binCtor[k]; cc == nil || ctorType(cc) != op.node {
				problems = append(problems, "newBinaryOpNode does not build "+op.node)
			}
		}
		if _, ok := prec[k]; !ok {
			problems = append(problems, "no precedence entry (treated as level 0)")
		}
		if goCases[op.node] == nil {
			problems = append(problems, "the Go evaluator has no case for "+op.node)
		}
		if jsCases[op.node] == nil {
			problems = append(problems, "the JavaScript generator has no case for "+op.node)
		}
		if len(problems) > 0 {
			c.bad("R01c", key, isBin.Pos(), strings.Join(problems, "; "))
		} else {
			c.ok("R01c", key, isBin.Pos(), "scanner symbol, operator class, precedence entry, node constructor and both backends' cases are all present")
		}
	}
	// relative precedence order equals the language's
	nPairs, badPairs := 0, []string{}
	for i, a := range langOps {
		for _, b := range langOps[i+1:] {
			ka, kb := pf.itemConsts[a.token], pf.itemConsts[b.token]
			pa, oka := prec[ka]
			pb, okb := prec[kb]
			if !oka || !okb {
				continue
			}
			nPairs++
			sgn := func(x int64) int {
				switch {
				case x > 0:
					return 1
				case x < 0:
					return -1
				}
				return 0
			}
			if sgn(pa-pb) != sgn(int64(a.level-b.level)) {
				badPairs = append(badPairs, fmt.Sprintf("'%s' vs '%s' (code %d:%d, language %d:%d)", a.symbol, b.symbol, pa, pb, a.level, b.level))
			}
		}
	}
	sort.Strings(badPairs)
	c.check(len(badPairs) == 0, "R01c", "precedence#relative-order", c.mustVarInit("parse", "precedence").Pos(),
		fmt.Sprintf("all %d operator pairs are ordered as in the language table (unary > * / %% > + - > < > <= >= > == != > and > or > ?:)", nPairs),
		"operators bind in a different relative order than the language defines: "+strings.Join(firstN(badPairs, 6), "; ")+fmt.Sprintf(" (%d pairs)", len(badPairs)))
	// left associativity: the climbing loop raises the minimum precedence for the right operand
	pe := c.mustFunc("parse", "tree.parseExpr")
	if pe != nil {
		inc := false
		ast.Inspect(pe.Body, func(x ast.Node) bool {
			switch s := x.(type) {
			case *ast.IncDecStmt:
				if s.Tok == token.INC {
					inc = true
				}
			case *ast.BinaryExpr:
				if s.Op == token.ADD {
					if tv, ok := info.Types[s.Y]; ok && tv.Value != nil && tv.Value.ExactString() == "1" {
						inc = true
					}
				}
			}
			return true
		})
		c.check(inc, "R01c", "parseExpr#left-associative", pe.Pos(), "the right operand is parsed one level tighter: binary operators associate to the left",
			"the right operand is parsed at the same level: a - b - c groups as a - (b - c)")
	}
}

// consumedBy: node types that have no case of their own because a parent case evaluates them.
var consumedBy = map[string]string{
	"IfCondNode": "IfNode", "SwitchCaseNode": "SwitchNode", "MsgPlaceholderNode": "MsgNode (walkMsgBody/evalMsgParts)",
	"MsgPluralNode": "MsgNode (walkMsgBody/evalMsgParts)", "MsgPluralCaseNode": "MsgPluralNode", "CallParamValueNode": "CallNode (evalCall)",
	"CallParamContentNode": "CallNode (evalCall)", "DataRefIndexNode": "DataRefNode (evalDataRef)", "DataRefKeyNode": "DataRefNode (evalDataRef)",
	"DataRefExprNode": "DataRefNode (evalDataRef)", "PrintDirectiveNode": "PrintNode (evalPrint)", "SoyDocNode": "template.Registry", "SoyDocParamNode": "template.Registry",
	"NamespaceNode": "template.Registry", "BinaryOpNode": "embedded in the operator nodes", "TypeNode": "HeaderParamNode",
}

// R01d: every node type the parser builds is evaluated by the Go renderer.
func ruleR01d(c *Ctx) {
	pf := getParseFacts(c)
	goCases, _ := walkCaseTypes(c, "soyhtml", "state.walk")
	if pf == nil || goCases == nil {
		return
	}
	built := map[string]token.Pos{}
	for _, fd := range pf.funcs {
		ast.Inspect(fd.Body, func(x ast.Node) bool {
			if cl, ok := x.(*ast.CompositeLit); ok {
				if tv, ok := pf.info.Types[cl]; ok {
					if r, tn, ok := relPkgOfType(tv.Type); ok && r == "ast" {
						if _, isStruct := tv.Type.Underlying().(*types.Struct); isStruct {
							if at, seen := built[tn]; !seen || cl.Pos() < at {
								built[tn] = cl.Pos()
							}
						}
					}
				}
			}
			return true
		})
	}
	for _, tn := range sortedKeys(built) {
		key := "node " + tn
		switch {
		case goCases[tn] != nil:
			c.ok("R01d", key, built[tn], "built by the parser and evaluated by a case of soyhtml's walk")
		case consumedBy[tn] != "":
			c.okTrivial("R01d", key, built[tn], "evaluated by its parent: "+consumedBy[tn])
		default:
			c.bad("R01d", key, built[tn], "the parser builds "+tn+" but the Go renderer has no case for it: rendering it fails with 'unknown node'")
		}
	}
	c.floor("R01d", "node types built by the parser", 45, len(built))
}
