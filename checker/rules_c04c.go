package main

import (
	"fmt"
	"go/ast"
	"go/constant"
	"go/token"
	"go/types"
	"os"
	"sort"
	"strings"
)

type jsEmitter struct {
	name      string
	class     string // result type class: number string bool list map any
	paths     []emitterPath
	pos       token.Pos
	slotClass func(slotDesc string) string
}

var valueKindClass = map[string]string{
	"NullNode": "any", "StringNode": "string", "IntNode": "number", "FloatNode": "number", "BoolNode": "bool", "GlobalNode": "any",
	"ListLiteralNode": "list", "MapLiteralNode": "map", "DataRefNode": "any", "FunctionNode": "", "TernNode": "any", "ElvisNode": "any",
	"NotNode": "bool", "NegateNode": "number", "AddNode": "any", "SubNode": "number", "MulNode": "number", "DivNode": "number", "ModNode": "number",
	"EqNode": "bool", "NotEqNode": "bool", "LtNode": "bool", "LteNode": "bool", "GtNode": "bool", "GteNode": "bool", "AndNode": "bool", "OrNode": "bool",
}

// operand type classes the language requires (anything else is a run-time type error in both backends)
var operandClass = map[string]string{
	"NegateNode": "number", "SubNode": "number", "MulNode": "number", "DivNode": "number", "ModNode": "number",
	"LtNode": "number", "LteNode": "number", "GtNode": "number", "GteNode": "number",
}

var funcResultClass = map[string]string{
	"isNonnull": "bool", "length": "number", "keys": "list", "augmentMap": "map", "round": "number", "floor": "number", "ceiling": "number",
	"min": "number", "max": "number", "randomInt": "number", "strContains": "bool", "hasData": "bool",
	"bidiGlobalDir": "number", "bidiDirAttr": "string", "bidiStartEdge": "string", "bidiEndEdge": "string",
}
var funcArgClass = map[string]string{
	"isNonnull": "any", "length": "list", "keys": "map", "augmentMap": "map", "round": "number", "floor": "number", "ceiling": "number",
	"min": "number", "max": "number", "randomInt": "number", "strContains": "string", "bidiDirAttr": "any",
}

// precedenceExceptions: (slot, child) pairs whose re-association cannot change the value.
var precedenceExceptions = map[string]string{}

func classCompatible(slot, child string) bool {
	return slot == "" || slot == "any" || child == "" || child == "any" || slot == child
}

// expandOpaque splits an identifier built by concatenation in the enclosing function into its parts.
func expandPieces(ps []piece, call *ast.CallExpr, scope ast.Node, info *types.Info) []piece {
	return ps
}

// R04c: no operand emitted by the JavaScript generator can re-associate with the text around it.
func ruleR04c(c *Ctx) {
	p := c.pkg("soyjs")
	ap := c.pkg("ast")
	if p == nil || ap == nil {
		return
	}
	info := p.TypesInfo
	nodeIface := ap.Types.Scope().Lookup("Node").Type().Underlying().(*types.Interface)
	jsCases, walkFd := walkCaseTypes(c, "soyjs", "state.walk")
	ops := operatorKinds(c)
	if jsCases == nil || ops == nil {
		return
	}
	stop := map[string]bool{"js": true, "jsln": true, "Write": true, "walk": true, "block": true, "indent": true, "errorf": true}
	collect := func(body []ast.Stmt) []emitterPath {
		ev := newEvaluator(c, emitHypo{stop})
		ev.watch["js"] = true
		ev.watch["Write"] = true
		ev.watch["walk"] = true
		comps := ev.execBlock(body, state{env: env{}}, info)
		if os.Getenv("SOYLINT_K5") == "2" {
			for _, cp := range comps {
				fmt.Printf("K5DBG kind=%d events=%d notes=%v\n", cp.kind, len(cp.st.tr.list()), sortedKeys(ev.notes))
			}
		}
		var out []emitterPath
		seen := map[string]bool{}
		for _, cp := range comps {
			if cp.kind == cNoReturn || cp.kind == cSpin {
				continue
			}
			ps := piecesOfTrace(c, cp.st.tr.list(), info, nodeIface)
			if len(ps) == 0 {
				continue
			}
			ep := analysePath(ps)
			if seen[ep.text] {
				continue
			}
			seen[ep.text] = true
			out = append(out, ep)
		}
		return out
	}
	var emitters []*jsEmitter
	kinds := map[string]bool{}
	for k := range valueKindClass {
		kinds[k] = true
	}
	for k := range ops {
		kinds[k] = true
	}
	for _, k := range sortedKeys(kinds) {
		cc := jsCases[k]
		if cc == nil || k == "FunctionNode" {
			continue
		}
		kk := k
		emitters = append(emitters, &jsEmitter{name: "walk " + k, class: valueKindClass[k], paths: collect(cc.Body), pos: cc.Pos(),
			slotClass: func(string) string { return operandClass[kk] }})
	}
	// function table emitters
	if init := jsFuncsLit(c); init != nil {
		for _, el := range init.Elts {
			row, ok := el.(*ast.CompositeLit)
			if !ok || len(row.Elts) < 2 {
				continue
			}
			nv := info.Types[row.Elts[0]].Value
			if nv == nil {
				continue
			}
			name := constant.StringVal(nv)
			var body []ast.Stmt
			switch ap := ast.Unparen(row.Elts[1]).(type) {
			case *ast.Ident:
				for _, fd := range c.allFuncDecls("soyjs") {
					if info.Defs[fd.Name] == info.Uses[ap] {
						body = fd.Body.List
					}
				}
			case *ast.CallExpr:
				// a closure factory such as builtinFunc("name"): writes name( args , ... )
				if cal := calleeFunc(ap, info); cal != nil {
					for _, fd := range c.allFuncDecls("soyjs") {
						if info.Defs[fd.Name] == cal {
							ast.Inspect(fd.Body, func(x ast.Node) bool {
								if fl, ok := x.(*ast.FuncLit); ok && body == nil {
									body = fl.Body.List
								}
								// ... or the factory returns a bound method: return prefix(name).apply
								if rs, ok := x.(*ast.ReturnStmt); ok && body == nil && len(rs.Results) == 1 {
									if se, ok := ast.Unparen(rs.Results[0]).(*ast.SelectorExpr); ok {
										if m, ok := info.Uses[se.Sel].(*types.Func); ok {
											for _, md := range c.allFuncDecls("soyjs") {
												if info.Defs[md.Name] == types.Object(m) {
													body = md.Body.List
												}
											}
										}
									}
								}
								return true
							})
						}
					}
				}
			}
			if body == nil {
				c.unk("R04c", "func "+name, row.Pos(), "the emitter of this function could not be located")
				continue
			}
			nm := name
			paths := collect(body)
			// a leading opaque piece that is the closure's "name(" prefix: make the call explicit
			for i := range paths {
				ps := paths[i].pieces
				if len(ps) > 0 && ps[0].opaque && strings.Contains(strings.ToLower(ps[0].desc), "start") {
					np := append([]piece{{opaque: true, desc: ps[0].desc}, {lit: "("}}, ps[1:]...)
					paths[i] = analysePath(np)
				}
			}
			emitters = append(emitters, &jsEmitter{name: "func " + name, class: funcResultClass[name], paths: paths, pos: row.Pos(),
				slotClass: func(string) string { return funcArgClass[nm] }})
		}
	}
	c.seen("soyjs.state.walk")
	_ = walkFd
	if os.Getenv("SOYLINT_K5") != "" {
		debugEmitters(emitters)
	}
	// every path must parse
	nslots := 0
	for _, e := range emitters {
		for i, ep := range e.paths {
			if ep.err != "" {
				c.unk("R04c", fmt.Sprintf("%s path#%d", e.name, i+1), e.pos, "emitted text `"+ep.text+"` is not recognised as one JavaScript expression ("+ep.err+"): its precedence cannot be established")
			}
		}
	}
	// effective level of an emitter as a child: the minimum over its paths (transparent paths defer to literals)
	type childInfo struct {
		level    int
		leadDash bool
		text     string
	}
	childOf := func(e *jsEmitter) []childInfo {
		var out []childInfo
		for _, ep := range e.paths {
			if ep.err != "" {
				continue
			}
			if ep.transparent >= 0 {
				continue // an alias of its child (a global stands for a literal node): the literal kinds are emitters themselves
			}
			out = append(out, childInfo{ep.level, ep.leadDash, ep.text})
		}
		return out
	}
	for _, e := range emitters {
		for pi, ep := range e.paths {
			if ep.err != "" {
				continue
			}
			var idxs []int
			for i := range ep.reqs {
				idxs = append(idxs, i)
			}
			sort.Ints(idxs)
			for _, si := range idxs {
				req := ep.reqs[si]
				nslots++
				key := fmt.Sprintf("%s path#%d slot %s", e.name, pi+1, ep.slots[si])
				if req.prec == 0 && !req.noLeadDash {
					c.okTrivial("R04c", key, e.pos, "bracketed ("+req.why+"): any expression stays one unit in `"+ep.text+"`")
					continue
				}
				var bad []string
				sc := e.slotClass(ep.slots[si])
				for _, ch := range emitters {
					if !classCompatible(sc, ch.class) {
						continue
					}
					for _, ci := range childOf(ch) {
						why := ""
						if ci.level < req.prec {
							why = fmt.Sprintf("%s emits `%s` (precedence %d) where `%s` needs at least %d as %s", ch.name, ci.text, ci.level, ep.text, req.prec, req.why)
						} else if req.noLeadDash && ci.leadDash {
							why = fmt.Sprintf("%s can start with '-' directly after the '-' of `%s`: the two fuse into the decrement operator", ch.name, ep.text)
						}
						if why != "" {
							pk := e.name + " <- " + ch.name
							if _, ok := precedenceExceptions[pk]; !ok {
								bad = append(bad, why)
							}
						}
					}
				}
				if len(bad) == 0 {
					c.ok("R04c", key, e.pos, fmt.Sprintf("%s: every type-compatible operand binds at least as tightly as required (%d)", req.why, req.prec))
				} else {
					c.bad("R04c", key, e.pos, "an operand re-associates with the text around it: "+strings.Join(firstN(uniq(bad), 3), "; ")+fmt.Sprintf(" (%d cases)", len(uniq(bad))))
				}
			}
		}
	}
	c.floor("R04c", "expression emitters of the generator", 35, len(emitters))
	c.floor("R04c", "operand slots", 40, nslots)
}

// debugEmitters prints the linearised emitters (SOYLINT_K5=1).
func debugEmitters(es []*jsEmitter) {
	for _, e := range es {
		for i, p := range e.paths {
			fmt.Printf("K5 %s path#%d level=%d transparent=%d err=%q text=%s\n", e.name, i+1, p.level, p.transparent, p.err, p.text)
		}
	}
}
