package main

import (
	"fmt"
	"go/ast"
	"go/token"
	"go/types"
	"sort"
	"strings"

	"golang.org/x/tools/go/ssa"
)

// ---------------------------------------------------------------------------
// guard facts (syntactic dominance through the usual idioms)

type factSet map[string]bool

func (f factSet) with(more ...string) factSet {
	n := factSet{}
	for k := range f {
		n[k] = true
	}
	for _, m := range more {
		n[m] = true
	}
	return n
}

func exprKey(e ast.Expr) string { return types.ExprString(ast.Unparen(e)) }

// condFacts returns facts established when cond is true (pos) and when it is false (neg).
func condFacts(cond ast.Expr) (pos, neg []string) {
	cond = ast.Unparen(cond)
	switch c := cond.(type) {
	case *ast.BinaryExpr:
		switch c.Op {
		case token.LAND:
			p1, _ := condFacts(c.X)
			p2, _ := condFacts(c.Y)
			return append(p1, p2...), nil
		case token.LOR:
			_, n1 := condFacts(c.X)
			_, n2 := condFacts(c.Y)
			return nil, append(n1, n2...)
		case token.NEQ, token.EQL:
			x, y := exprKey(c.X), exprKey(c.Y)
			if x == "nil" {
				x, y = y, x
			}
			if y == "nil" {
				if c.Op == token.NEQ {
					return []string{x + " != nil"}, nil
				}
				return nil, []string{x + " != nil"}
			}
			// general (in)equality: x == y / x != y
			if c.Op == token.NEQ {
				return []string{x + " != " + y}, []string{x + " == " + y}
			}
			return []string{x + " == " + y}, []string{x + " != " + y}
		case token.LSS, token.LEQ, token.GTR, token.GEQ:
			x, y := exprKey(c.X), exprKey(c.Y)
			var t, f string
			switch c.Op {
			case token.LSS:
				t, f = x+" < "+y, y+" <= "+x
			case token.LEQ:
				t, f = x+" <= "+y, y+" < "+x
			case token.GTR:
				t, f = y+" < "+x, x+" <= "+y
			case token.GEQ:
				t, f = y+" <= "+x, x+" < "+y
			}
			return []string{t}, []string{f}
		}
	case *ast.UnaryExpr:
		if c.Op == token.NOT {
			p, n := condFacts(c.X)
			return n, p
		}
	case *ast.Ident:
		return []string{c.Name}, []string{"!" + c.Name}
	}
	return nil, nil
}

// terminates: the statement list always leaves the enclosing block (return, panic-like call, continue, break).
func terminates(list []ast.Stmt, noret noReturnFunc) bool {
	if len(list) == 0 {
		return false
	}
	switch s := list[len(list)-1].(type) {
	case *ast.ReturnStmt:
		return true
	case *ast.BranchStmt:
		return s.Tok == token.CONTINUE || s.Tok == token.BREAK || s.Tok == token.GOTO
	case *ast.ExprStmt:
		if call, ok := s.X.(*ast.CallExpr); ok {
			return noret(call)
		}
	case *ast.BlockStmt:
		return terminates(s.List, noret)
	}
	return false
}

// guardWalk visits every expression of a function body together with the facts that hold there.
func guardWalk(body *ast.BlockStmt, noret noReturnFunc, visit func(e ast.Expr, facts factSet)) {
	var walkStmts func(list []ast.Stmt, facts factSet)
	var walkStmt func(s ast.Stmt, facts factSet) factSet
	visitExpr := func(e ast.Expr, facts factSet) {
		if e == nil {
			return
		}
		// short-circuit operators establish facts for their right operand
		var rec func(e ast.Expr, facts factSet)
		rec = func(e ast.Expr, facts factSet) {
			if be, ok := ast.Unparen(e).(*ast.BinaryExpr); ok && (be.Op == token.LAND || be.Op == token.LOR) {
				rec(be.X, facts)
				p, n := condFacts(be.X)
				if be.Op == token.LAND {
					rec(be.Y, facts.with(p...))
				} else {
					rec(be.Y, facts.with(n...))
				}
				return
			}
			ast.Inspect(e, func(x ast.Node) bool {
				if _, ok := x.(*ast.FuncLit); ok {
					return false
				}
				if ex, ok := x.(ast.Expr); ok {
					visit(ex, facts)
				}
				return true
			})
		}
		rec(e, facts)
	}
	walkStmt = func(s ast.Stmt, facts factSet) factSet {
		switch s := s.(type) {
		case nil:
		case *ast.BlockStmt:
			walkStmts(s.List, facts)
		case *ast.IfStmt:
			f := facts
			if s.Init != nil {
				f = walkStmt(s.Init, f)
			}
			visitExpr(s.Cond, f)
			pos, neg := condFacts(s.Cond)
			// clamp idiom: if i > len(x) { i = len(x) }
			walkStmts(s.Body.List, f.with(pos...))
			if s.Else != nil {
				walkStmt(s.Else, f.with(neg...))
			}
			if terminates(s.Body.List, noret) {
				return facts.with(neg...)
			}
			if s.Else == nil && len(s.Body.List) == 1 {
				if as, ok := s.Body.List[0].(*ast.AssignStmt); ok && len(as.Lhs) == 1 && len(as.Rhs) == 1 {
					// after `if A > B { A = B }`: A <= B
					if be, ok := ast.Unparen(s.Cond).(*ast.BinaryExpr); ok && be.Op == token.GTR &&
						exprKey(as.Lhs[0]) == exprKey(be.X) && exprKey(as.Rhs[0]) == exprKey(be.Y) {
						return facts.with(exprKey(be.X) + " <= " + exprKey(be.Y))
					}
				}
			}
		case *ast.ExprStmt:
			visitExpr(s.X, facts)
		case *ast.AssignStmt:
			for _, r := range s.Rhs {
				visitExpr(r, facts)
			}
			for _, l := range s.Lhs {
				visitExpr(l, facts)
			}
			// comma-ok forms give the fact "ok" only through the following if; nothing to add here
		case *ast.DeclStmt:
			if gd, ok := s.Decl.(*ast.GenDecl); ok {
				for _, sp := range gd.Specs {
					if vs, ok := sp.(*ast.ValueSpec); ok {
						for _, v := range vs.Values {
							visitExpr(v, facts)
						}
					}
				}
			}
		case *ast.ReturnStmt:
			for _, r := range s.Results {
				visitExpr(r, facts)
			}
		case *ast.ForStmt:
			f := facts
			if s.Init != nil {
				f = walkStmt(s.Init, f)
			}
			visitExpr(s.Cond, f)
			pos, _ := condFacts(s.Cond)
			walkStmts(s.Body.List, f.with(pos...))
			if s.Post != nil {
				walkStmt(s.Post, f)
			}
		case *ast.RangeStmt:
			visitExpr(s.X, facts)
			walkStmts(s.Body.List, facts)
		case *ast.SwitchStmt:
			f := facts
			if s.Init != nil {
				f = walkStmt(s.Init, f)
			}
			visitExpr(s.Tag, f)
			for _, cs := range s.Body.List {
				cc := cs.(*ast.CaseClause)
				cf := f
				for _, e := range cc.List {
					visitExpr(e, f)
					if s.Tag == nil && len(cc.List) == 1 {
						p, _ := condFacts(e)
						cf = cf.with(p...)
					}
				}
				walkStmts(cc.Body, cf)
			}
		case *ast.TypeSwitchStmt:
			f := facts
			if s.Init != nil {
				f = walkStmt(s.Init, f)
			}
			// the asserted expression is evaluated, but x.(type) itself never panics
			switch a := s.Assign.(type) {
			case *ast.ExprStmt:
				visitExpr(a.X.(*ast.TypeAssertExpr).X, f)
			case *ast.AssignStmt:
				visitExpr(a.Rhs[0].(*ast.TypeAssertExpr).X, f)
			}
			for _, cs := range s.Body.List {
				walkStmts(cs.(*ast.CaseClause).Body, f)
			}
		case *ast.DeferStmt:
			visitExpr(s.Call, facts)
		case *ast.GoStmt:
			visitExpr(s.Call, facts)
		case *ast.IncDecStmt:
			visitExpr(s.X, facts)
		case *ast.LabeledStmt:
			return walkStmt(s.Stmt, facts)
		case *ast.SendStmt:
			visitExpr(s.Value, facts)
		}
		return facts
	}
	walkStmts = func(list []ast.Stmt, facts factSet) {
		for _, s := range list {
			facts = walkStmt(s, facts)
		}
	}
	walkStmts(body.List, factSet{})
}

// raisingConstructs lists the constructs of a function body that can fault at
// run time and are not guarded by a dominating test.
type raiseSite struct {
	pos  token.Pos
	kind string
	what string
}

func unguardedFaults(body *ast.BlockStmt, info *types.Info, noret noReturnFunc, strictIndex bool) []raiseSite {
	var out []raiseSite
	commaOK := map[ast.Expr]bool{}
	ast.Inspect(body, func(x ast.Node) bool {
		switch s := x.(type) {
		case *ast.AssignStmt:
			if len(s.Lhs) == 2 && len(s.Rhs) == 1 {
				commaOK[ast.Unparen(s.Rhs[0])] = true
			}
		case *ast.ValueSpec:
			if len(s.Names) == 2 && len(s.Values) == 1 {
				commaOK[ast.Unparen(s.Values[0])] = true
			}
		}
		return true
	})
	guardWalk(body, noret, func(e ast.Expr, facts factSet) {
		switch e := e.(type) {
		case *ast.SelectorExpr:
			// implicit dereference: X.f where X is a pointer- or interface-typed *field*
			if inner, ok := ast.Unparen(e.X).(*ast.SelectorExpr); ok {
				if sel, ok := info.Selections[inner]; ok && sel.Kind() == types.FieldVal {
					switch sel.Type().Underlying().(type) {
					case *types.Pointer, *types.Interface:
						if !facts[exprKey(inner)+" != nil"] {
							out = append(out, raiseSite{e.Pos(), "nil-deref", exprKey(inner) + " is used through ." + e.Sel.Name + " without a dominating nil test"})
						}
					}
				}
			}
		case *ast.TypeAssertExpr:
			if e.Type != nil && !commaOK[e] {
				out = append(out, raiseSite{e.Pos(), "type-assert", "single-value type assertion " + exprKey(e)})
			}
		case *ast.SliceExpr:
			if !strictIndex {
				return
			}
			tv, ok := info.Types[e.X]
			if !ok {
				return
			}
			if _, isArr := tv.Type.Underlying().(*types.Array); isArr {
				return
			}
			for _, b := range []ast.Expr{e.Low, e.High, e.Max} {
				if b == nil {
					continue
				}
				if btv, ok := info.Types[b]; ok && btv.Value != nil {
					continue
				}
				k := stripConvKey(b, info)
				lenX := "len(" + exprKey(e.X) + ")"
				if !(facts[k+" <= "+lenX] || facts[k+" < "+lenX]) {
					out = append(out, raiseSite{e.Pos(), "slice-bound", "bound " + k + " of " + exprKey(e) + " is not compared with " + lenX + " first"})
				}
			}
		case *ast.IndexExpr:
			if !strictIndex {
				return
			}
			tv, ok := info.Types[e.X]
			if !ok {
				return
			}
			switch tv.Type.Underlying().(type) {
			case *types.Map, *types.Signature:
				return
			case *types.Array:
				return
			}
			if tv.IsType() {
				return
			}
			if itv, ok := info.Types[e.Index]; ok && itv.Value != nil {
				// constant index into a slice/string still needs a length test
				lenX := "len(" + exprKey(e.X) + ")"
				if !(facts[exprKey(e.Index)+" < "+lenX]) {
					out = append(out, raiseSite{e.Pos(), "index", "index " + exprKey(e) + " without a length test"})
				}
				return
			}
			k := stripConvKey(e.Index, info)
			lenX := "len(" + exprKey(e.X) + ")"
			if !facts[k+" < "+lenX] {
				out = append(out, raiseSite{e.Pos(), "index", "index " + k + " of " + exprKey(e.X) + " is not compared with " + lenX + " first"})
			}
		}
	})
	return out
}

func stripConvKey(e ast.Expr, info *types.Info) string {
	return exprKey(stripConv(e, info))
}

// faultExceptions: one function+construct each, with the invariant that makes the access safe.
var faultExceptions = map[string]string{
	"template.Registry.LineNumber slice-bound": "node positions are byte offsets into the source text recorded for the same template name; R06c guarantees a name identifies exactly one source, so the offset lies inside it",
	"template.Registry.ColNumber slice-bound":  "same invariant as LineNumber (R06c)",
}

// R06b: the functions the recover handler and errorf run cannot themselves fault.
func ruleR06b(c *Ctx) {
	c.buildSSA()
	var roots []*ssa.Function
	for _, n := range []string{"(*state).errRecover", "(*state).errorf"} {
		f := c.ssaFunc("soyhtml", n)
		if f == nil {
			c.fatalf("anchor: soyhtml.%s not found", n)
			return
		}
		roots = append(roots, f)
	}
	reach := reachFrom(c.VTA(), roots, true)
	nr := newNoRet(c)
	n := 0
	var fns []*ssa.Function
	for f := range reach {
		if isSoyFunc(f) && f.Blocks != nil && f.Parent() == nil {
			fns = append(fns, f)
		}
	}
	sort.Slice(fns, func(i, j int) bool { return fns[i].String() < fns[j].String() })
	for _, f := range fns {
		obj, ok := f.Object().(*types.Func)
		if !ok {
			continue
		}
		rel, ok := relOf(obj.Pkg())
		if !ok {
			continue
		}
		// String()/Error() methods are invoked by fmt, which recovers their panics
		if (obj.Name() == "String" || obj.Name() == "Error") && obj.Type().(*types.Signature).Recv() != nil {
			continue
		}
		var fd *ast.FuncDecl
		for _, d := range c.allFuncDecls(rel) {
			if c.Pkgs[rel].TypesInfo.Defs[d.Name] == obj {
				fd = d
			}
		}
		if fd == nil {
			continue
		}
		n++
		key := c.declKey(rel, fd)
		c.seen(key)
		info := c.Pkgs[rel].TypesInfo
		all := unguardedFaults(fd.Body, info, nr.forInfo(info), true)
		var faults []raiseSite
		for _, ft := range all {
			if why, ok := faultExceptions[key+" "+ft.kind]; ok {
				c.ok("R06b", key+" "+ft.kind, ft.pos, "named exception: "+why)
				continue
			}
			faults = append(faults, ft)
		}
		if len(faults) == 0 {
			c.ok("R06b", key+"#cannot-fault", fd.Pos(), "no unguarded nil dereference of a field, slice bound, index or single-value type assertion")
			continue
		}
		var parts []string
		for _, ft := range faults {
			parts = append(parts, ft.what)
		}
		c.bad("R06b", key+"#cannot-fault", faults[0].pos, "runs inside the render's recover handler (or errorf) and can itself fault: "+strings.Join(firstN(parts, 3), "; ")+": the panic escapes to the caller")
	}
	c.floor("R06b", "functions in the recover handler's call tree", 6, n)
}

// R06c: Registry.Add rejects a template name that is already registered before recording it.
func ruleR06c(c *Ctx) {
	fd := c.mustFunc("template", "Registry.Add")
	p := c.pkg("template")
	if fd == nil || p == nil {
		return
	}
	c.seen("template.Registry.Add")
	info := p.TypesInfo
	nr := newNoRet(c)
	stores := 0
	// map-typed fields indexed by any function of the package other than Add
	lookedUp := map[types.Object]bool{}
	for _, f := range p.Syntax {
		for _, d := range f.Decls {
			od, ok := d.(*ast.FuncDecl)
			if !ok || od == fd || od.Body == nil {
				continue
			}
			ast.Inspect(od.Body, func(x ast.Node) bool {
				// handed to a lookup helper: lookupTemplate(r.sourceByTemplateName, name)
				if call, ok := x.(*ast.CallExpr); ok {
					for _, a := range call.Args {
						if fsel, ok := ast.Unparen(a).(*ast.SelectorExpr); ok {
							if fv, ok := info.Uses[fsel.Sel].(*types.Var); ok && fv.IsField() {
								if _, ok := fv.Type().Underlying().(*types.Map); ok {
									lookedUp[fv] = true
								}
							}
						}
					}
					return true
				}
				ix, ok := x.(*ast.IndexExpr)
				if !ok {
					return true
				}
				if fsel, ok := ast.Unparen(ix.X).(*ast.SelectorExpr); ok {
					if fv, ok := info.Uses[fsel.Sel].(*types.Var); ok && fv.IsField() {
						if _, ok := fv.Type().Underlying().(*types.Map); ok {
							lookedUp[fv] = true
						}
					}
				}
				return true
			})
		}
	}
	guardWalkStmts(fd.Body, nr.forInfo(info), func(s ast.Stmt, facts factSet) {
		as, ok := s.(*ast.AssignStmt)
		if !ok || len(as.Lhs) != 1 {
			return
		}
		ix, ok := as.Lhs[0].(*ast.IndexExpr)
		if !ok {
			return
		}
		tv, ok := info.Types[ix.X]
		if !ok {
			return
		}
		if _, ok := tv.Type.Underlying().(*types.Map); !ok {
			return
		}
		// only the tables the registry's other methods (the position look-ups) read
		if fsel, ok := ast.Unparen(ix.X).(*ast.SelectorExpr); !ok || !lookedUp[info.Uses[fsel.Sel]] {
			return
		}
		stores++
		key := fmt.Sprintf("template.Registry.Add store %s[%s]", exprKey(ix.X), exprKey(ix.Index))
		if facts["absent:"+exprKey(ix.Index)] {
			c.ok("R06c", key, as.Pos(), "dominated by a membership test of the same key whose found-branch returns an error")
		} else {
			c.bad("R06c", key, as.Pos(), "a template name already registered is recorded again: Template() returns the first definition while the position tables hold the last file's text (offsets then exceed it)")
		}
	})
	c.floor("R06c", "name-keyed map stores in Registry.Add", 2, stores)
}

// guardWalkStmts: like guardWalk, but visits statements and tracks the facts
// "absent:<key>" established by `if _, ok := m[key]; ok { return err }` or a
// found-result of a lookup call with the same argument.
func guardWalkStmts(body *ast.BlockStmt, noret noReturnFunc, visit func(s ast.Stmt, facts factSet)) {
	var walk func(list []ast.Stmt, facts factSet)
	walk = func(list []ast.Stmt, facts factSet) {
		for _, s := range list {
			visit(s, facts)
			switch s := s.(type) {
			case *ast.IfStmt:
				walk(s.Body.List, facts)
				if els, ok := s.Else.(*ast.BlockStmt); ok {
					walk(els.List, facts)
				}
				if key := membershipReject(s, noret); key != "" {
					facts = facts.with("absent:" + key)
				}
			case *ast.ForStmt:
				walk(s.Body.List, facts)
			case *ast.RangeStmt:
				walk(s.Body.List, facts)
			case *ast.BlockStmt:
				walk(s.List, facts)
			case *ast.SwitchStmt:
				for _, cs := range s.Body.List {
					walk(cs.(*ast.CaseClause).Body, facts)
				}
			}
		}
	}
	walk(body.List, factSet{})
}

// membershipReject recognises `if _, found := M[K]; found { return <non-nil error> }` and
// `if _, found := r.Lookup(K); found { return ... }`; it returns K's text.
func membershipReject(s *ast.IfStmt, noret noReturnFunc) string {
	as, ok := s.Init.(*ast.AssignStmt)
	if !ok || len(as.Lhs) != 2 || len(as.Rhs) != 1 {
		return ""
	}
	okName, isID := as.Lhs[1].(*ast.Ident)
	cond, isC := ast.Unparen(s.Cond).(*ast.Ident)
	if !isID || !isC || okName.Name != cond.Name {
		return ""
	}
	key := ""
	switch r := ast.Unparen(as.Rhs[0]).(type) {
	case *ast.IndexExpr:
		key = exprKey(r.Index)
	case *ast.CallExpr:
		if len(r.Args) == 1 {
			key = exprKey(r.Args[0])
		}
	}
	if key == "" || len(s.Body.List) == 0 {
		return ""
	}
	ret, ok := s.Body.List[len(s.Body.List)-1].(*ast.ReturnStmt)
	if !ok || len(ret.Results) == 0 {
		return ""
	}
	last := ast.Unparen(ret.Results[len(ret.Results)-1])
	if id, ok := last.(*ast.Ident); ok && id.Name == "nil" {
		return ""
	}
	return key
}
