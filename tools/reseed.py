#!/usr/bin/env python3
"""Re-runs every quick check against each stored seeded change (/verif/seeded/<id>/patch.diff applied to /repo
and undone straight afterwards) and refreshes meta.json's caught_by. Run with nothing else using /repo.
usage: reseed.py [ID ...]"""
import glob, json, os, re, subprocess, sys
def run(cmd, cwd=None):
    p = subprocess.run(cmd, shell=True, cwd=cwd, capture_output=True, text=True, errors="replace", timeout=900)
    return p.returncode, p.stdout + p.stderr
ids = [c['property_id'] for c in json.load(open('/verif/MANIFEST.json'))['checks']]
want = sys.argv[1:]
def keyf(d):
    b = os.path.basename(d); p, k = b.split('-'); return (p, int(k))
for d in sorted(glob.glob('/verif/seeded/C*-*'), key=keyf):
    name = os.path.basename(d)
    if want and name not in want: continue
    assert run('git -C /repo status --porcelain')[1].strip() == '', '/repo not clean'
    rc, out = run(f'git -C /repo apply {d}/patch.diff')
    if rc != 0:
        print(name, 'PATCH DOES NOT APPLY', out.strip()[:200]); continue
    caught = {}
    try:
        from concurrent.futures import ThreadPoolExecutor
        def one(pid):
            rc, out = run(f'/verif/bin/soylint check -prop {pid} -repo /repo -no-evidence -out /verif', cwd='/verif')
            v = re.findall(r'^(?:VIOLATED|UNDECIDED) (\S+) (.*?) at ', out, re.M)
            f = re.findall(r'^ANALYSIS-FAILURE.*', out, re.M)
            return pid, ([' '.join(x) for x in v][:6] + f[:2]) if (v or f) else None
        with ThreadPoolExecutor(max_workers=10) as ex:
            for pid, r in ex.map(one, ids):
                if r: caught[pid] = r
    finally:
        run('git -C /repo checkout -- . && git -C /repo clean -fdq')
    meta = json.load(open(d + '/meta.json'))
    old = meta.get('caught_by', {})
    meta['caught_by'] = caught
    json.dump(meta, open(d + '/meta.json', 'w'), indent=1)
    prop = meta['property']
    flag = 'TARGET-FIRES' if prop in caught else 'target-silent'
    chg = '' if {k: sorted(v) for k, v in old.items()} == {k: sorted(v) for k, v in caught.items()} else '  (changed)'
    print(name, flag, {k: sorted({x.split()[0] for x in v}) for k, v in caught.items()}, chg)
