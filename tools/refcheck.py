#!/usr/bin/env python3
"""refcheck.py [--keep] [--stored] [NAME ...]
Behaviour-preserving refactorings delivered by sub-agents (/tmp/wt/R_<area>/ref<k>/) or kept under
/verif/refactors/<area>-<k>/: each is applied to a scratch copy of /repo (never to /repo itself); the copy must
build and pass the suite; then every check runs on the copy and must stay quiet. Any VIOLATED / UNDECIDED /
ANALYSIS-FAILURE line is a false alarm of the checker. --keep stores patch, meta and result under /verif/refactors/."""
import glob, json, os, re, shutil, subprocess, sys, tempfile
from concurrent.futures import ThreadPoolExecutor
env = dict(os.environ, GOFLAGS='-mod=mod', GOPROXY='off', GOSUMDB='off', GOTOOLCHAIN='local'); env.pop('GOWORK', None)
keep = '--keep' in sys.argv; stored = '--stored' in sys.argv
want = [a for a in sys.argv[1:] if not a.startswith('--')]
ids = [c['property_id'] for c in json.load(open('/verif/MANIFEST.json'))['checks']]
def sh(cmd, cwd=None, timeout=1200):
    r = subprocess.run(cmd, shell=True, cwd=cwd, env=env, capture_output=True, text=True, errors="replace", timeout=timeout)
    return r.returncode, r.stdout + r.stderr
srcs = {}
if stored:
    for d in sorted(glob.glob('/verif/refactors/*-*')): srcs[os.path.basename(d)] = d
else:
    for d in sorted(glob.glob('/tmp/wt/R_*/ref*')):
        a = d.split('/')[3][2:]; k = os.path.basename(d)[3:]
        srcs[f'{a}-{k}'] = d
def one(item):
    name, src = item
    if want and name not in want: return None
    d = tempfile.mkdtemp(prefix='soyref.', dir='/tmp')
    res = {'name': name}
    try:
        sh(f'rsync -a --exclude .git --exclude "ref[0-9]*" /repo/ {d}/')
        rc, out = sh(f'patch -p1 -s --no-backup-if-mismatch -i {src}/patch.diff', cwd=d); res['applies'] = rc == 0
        if rc != 0: res['detail'] = out[-300:]; return res
        rc, out = sh('go build ./...', cwd=d); res['builds'] = rc == 0
        if rc != 0: res['detail'] = out[-300:]; return res
        rc, out = sh('go test -vet=off -count=1 ./... 2>&1 | grep -v "no test files"', cwd=d); res['suite_passes'] = 'FAIL' not in out
        alarms = {}
        for pid in ids:
            rc, out = sh(f'/verif/bin/soylint check -prop {pid} -repo {d} -no-evidence -out /verif', cwd='/verif')
            v = [' '.join(x) for x in re.findall(r'^(?:VIOLATED|UNDECIDED) (\S+) (.*?) at ', out, re.M)]
            f = re.findall(r'^ANALYSIS-FAILURE.*', out, re.M)
            if v or f: alarms[pid] = v[:6] + [x.replace(d + '/', '')[:260] for x in f[:3]]
        res['alarms'] = alarms
    finally:
        shutil.rmtree(d, ignore_errors=True)
    return res
with ThreadPoolExecutor(max_workers=6) as ex:
    results = [r for r in ex.map(one, sorted(srcs.items())) if r]
for r in results:
    st = 'QUIET' if r.get('alarms') == {} and r.get('suite_passes') else ('FALSE-ALARM' if r.get('alarms') else 'NOT-USABLE')
    print(r['name'], st, {k: v for k, v in r.items() if k not in ('name',) and (k != 'alarms' or v)})
    if keep and r.get('applies') and r.get('builds') and r.get('suite_passes') and not stored:
        dst = f'/verif/refactors/{r["name"]}'; os.makedirs(dst, exist_ok=True)
        shutil.copy(srcs[r['name']] + '/patch.diff', dst)
        meta = json.load(open(srcs[r['name']] + '/meta.json'))
        meta['confirmed'] = {'applies': True, 'builds': True, 'suite_passes': True}
        meta['alarms_when_first_run'] = r.get('alarms', {})
        json.dump(meta, open(dst + '/meta.json', 'w'), indent=1)
