#!/bin/bash
# Re-confirms every kept seeded change against the current tree (patch applies, builds, suite passes with it,
# demonstration fails with it and passes without it), eight at a time, each in its own scratch worktree.
# Does not touch /repo's working tree. Afterwards run tools/reseed.py to refresh which checks fire.
cd /verif
one() {
  d=$1; p=${d%-*}; k=${d#*-}
  SEED_SKIP_CHECKS=1 python3 tools/seedcheck.py $p $k --stored --keep 2>&1 | python3 -c "
import sys,json
t=sys.stdin.read()
try:
    i=t.index('{'); d=json.loads(t[i:])
    c=[d.get(k) for k in ('applies','builds','suite_passes_with_change','demo_fails_with_change','demo_passes_without_change')]
    print('$d', 'CONFIRMED' if all(c) else 'NOT-CONFIRMED '+str(c))
    if not all(c): print('   ', (d.get('demo_output_clean') or d.get('demo_output_with_change') or '')[-500:].replace('\n',' | '))
except Exception as e: print('$d ERR', e, t[-600:].replace('\n',' | '))
"
}
export -f one
ls seeded | sort -V | xargs -P 8 -I{} bash -c 'one {}'
