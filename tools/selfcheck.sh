#!/bin/bash
exec python3 /verif/tools/selfcheck.py "$1" "$2"
