#!/usr/bin/env python3
"""Prints the DESIGN.md 10.7 table from /verif/seeded/*/meta.json."""
import glob, json, os
def keyf(d):
    b = os.path.basename(d); p, k = b.split('-'); return (p, int(k))
print('| seed | change | caught by the property\'s own check (rules) | other checks that also fire |')
print('|---|---|---|---|')
n = miss = 0
for d in sorted(glob.glob('/verif/seeded/C*-*'), key=keyf):
    m = json.load(open(d + '/meta.json')); p = m['property']; cb = m.get('caught_by', {})
    own = ', '.join(sorted({x.split()[0] for x in cb.get(p, [])})) or '**not caught**'
    oth = ', '.join(sorted(k for k in cb if k != p)) or '—'
    s = m['summary'].replace('|', '\\|').replace('\n', ' ')
    s = s if len(s) <= 150 else s[:150] + '…'
    print(f'| {os.path.basename(d)} | {s} | {own} | {oth} |')
    n += 1; miss += p not in cb
print(); print(f'{n} seeded changes, {n - miss} caught by their own property\'s check, {miss} not.')
