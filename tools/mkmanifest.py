#!/usr/bin/env python3
"""Regenerates /verif/MANIFEST.json from the table below (kept in one place so it is always valid)."""
import json, sys
sys.path.insert(0, '/verif/tools')
from manifest_table import CHECKS, NOT_APPLICABLE

BASE = ("for m in $(cat /w/out/gomods.txt); do MF=$(cd /repo/$m && . /w/out/goenv.sh && gomodflag); "
        "(cd /repo/$m && go test $MF -json -vet=off -count=1 -timeout 25m ./...); done")
m = {
 "version": 1,
 "setup_cmd": ". /verif/env.sh && mkdir -p /verif/bin && cd /verif/checker && go build -o /verif/bin/soylint .",
 "hooks": {"guard": "verif", "enable": "none needed: static analysis reads /repo's sources as they are; no hook or instrumentation commit exists",
           "baseline_off_cmd": BASE, "source_commits": [], "add_only": True},
 "engines": [{"name": "soylint", "path": "/verif/checker", "serves_properties": [c["id"] for c in CHECKS],
              "kind_free_text": "repository-specific static analyser (go/packages + go/types + go/cfg + go/ssa + VTA call graph, x/tools v0.29.0); rules per property in checker/rules_*.go"}],
 "checks": [],
 "notes": "All checks are static: they load /repo's current working tree, never execute soy code. Level 'other' everywhere: each check decides named structural clauses that are necessary conditions of the property; see DESIGN.md.",
 "not_applicable": [{"property_id": k, "reason": v} for k, v in NOT_APPLICABLE],
}
for c in CHECKS:
    m["checks"].append({
        "property_id": c["id"],
        "quick_cmd": "./check %s quick" % c["id"],
        "thorough_cmd": "./check %s thorough" % c["id"],
        "evidence_file": "/verif/evidence/%s.json" % c["id"],
        "replay_cmd_template": "./check replay {path}",
        "engine": "soylint",
        "level_claimed": {"category": "other", "text": c["text"], "design_ref": "DESIGN.md §4 " + c["id"]},
        "level_note": c["note"],
        "technique": c["technique"],
    })
json.dump(m, open('/verif/MANIFEST.json', 'w'), indent=1)
print("wrote MANIFEST.json:", len(m["checks"]), "checks,", len(m["not_applicable"]), "not applicable")
