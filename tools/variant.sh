#!/bin/bash
# usage: variant.sh <prop> <patch-file | -e 'sed-expr' file>...   : run soylint on a scratch copy of /repo with an edit
# prints soylint output; scratch copy is removed afterwards.
set -u
. /verif/env.sh
prop=$1; shift
d=$(mktemp -d /tmp/soyvar.XXXXXX)
trap 'rm -rf "$d"' EXIT
rsync -a --exclude .git /repo/ "$d/"
if [ "$1" = "-e" ]; then
  while [ $# -ge 3 ] && [ "$1" = "-e" ]; do sed -i -E "$2" "$d/$3"; shift 3; done
elif [ "$1" = "-py" ]; then
  python3 "$2" "$d"
else
  (cd "$d" && patch -p1 -s < "$1") || { echo "PATCH-FAILED"; exit 3; }
fi
(cd "$d" && go build ./... 2>&1 | head -5)
/verif/bin/soylint check -prop "$prop" -repo "$d" -no-evidence -out /verif | sed "s|$d/||g"
