CHECKS = [
 {"id": "C05",
  "text": "Partial. Decides statically, for every input at once, that every scanner loop leaves when the input is exhausted, every parser loop leaves when the token stream is exhausted, and the scanner's end-of-input state graph reaches nil. These are necessary conditions of 'parsing terminates'; the time bound and the absence of runtime-error panics are not decided.",
  "note": "Trusts go/types callee resolution and the tabulated behaviour of unicode.Is*/strings.IndexRune on the constant eof; assumes reads after exhaustion keep yielding terminal tokens (closed channel).",
  "technique": "static analysis: finite-domain abstract evaluation of loop exit predicates (AST + go/types)"},
]
PENDING = "check under construction in this round (see DESIGN.md); not claimed until its rules are armed and validated"
NOT_APPLICABLE = [(p, PENDING) for p in
  ["C01","C02","C03","C04","C06","C07","C08","C09","C10","C11","C12","C13","C14","C15","C17","C18","C19","C20"]] + [
 ("C16", "every clause is a decode(encode(x))=x / length / UTF-8 statement over all strings and integers; no structural necessary condition exists beyond those decided under C03/C04/C06"),
]
