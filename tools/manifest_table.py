CHECKS = [
 {"id": "C05",
  "text": "Partial. Decides statically, for every input at once, that every scanner loop leaves when the input is exhausted, every parser loop leaves when the token stream is exhausted, and the scanner's end-of-input state graph reaches nil. These are necessary conditions of 'parsing terminates'; the time bound and the absence of runtime-error panics are not decided.",
  "note": "Trusts go/types callee resolution and the tabulated behaviour of unicode.Is*/strings.IndexRune on the constant eof; assumes reads after exhaustion keep yielding terminal tokens (closed channel).",
  "technique": "static analysis: finite-domain abstract evaluation of loop exit predicates (AST + go/types)"},
 {"id": "C02",
  "text": "Partial. Decides: push/pop of the renderer's scope is paired on every returning path of every soyhtml function; every command body (the AST fields the parser fills from itemList, derived on each run) is rendered in its own frame; a called template's state is built only from a scope with a renderer-allocated top frame, set() never runs on caller data, and the data=\"all\" view is capacity-capped. These are necessary conditions of block scoping and callee isolation; the rendered text of each command is not decided.",
  "note": "go/cfg control flow with no-return functions inferred from source; scope API classified structurally (append = push, reslice-by-one = pop).",
  "technique": "static analysis: typestate / pairing dataflow over go/cfg + parser-derived block table"},
 {"id": "C08",
  "text": "Full for the no-write clause. Interprocedural effect analysis: no Store/MapUpdate/append/copy/delete/sort reachable from Renderer.Execute, Tofu.Render, EvalExpr, soyjs.Write or Generator.WriteFile lands in a non-fresh object of a type declared in ast/template/soymsg/pomsg, in a data.Map/data.List, or in a package variable; the one locally undischargeable site (scope.set) is discharged by the scope-frame typestate. Hence a render cannot change what a later render sees. Randomness-by-specification (randomInt) and caller-supplied callbacks are outside.",
  "note": "Sound relative to the VTA call graph (CHA in thorough), absence of reflection/unsafe writes (asserted each run), and library functions listed as allocating; one named exception (MsgNode.Placeholder's append) is justified in DESIGN.md.",
  "technique": "static analysis: SSA provenance/effect analysis over the VTA call graph + typestate"},
 {"id": "C09",
  "text": "Partial. Decides the sufficient condition for race freedom among concurrent calls: no call writes memory another call can reach (C08's effect analysis over all concurrent entries; package-state writes only for parse/compile entries), the scanner goroutine and the parser share no lexer field but the channel, run closes the channel on every exit, and no goroutine is started on the render path. Schedules themselves are not explored.",
  "note": "Same trusted base as C08; channel operations are taken as synchronising; Bundle.recompiler (WatchFiles) is documented upstream as not goroutine-safe and is outside the property.",
  "technique": "static analysis: SSA effect analysis + field-access partition across the goroutine boundary"},
 {"id": "C12",
  "text": "Full for the stated clause. Error discipline decided on SSA for every input and writer at once: each call reachable from Renderer.Execute that writes to an io.Writer-typed operand has its error tested, with the failing branch raising or returning it to callers that do, and the entry installs the recover that turns the raise into the returned error (and assigns it on every recovered path). With sequential emission this gives: a failing write always surfaces, accepted bytes are a prefix, nil only if every write succeeded.",
  "note": "Assumes writers honour the io.Writer contract (a short write reports an error); in-memory *bytes.Buffer writes (renderBlock) never fail and are exempt by construction.",
  "technique": "static analysis: SSA error-result discipline (checked-or-propagated) + entry recover installation on go/cfg"},
 {"id": "C18",
  "text": "Full (structural). Acquire/release decided on the control-flow graph: every function that starts a scanner goroutine is covered on every returning path by a deferred drain, or by a draining recover handler together with reading the stream through its EOF token; the scanner returns its nil state right after an error item or EOF, closes its channel on every exit of run, and its loops end when input is exhausted.",
  "note": "Paths that leave by re-panicking a runtime error do not return and are outside the property. A drain loop is taken to let every pending send complete.",
  "technique": "static analysis: acquire/release pairing dataflow on go/cfg + terminal-item shape rules"},
]
PENDING = "check under construction in this round (see DESIGN.md); not claimed until its rules are armed and validated"
NOT_APPLICABLE = [(p, PENDING) for p in
  ["C01","C03","C04","C06","C07","C10","C11","C13","C14","C15","C17","C19","C20"]] + [
 ("C16", "every clause is a decode(encode(x))=x / length / UTF-8 statement over all strings and integers; no structural necessary condition exists beyond those decided under C03/C04/C06"),
]
