#!/usr/bin/env python3
"""seedcheck.py <PROP> <k> [--keep]
Confirms a seeded change produced by a sub-agent (in /tmp/wt/<PROP>/seed<k>/) and runs the checks against it.
 1. in a scratch worktree: the patch applies, the library builds, the existing suite passes with it,
    the demonstration fails with it and passes without it;
 2. applies the patch to /repo, runs every claimed check (quick), undoes it straight away;
 3. with --keep stores patch, demo and meta under /verif/seeded/<PROP>-<k>/.
"""
import json, os, shutil, subprocess, sys, glob, re
prop, k = sys.argv[1], sys.argv[2]
wtid = k
keep = '--keep' in sys.argv
src = f'/tmp/wt/{prop}/seed{k}'
stored = None
if '--stored' in sys.argv:
    # re-confirm a kept change from /verif/seeded/<PROP>-<k>/ (e.g. after a fix: commit changed the code it touches);
    # the directory name the demonstration expects (seed<j>) is read from its command
    stored = f'/verif/seeded/{prop}-{k}'
    src = stored
    m = re.search(r'seed(\d+)', json.load(open(src + '/meta.json')).get('demo_cmd', ''))
    if m: k = m.group(1)
env = dict(os.environ, GOFLAGS='-mod=mod', GOPROXY='off', GOSUMDB='off', GOTOOLCHAIN='local')
def run(cmd, cwd=None, timeout=900):
    r = subprocess.run(cmd, shell=True, cwd=cwd, env=env, capture_output=True, text=True, errors="replace", timeout=timeout)
    return r.returncode, (r.stdout + r.stderr)
meta = json.load(open(src + '/meta.json'))
wt = f'/tmp/seedwt.{prop}.{wtid}'
run(f'git -C /repo worktree remove --force {wt}')
rc, out = run(f'git -C /repo worktree add -q --detach {wt} HEAD')
assert rc == 0, out
res = {'property': prop, 'seed': k}
try:
    rc, out = run(f'git apply {src}/patch.diff', cwd=wt); res['applies'] = rc == 0
    if rc != 0: print('PATCH DOES NOT APPLY', out); sys.exit(1)
    rc, out = run('go build ./...', cwd=wt); res['builds'] = rc == 0
    rc, out = run('go test -vet=off -count=1 $(go list ./... | grep -v /seed) 2>&1 | grep -v "no test files"', cwd=wt); res['suite_passes_with_change'] = ('FAIL' not in out) and rc == 0
    if not res['suite_passes_with_change']: print(out[-1500:])
    demo = meta.get('demo_cmd', '')
    demo = demo.replace(f'/tmp/wt/{prop}', wt)
    # the demonstration refers to its files relative to the worktree (seed<k>/...): give it a copy
    demo = re.sub(r'git apply [^;&]*patch\.diff\s*(&&|;)?', '', demo)
    res['demo_cmd'] = demo
    def stage():
        shutil.rmtree(f'{wt}/seed{k}', ignore_errors=True)
        shutil.copytree(src, f'{wt}/seed{k}')
    stage()
    rc, out = run(demo, cwd=wt); res['demo_fails_with_change'] = rc != 0 or 'FAIL' in out
    res['demo_output_with_change'] = out[-600:]
    run('git checkout -- . && git clean -fdq', cwd=wt)
    stage()
    rc, out = run(demo, cwd=wt); res['demo_passes_without_change'] = rc == 0 and 'FAIL' not in out
    if not res['demo_passes_without_change']: res['demo_output_clean'] = out[-600:]
finally:
    run(f'git -C /repo worktree remove --force {wt}')
if os.environ.get('SEED_SKIP_CHECKS'):
    # confirmation only (touches nothing but its own scratch worktree, so several can run at once)
    if keep and stored:
        meta['confirmed'] = {x: res.get(x) for x in ('applies', 'builds', 'suite_passes_with_change', 'demo_fails_with_change', 'demo_passes_without_change')}
        json.dump(meta, open(stored + '/meta.json', 'w'), indent=1)
    res['caught_by'] = meta.get('caught_by', {}); res['target_check_fires'] = prop in res['caught_by']
    print(json.dumps(res, indent=1)); sys.exit(0)
# run the checks against /repo with the patch applied
assert run('git -C /repo status --porcelain')[1].strip() == '', '/repo not clean'
rc, out = run(f'git -C /repo apply {src}/patch.diff'); assert rc == 0, out
caught = {}
try:
    ids = [c['property_id'] for c in json.load(open('/verif/MANIFEST.json'))['checks']]
    from concurrent.futures import ThreadPoolExecutor
    def one(pid):
        rc, out = run(f'/verif/bin/soylint check -prop {pid} -repo /repo -no-evidence -out /verif', cwd='/verif')
        v = re.findall(r'^(?:VIOLATED|UNDECIDED) (\S+) (.*?) at ', out, re.M)
        f = re.findall(r'^ANALYSIS-FAILURE.*', out, re.M)
        return pid, ([' '.join(x) for x in v][:6] + f[:2]) if (v or f) else None
    with ThreadPoolExecutor(max_workers=10) as ex:
        for pid, r in ex.map(one, ids):
            if r: caught[pid] = r
finally:
    run('git -C /repo checkout -- . && git -C /repo clean -fdq')
res['caught_by'] = caught
res['target_check_fires'] = prop in caught
print(json.dumps(res, indent=1))
if keep and stored:
    meta['confirmed'] = {x: res.get(x) for x in ('applies', 'builds', 'suite_passes_with_change', 'demo_fails_with_change', 'demo_passes_without_change')}
    meta['caught_by'] = caught
    json.dump(meta, open(stored + '/meta.json', 'w'), indent=1)
elif keep:
    d = f'/verif/seeded/{prop}-{int(k) + int(os.environ.get("SEED_STORE_OFFSET", "0"))}'
    os.makedirs(d, exist_ok=True)
    for f in glob.glob(src + '/*'):
        if os.path.isfile(f): shutil.copy(f, d)
    meta['confirmed'] = {x: res.get(x) for x in ('applies', 'builds', 'suite_passes_with_change', 'demo_fails_with_change', 'demo_passes_without_change')}
    meta['what_i_ran'] = ['git apply patch.diff in a scratch worktree; go build ./...; go test -vet=off -count=1 ./...; ' + res.get('demo_cmd', ''), 'git -C /repo apply patch.diff; every quick check; git -C /repo checkout -- .']
    meta['caught_by'] = caught
    json.dump(meta, open(d + '/meta.json', 'w'), indent=1)
