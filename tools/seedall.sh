#!/bin/bash
# seedall.sh [--keep] ID-k ... : confirm and check several seeded changes, one summary line each
keep=""; [ "$1" = "--keep" ] && { keep="--keep"; shift; }
for s in "$@"; do p=${s%-*}; k=${s#*-}; python3 /verif/tools/seedcheck.py $p $k $keep 2>&1 | python3 -c "
import sys,json
t=sys.stdin.read()
try:
    d=json.loads(t[t.index('{'):])
    ok=all(d.get(x) for x in ('applies','builds','suite_passes_with_change','demo_fails_with_change','demo_passes_without_change'))
    print('$s', 'CONFIRMED' if ok else 'UNCONFIRMED '+str({x:d.get(x) for x in ('applies','builds','suite_passes_with_change','demo_fails_with_change','demo_passes_without_change')}), 'TARGET-FIRES' if d['target_check_fires'] else 'target-silent', {k:v[:2] for k,v in d['caught_by'].items()})
except Exception as e: print('$s ERROR', e, t[-300:])"; done
