#!/usr/bin/env python3
"""kf.py fixed|known <prop> <rule> <construct> <commit-or-> <what...>  : append an entry to known_findings.json (edit-time only)."""
import json,sys
st,prop,rule,cons,commit=sys.argv[1:6]; what=' '.join(sys.argv[6:])
p='/verif/known_findings.json'; d=json.load(open(p))
e={"property":prop,"rule":rule,"construct":cons,"status":st,"what":what}
if st=='fixed':
    e["commit"]=commit; e["record"]="fixed: property=%s %s %s"%(prop,commit,what)
d["findings"].append(e)
json.dump(d,open(p,'w'),indent=1); print(e.get("record",e))
