#!/usr/bin/env python3
"""Checker self-validation (thorough tier): for each scratch-copy variant of /repo registered for a
property, one instance of a rule is broken (or a behaviour-preserving edit is made) by an exact text
replacement; the variant must still compile; soylint must then report exactly that rule/instance
(or stay quiet for must-stay-quiet variants). Variants run sequentially in separate processes; each
scratch directory is removed before the next. Variants whose anchor text is absent from the current
tree are skipped (the tree under analysis may differ from the pinned one)."""
import json, os, re, shutil, subprocess, sys, tempfile
sys.path.insert(0, '/verif/variants')
from table import VARIANTS

def run(prop, out_path, repo='/repo'):
    env = dict(os.environ, GOFLAGS='-mod=mod', GOPROXY='off', GOSUMDB='off', GOTOOLCHAIN='local')
    env.pop('GOWORK', None)
    results, ok = [], True
    # baseline violations on the unmodified tree are not attributed to a variant
    base = subprocess.run(['/verif/bin/soylint', 'check', '-prop', prop, '-repo', repo, '-no-evidence', '-out', '/verif'],
                          capture_output=True, text=True, errors="replace", env=env).stdout
    base_v = set(re.findall(r'^(?:VIOLATED|UNDECIDED) (\S+) (.*?) at ', base, re.M))
    for v in [v for v in VARIANTS if v['prop'] == prop]:
        d = tempfile.mkdtemp(prefix='soyvar.', dir='/tmp')
        try:
            subprocess.run(['rsync', '-a', '--exclude', '.git', repo + '/', d + '/'], check=True)
            applied = True
            for (f, old, new) in v['edits']:
                p = os.path.join(d, f)
                s = open(p).read()
                if old not in s:
                    applied = False
                    break
                open(p, 'w').write(s.replace(old, new, 1))
            if not applied:
                results.append({'name': v['name'], 'status': 'skipped (anchor text absent on this tree)'})
                continue
            b = subprocess.run(['go', 'build', './...'], cwd=d, capture_output=True, text=True, errors="replace", env=env)
            if b.returncode != 0:
                results.append({'name': v['name'], 'status': 'variant does not compile', 'detail': b.stderr[-300:]})
                ok = False
                continue
            r = subprocess.run(['/verif/bin/soylint', 'check', '-prop', prop, '-repo', d, '-no-evidence', '-out', '/verif'],
                               capture_output=True, text=True, errors="replace", env=env)
            found = set(re.findall(r'^(?:VIOLATED|UNDECIDED) (\S+) (.*?) at ', r.stdout, re.M)) - base_v
            fail = 'ANALYSIS-FAILURE' in r.stdout and 'ANALYSIS-FAILURE' not in base
            exp = v.get('expect')
            if exp is None:
                good = not found and not fail
                results.append({'name': v['name'], 'kind': 'must-stay-quiet', 'status': 'quiet' if good else 'FALSE ALARM',
                                'reported': sorted(' '.join(x) for x in found)})
            else:
                hit = [x for x in found if x[0] == exp and v.get('key', '') in x[1]]
                good = bool(hit)
                results.append({'name': v['name'], 'kind': 'must-fire', 'expect': exp + ' ' + v.get('key', ''),
                                'status': 'fired' if good else 'MISSED', 'reported': sorted(' '.join(x) for x in found)})
            ok = ok and good
        finally:
            shutil.rmtree(d, ignore_errors=True)
    # the seeded changes kept under /verif/seeded that this property's check is recorded to catch
    import glob
    for sd in sorted(glob.glob('/verif/seeded/%s-*' % prop)):
        try:
            meta = json.load(open(sd + '/meta.json'))
        except Exception:
            continue
        expect_rules = sorted({x.split()[0] for x in meta.get('caught_by', {}).get(prop, []) if not x.startswith('ANALYSIS')})
        if not expect_rules:
            continue
        name = 'seeded ' + os.path.basename(sd)
        d = tempfile.mkdtemp(prefix='soyvar.', dir='/tmp')
        try:
            subprocess.run(['rsync', '-a', '--exclude', '.git', repo + '/', d + '/'], check=True)
            pr = subprocess.run(['patch', '-p1', '-s', '--no-backup-if-mismatch', '-i', sd + '/patch.diff'], cwd=d, capture_output=True, text=True, errors="replace")
            if pr.returncode != 0:
                results.append({'name': name, 'status': 'skipped (patch does not apply to this tree)'})
                continue
            b = subprocess.run(['go', 'build', './...'], cwd=d, capture_output=True, text=True, errors="replace", env=env)
            if b.returncode != 0:
                results.append({'name': name, 'status': 'skipped (patched tree does not compile)'})
                continue
            r = subprocess.run(['/verif/bin/soylint', 'check', '-prop', prop, '-repo', d, '-no-evidence', '-out', '/verif'],
                               capture_output=True, text=True, errors="replace", env=env)
            found = set(re.findall(r'^(?:VIOLATED|UNDECIDED) (\S+) (.*?) at ', r.stdout, re.M)) - base_v
            good = any(x[0] in expect_rules for x in found)
            results.append({'name': name, 'kind': 'must-fire (seeded change)', 'expect': ' or '.join(expect_rules),
                            'status': 'fired' if good else 'MISSED', 'reported': sorted(' '.join(x) for x in found)[:6]})
            ok = ok and good
        finally:
            shutil.rmtree(d, ignore_errors=True)
    # behaviour-preserving refactorings kept under /verif/refactors (delivered by sub-agents, confirmed to build and
    # pass the suite): this property's check must stay quiet on every one of them
    from concurrent.futures import ThreadPoolExecutor
    def replay_refactor(rd):
        name = 'refactoring ' + os.path.basename(rd)
        d = tempfile.mkdtemp(prefix='soyvar.', dir='/tmp')
        try:
            subprocess.run(['rsync', '-a', '--exclude', '.git', repo + '/', d + '/'], check=True)
            pr = subprocess.run(['patch', '-p1', '-s', '--no-backup-if-mismatch', '-i', rd + '/patch.diff'], cwd=d, capture_output=True, text=True, errors="replace")
            if pr.returncode != 0:
                return {'name': name, 'status': 'skipped (patch does not apply to this tree)'}
            b = subprocess.run(['go', 'build', './...'], cwd=d, capture_output=True, text=True, errors="replace", env=env)
            if b.returncode != 0:
                return {'name': name, 'status': 'skipped (patched tree does not compile)'}
            r = subprocess.run(['/verif/bin/soylint', 'check', '-prop', prop, '-repo', d, '-no-evidence', '-out', '/verif'],
                               capture_output=True, text=True, errors="replace", env=env)
            found = set(re.findall(r'^(?:VIOLATED|UNDECIDED) (\S+) (.*?) at ', r.stdout, re.M)) - base_v
            fail = 'ANALYSIS-FAILURE' in r.stdout and 'ANALYSIS-FAILURE' not in base
            good = not found and not fail
            return {'name': name, 'kind': 'must-stay-quiet (refactoring)', 'status': 'quiet' if good else 'FALSE ALARM',
                    'reported': sorted(' '.join(x) for x in found)[:6]}
        finally:
            shutil.rmtree(d, ignore_errors=True)
    rds = sorted(glob.glob('/verif/refactors/*-*'))
    if rds:
        with ThreadPoolExecutor(max_workers=6) as ex:
            for res in ex.map(replay_refactor, rds):
                results.append(res)
                if res['status'] == 'FALSE ALARM':
                    ok = False
    summary = {
        'variants_fired': sum(1 for r in results if r['status'] == 'fired'),
        'variants_quiet': sum(1 for r in results if r['status'] == 'quiet'),
        'variants_skipped': sum(1 for r in results if r['status'].startswith('skipped')),
        'variants': results,
    }
    json.dump(summary, open(out_path, 'w'), indent=1)
    for r in results:
        print('selfcheck', prop, r['name'], '->', r['status'], r.get('reported', ''))
    return ok

if __name__ == '__main__':
    sys.exit(0 if run(sys.argv[1], sys.argv[2], os.environ.get('SOY_REPO', '/repo')) else 1)
