# sourced by every script: offline Go environment
export GOFLAGS=-mod=mod GOPROXY=off GOSUMDB=off GOTOOLCHAIN=local
unset GOWORK
export CARGO_NET_OFFLINE=true PIP_NO_INDEX=1
